"""Program model: modules, import maps, class table (C3 MRO), functions,
best-effort type/callee resolution.  Pure `ast`; nothing from /repo is imported.
"""

from __future__ import annotations

import ast
import hashlib
import os
from typing import Iterable, Iterator

from . import PKG, REPO


class AnalysisError(Exception):
    """The analysis cannot be trusted (vanished anchor, unparsable unit, floor)."""


class AnchorError(AnalysisError):
    pass


# --------------------------------------------------------------------------- util


def unparse(node: ast.AST) -> str:
    try:
        return ast.unparse(node)
    except Exception:  # pragma: no cover
        return ast.dump(node)


def digest(text: str) -> str:
    return hashlib.sha256(text.encode()).hexdigest()[:12]


def walk_no_nested(node: ast.AST, *, include_lambda: bool = True) -> Iterator[ast.AST]:
    """Walk `node` without descending into nested function/class definitions."""
    stack = list(ast.iter_child_nodes(node))
    while stack:
        n = stack.pop()
        yield n
        if isinstance(n, (ast.FunctionDef, ast.AsyncFunctionDef, ast.ClassDef)):
            continue
        if isinstance(n, ast.Lambda) and not include_lambda:
            continue
        stack.extend(ast.iter_child_nodes(n))


def dotted(expr: ast.AST) -> str | None:
    """`a.b.c` for Name/Attribute chains, else None."""
    parts = []
    while isinstance(expr, ast.Attribute):
        parts.append(expr.attr)
        expr = expr.value
    if isinstance(expr, ast.Name):
        parts.append(expr.id)
        return ".".join(reversed(parts))
    return None


def contains_await(node: ast.AST) -> bool:
    if isinstance(node, (ast.Await, ast.AsyncFor, ast.AsyncWith)):
        return True
    for n in walk_no_nested(node):
        if isinstance(n, (ast.Await, ast.AsyncFor, ast.AsyncWith)):
            return True
    return False


def set_parents(tree: ast.AST) -> None:
    for parent in ast.walk(tree):
        for child in ast.iter_child_nodes(parent):
            child._parent = parent  # type: ignore[attr-defined]


def parent(node: ast.AST) -> ast.AST | None:
    return getattr(node, "_parent", None)


def ancestors(node: ast.AST) -> Iterator[ast.AST]:
    p = parent(node)
    while p is not None:
        yield p
        p = parent(p)


def enclosing_stmt(node: ast.AST) -> ast.stmt | None:
    n: ast.AST | None = node
    while n is not None and not isinstance(n, ast.stmt):
        n = parent(n)
    return n  # type: ignore[return-value]


# --------------------------------------------------------------------------- entities


class Module:
    def __init__(self, name: str, relpath: str, source: str):
        self.name = name
        self.relpath = relpath
        self.source = source
        self.tree = ast.parse(source, filename=relpath)
        set_parents(self.tree)
        self.is_package = relpath.endswith("__init__.py")
        self.cache: dict = {}  # per-module derived facts, shared by Programs that share this module
        self.imports: dict[str, str] = {}
        self._collect_imports()

    def _collect_imports(self) -> None:
        pkg = self.name if self.is_package else self.name.rpartition(".")[0]
        for n in ast.walk(self.tree):
            if isinstance(n, ast.Import):
                for a in n.names:
                    if a.asname:
                        self.imports[a.asname] = a.name
                    else:
                        self.imports[a.name.split(".")[0]] = a.name.split(".")[0]
            elif isinstance(n, ast.ImportFrom):
                base = n.module or ""
                if n.level:
                    parts = pkg.split(".")
                    if n.level > 1:
                        parts = parts[: -(n.level - 1)]
                    base = ".".join(parts + ([n.module] if n.module else []))
                for a in n.names:
                    self.imports[a.asname or a.name] = f"{base}.{a.name}"


class Func:
    def __init__(self, qualname: str, node, module: Module, cls: "Cls | None", outer: "Func | None"):
        self.qualname = qualname
        self.node: ast.FunctionDef | ast.AsyncFunctionDef = node
        self.name = node.name
        self.module = module
        self.cls = cls
        self.outer = outer
        self.is_async = isinstance(node, ast.AsyncFunctionDef)
        self.file = module.relpath
        self.lineno = node.lineno
        self._cfg = None

    @property
    def params(self) -> list[str]:
        a = self.node.args
        return [x.arg for x in a.posonlyargs + a.args + a.kwonlyargs] + (
            [a.vararg.arg] if a.vararg else []
        ) + ([a.kwarg.arg] if a.kwarg else [])

    def param_annotation(self, name: str) -> ast.AST | None:
        a = self.node.args
        for x in a.posonlyargs + a.args + a.kwonlyargs + [y for y in (a.vararg, a.kwarg) if y]:
            if x.arg == name:
                return x.annotation
        return None

    @property
    def decorators(self) -> list[ast.AST]:
        return list(self.node.decorator_list)

    @property
    def is_abstract(self) -> bool:
        return any((dotted(d) or "").endswith("abstractmethod") for d in self.decorators)

    def body_nodes(self) -> Iterator[ast.AST]:
        return walk_no_nested(self.node)

    def calls(self) -> Iterator[ast.Call]:
        for n in self.body_nodes():
            if isinstance(n, ast.Call):
                yield n

    @property
    def cfg(self):
        if self._cfg is None:
            from .cfg import build_cfg

            self._cfg = build_cfg(self.node)
        return self._cfg

    def __repr__(self) -> str:
        return f"<Func {self.qualname}>"


class Cls:
    def __init__(self, qualname: str, node: ast.ClassDef, module: Module):
        self.qualname = qualname
        self.node = node
        self.name = node.name
        self.module = module
        self.file = module.relpath
        self.lineno = node.lineno
        self.methods: dict[str, Func] = {}
        self.bases: list[str] = []  # resolved qualnames (or raw dotted text)

    def __repr__(self) -> str:
        return f"<Cls {self.qualname}>"


# --------------------------------------------------------------------------- program


SKIP_BODIES = (f"{PKG}/cwl/antlr/",)
_BUILTINS = set(dir(__import__("builtins")))


class Program:
    """All parsed units of the package plus indexes."""

    def __init__(
        self,
        root: str = REPO,
        overrides: dict[str, str] | None = None,
        _base: "Program | None" = None,
        only: Iterable[str] | None = None,
    ):
        self.root = root
        self.modules: dict[str, Module] = {}
        self.by_relpath: dict[str, Module] = {}
        overrides = overrides or {}
        if _base is not None:
            for m in _base.modules.values():
                if m.relpath not in overrides:
                    self._add_module(m)
        elif only is None:
            pkgdir = os.path.join(root, PKG)
            if not os.path.isdir(pkgdir):
                raise AnalysisError(f"package directory {pkgdir} not found")
            for dp, dn, fn in os.walk(pkgdir):
                dn[:] = sorted(d for d in dn if d != "__pycache__")
                for f in sorted(fn):
                    if f.endswith(".py"):
                        full = os.path.join(dp, f)
                        rel = os.path.relpath(full, root)
                        if rel in overrides:
                            continue
                        try:
                            with open(full, encoding="utf-8") as fh:
                                src = fh.read()
                            self._add_module(Module(self._modname(rel), rel, src))
                        except SyntaxError as e:
                            raise AnalysisError(f"cannot parse {rel}: {e}") from e
        for rel, src in overrides.items():
            try:
                self._add_module(Module(self._modname(rel), rel, src))
            except SyntaxError as e:
                raise AnalysisError(f"cannot parse override {rel}: {e}") from e
        self.functions: dict[str, Func] = {}
        self.classes: dict[str, Cls] = {}
        if _base is not None:
            # share the entities of untouched modules (Func/Cls objects are program-independent)
            self.functions = {q: f for q, f in _base.functions.items() if f.module.relpath not in overrides}
            self.classes = {q: c for q, c in _base.classes.items() if c.module.relpath not in overrides}
            self._index([self.by_relpath[r] for r in overrides])
        else:
            self._index(list(self.modules.values()))
        self._mro_cache: dict[str, list[str]] = {}
        self._sub_cache: dict[str, list[str]] | None = None
        self._attr_type_cache: dict[tuple[str, str], str | None] = {}
        self._callers_cache: dict[str, list[tuple[Func, ast.Call]]] | None = None
        self._busy: set = set()

    # -- construction -----------------------------------------------------

    @staticmethod
    def _modname(rel: str) -> str:
        name = rel[:-3].replace(os.sep, ".")
        if name.endswith(".__init__"):
            name = name[: -len(".__init__")]
        return name

    def _add_module(self, m: Module) -> None:
        self.modules[m.name] = m
        self.by_relpath[m.relpath] = m

    def with_override(self, relpath: str, source: str) -> "Program":
        return Program(self.root, {relpath: source}, _base=self)

    def _index(self, mods) -> None:
        for m in mods:
            self._index_body(m, m.tree.body, m.name, None, None)
        names = {m.name for m in mods}
        for c in self.classes.values():
            if c.module.name not in names:
                continue
            for b in c.node.bases:
                d = dotted(b)
                if d is None and isinstance(b, ast.Subscript):
                    d = dotted(b.value)
                if d is None:
                    continue
                c.bases.append(self.resolve_dotted(c.module, d) or d)

    def _index_body(self, m: Module, body, prefix: str, cls: Cls | None, outer: Func | None) -> None:
        for n in body:
            if isinstance(n, (ast.FunctionDef, ast.AsyncFunctionDef)):
                qn = f"{prefix}.{n.name}"
                f = Func(qn, n, m, cls, outer)
                # keep the last definition unless it's an overload-style duplicate
                self.functions[qn] = f
                n._qn = qn  # type: ignore[attr-defined]
                if cls is not None and outer is None:
                    cls.methods[n.name] = f
                self._index_nested(m, n, f"{qn}.<locals>", f)
            elif isinstance(n, ast.ClassDef):
                qn = f"{prefix}.{n.name}"
                c = Cls(qn, n, m)
                self.classes[qn] = c
                n._qn = qn  # type: ignore[attr-defined]
                self._index_body(m, n.body, qn, c, None)
            elif isinstance(n, (ast.If, ast.Try, ast.With)):
                for fld in ("body", "orelse", "finalbody"):
                    self._index_body(m, getattr(n, fld, []) or [], prefix, cls, outer)
                for h in getattr(n, "handlers", []) or []:
                    self._index_body(m, h.body, prefix, cls, outer)

    def _index_nested(self, m: Module, fn, prefix: str, outer: Func) -> None:
        for n in walk_no_nested(fn):
            if isinstance(n, (ast.FunctionDef, ast.AsyncFunctionDef)):
                qn = f"{prefix}.{n.name}"
                f = Func(qn, n, m, outer.cls, outer)
                self.functions[qn] = f
                n._qn = qn  # type: ignore[attr-defined]
                self._index_nested(m, n, f"{qn}.<locals>", f)
            elif isinstance(n, ast.ClassDef):
                qn = f"{prefix}.{n.name}"
                c = Cls(qn, n, m)
                self.classes[qn] = c
                n._qn = qn  # type: ignore[attr-defined]
                self._index_body(m, n.body, qn, c, None)

    # -- lookup -------------------------------------------------------------

    def module(self, name_or_rel: str) -> Module:
        m = self.modules.get(name_or_rel) or self.by_relpath.get(name_or_rel)
        if m is None:
            raise AnchorError(f"module {name_or_rel} not found")
        return m

    def func(self, qualname: str) -> Func:
        f = self.functions.get(qualname)
        if f is None:
            # allow Class.method resolved through MRO
            cq, _, meth = qualname.rpartition(".")
            if cq in self.classes:
                f = self.resolve_method(cq, meth)
            if f is None:
                raise AnchorError(f"anchor {qualname} not found")
        return f

    def cls(self, qualname: str) -> Cls:
        c = self.classes.get(qualname)
        if c is None:
            raise AnchorError(f"anchor class {qualname} not found")
        return c

    def has(self, qualname: str) -> bool:
        return qualname in self.functions or qualname in self.classes

    def enclosing_func(self, node: ast.AST) -> Func | None:
        for a in ancestors(node):
            if isinstance(a, (ast.FunctionDef, ast.AsyncFunctionDef)):
                return self.functions.get(getattr(a, "_qn", ""))
        return None

    def enclosing_cls(self, node: ast.AST) -> Cls | None:
        for a in ancestors(node):
            if isinstance(a, ast.ClassDef):
                return self.classes.get(getattr(a, "_qn", ""))
        return None

    # -- names --------------------------------------------------------------

    def resolve_dotted(self, m: Module, name: str) -> str | None:
        """Resolve a dotted name used in module `m` to a fully-qualified name."""
        head, _, rest = name.partition(".")
        if head in m.imports:
            q = m.imports[head] + (("." + rest) if rest else "")
            return self._canonical(q)
        q = f"{m.name}.{name}"
        if self._exists(q) or f"{m.name}.{head}" in self.classes or f"{m.name}.{head}" in self.functions:
            return q
        if head in _BUILTINS and not self._module_defines(m, head):
            return name
        # module-level assignment?
        for n in m.tree.body:
            if isinstance(n, (ast.Assign, ast.AnnAssign)):
                tgts = n.targets if isinstance(n, ast.Assign) else [n.target]
                for t in tgts:
                    if isinstance(t, ast.Name) and t.id == head:
                        return q
        return None

    def _module_defines(self, m: Module, head: str) -> bool:
        if "toplevel" not in m.cache:
            names = set()
            for n in m.tree.body:
                if isinstance(n, (ast.Assign, ast.AnnAssign)):
                    for t in (n.targets if isinstance(n, ast.Assign) else [n.target]):
                        if isinstance(t, ast.Name):
                            names.add(t.id)
            m.cache["toplevel"] = names
        return head in m.cache["toplevel"]

    def _exists(self, q: str) -> bool:
        return q in self.classes or q in self.functions or q in self.modules

    def _canonical(self, q: str, depth: int = 0) -> str:
        """Follow re-exports (`from x import y` in package __init__)."""
        if depth > 5 or self._exists(q):
            return q
        modname, _, attr = q.rpartition(".")
        m = self.modules.get(modname)
        if m is not None and attr in m.imports:
            return self._canonical(m.imports[attr], depth + 1)
        # a.b.C.method -> canonical(a.b.C).method
        if modname and not self._exists(modname) and "." in modname:
            c = self._canonical(modname, depth + 1)
            if c != modname:
                return f"{c}.{attr}"
        return q

    def resolve_expr(self, m: Module, expr: ast.AST) -> str | None:
        d = dotted(expr)
        if d is None:
            return None
        return self.resolve_dotted(m, d)

    # -- classes ------------------------------------------------------------

    def mro(self, cq: str) -> list[str]:
        if cq in self._mro_cache:
            return self._mro_cache[cq]
        c = self.classes.get(cq)
        if c is None:
            return [cq]
        seqs = [self.mro(b) for b in c.bases] + [list(c.bases)]
        res = [cq]
        seqs = [list(s) for s in seqs if s]
        while seqs:
            for s in seqs:
                h = s[0]
                if not any(h in t[1:] for t in seqs):
                    break
            else:  # inconsistent; fall back
                h = seqs[0][0]
            res.append(h)
            seqs = [[x for x in s if x != h] for s in seqs]
            seqs = [s for s in seqs if s]
        self._mro_cache[cq] = res
        return res

    def is_subclass(self, cq: str, base: str) -> bool:
        return base in self.mro(cq)

    def subclasses(self, base: str, strict: bool = True) -> list[str]:
        out = [c for c in self.classes if base in self.mro(c) and (not strict or c != base)]
        return sorted(out)

    def resolve_method(self, cq: str, name: str, after: str | None = None) -> Func | None:
        """First definition of `name` along mro(cq) (after class `after` if given)."""
        mro = self.mro(cq)
        if after is not None and after in mro:
            mro = mro[mro.index(after) + 1 :]
        for k in mro:
            c = self.classes.get(k)
            if c and name in c.methods:
                return c.methods[name]
        return None

    def overrides(self, cq: str, name: str) -> list[Func]:
        """Definitions of `name` in `cq` and every subclass."""
        out = []
        for k in [cq, *self.subclasses(cq)]:
            c = self.classes.get(k)
            if c and name in c.methods:
                out.append(c.methods[name])
        return out

    def concrete_impls(self, cq: str, name: str) -> list[Func]:
        return [f for f in self.overrides(cq, name) if not f.is_abstract]

    # -- types --------------------------------------------------------------

    def ann_to_class(self, m: Module, ann: ast.AST | None) -> str | None:
        """Class qualname denoted by an annotation (Optional/union stripped)."""
        if ann is None:
            return None
        if isinstance(ann, ast.Constant) and isinstance(ann.value, str):
            try:
                ann = ast.parse(ann.value, mode="eval").body
            except SyntaxError:
                return None
        if isinstance(ann, ast.BinOp) and isinstance(ann.op, ast.BitOr):
            for side in (ann.left, ann.right):
                if isinstance(side, ast.Constant) and side.value is None:
                    continue
                r = self.ann_to_class(m, side)
                if r:
                    return r
            return None
        if isinstance(ann, ast.Subscript):
            d = dotted(ann.value) or ""
            if d.split(".")[-1] in ("Optional", "Final", "ClassVar", "Annotated"):
                sl = ann.slice
                if isinstance(sl, ast.Tuple):
                    sl = sl.elts[0]
                return self.ann_to_class(m, sl)
            return self.ann_to_class(m, ann.value)
        d = dotted(ann)
        if d is None:
            return None
        q = self.resolve_dotted(m, d)
        if q in self.classes:
            return q
        return q

    def attr_type(self, cq: str, attr: str) -> str | None:
        key = (cq, attr)
        if key in self._attr_type_cache:
            return self._attr_type_cache[key]
        self._attr_type_cache[key] = None
        res = None
        for k in self.mro(cq):
            c = self.classes.get(k)
            if c is None:
                continue
            # class-level annotation
            for n in c.node.body:
                if isinstance(n, ast.AnnAssign) and isinstance(n.target, ast.Name) and n.target.id == attr:
                    res = self.ann_to_class(c.module, n.annotation)
            if res:
                break
            # property with return annotation
            if attr in c.methods and any(
                (dotted(d) or "") in ("property", "functools.cached_property", "cached_property")
                for d in c.methods[attr].decorators
            ):
                res = self.ann_to_class(c.module, c.methods[attr].node.returns)
                if res:
                    break
            for f in c.methods.values():
                for n in f.body_nodes():
                    if isinstance(n, ast.AnnAssign) and _is_self_attr(n.target, attr):
                        res = self.ann_to_class(c.module, n.annotation)
                    elif isinstance(n, ast.Assign) and any(_is_self_attr(t, attr) for t in n.targets):
                        res = res or self.type_of(f, n.value)
                    if res:
                        break
                if res:
                    break
            if res:
                break
        self._attr_type_cache[key] = res
        return res

    def type_of(self, f: Func, expr: ast.AST, depth: int = 0) -> str | None:
        """Best-effort static class of `expr` inside function `f`."""
        if depth > 6:
            return None
        key = (f.qualname, id(expr))
        if key in self._busy:
            return None
        self._busy.add(key)
        try:
            return self._type_of(f, expr, depth)
        finally:
            self._busy.discard(key)

    def _type_of(self, f: Func, expr: ast.AST, depth: int) -> str | None:
        if isinstance(expr, ast.Await):
            return self.type_of(f, expr.value, depth + 1)
        if isinstance(expr, ast.Name):
            if expr.id in ("self", "cls") and f.cls is not None:
                return f.cls.qualname
            g: Func | None = f
            while g is not None:
                ann = g.param_annotation(expr.id)
                if ann is not None:
                    return self.ann_to_class(g.module, ann)
                # local annotated / constructor assignment
                for n in g.body_nodes():
                    if isinstance(n, ast.AnnAssign) and isinstance(n.target, ast.Name) and n.target.id == expr.id:
                        return self.ann_to_class(g.module, n.annotation)
                for n in g.body_nodes():
                    if isinstance(n, ast.Assign) and len(n.targets) == 1 and isinstance(n.targets[0], ast.Name) and n.targets[0].id == expr.id:
                        t = self.type_of(g, n.value, depth + 1)
                        if t:
                            return t
                    if isinstance(n, ast.NamedExpr) and n.target.id == expr.id:
                        t = self.type_of(g, n.value, depth + 1)
                        if t:
                            return t
                    if isinstance(n, (ast.With, ast.AsyncWith)):
                        for it in n.items:
                            if isinstance(it.optional_vars, ast.Name) and it.optional_vars.id == expr.id:
                                t = self.type_of(g, it.context_expr, depth + 1)
                                if t:
                                    return t
                g = g.outer
            q = self.resolve_dotted(f.module, expr.id)
            if q in self.classes:
                return None  # the class object itself, not an instance
            return None
        if isinstance(expr, ast.Attribute):
            base = self.type_of(f, expr.value, depth + 1)
            if base and base in self.classes:
                return self.attr_type(base, expr.attr)
            return None
        if isinstance(expr, ast.Call):
            for q in self.resolve_call(f, expr, fanout=False, _depth=depth + 1):
                if q in self.classes:
                    return q
                g2 = self.functions.get(q)
                if g2 is not None and g2.node.returns is not None:
                    return self.ann_to_class(g2.module, g2.node.returns)
            return None
        if isinstance(expr, ast.IfExp):
            return self.type_of(f, expr.body, depth + 1) or self.type_of(f, expr.orelse, depth + 1)
        return None

    # -- calls --------------------------------------------------------------

    def resolve_call(self, f: Func, call: ast.Call, fanout: bool = True, _depth: int = 0) -> list[str]:
        """Qualified names the call may invoke.  Class name = constructor.
        External callables are returned as dotted text (e.g. 'shlex.quote')."""
        fn = call.func
        m = f.module
        if isinstance(fn, ast.Name):
            # nested function in scope?
            g: Func | None = f
            while g is not None:
                q = f"{g.qualname}.<locals>.{fn.id}"
                if q in self.functions:
                    return [q]
                g = g.outer
            q = self.resolve_dotted(m, fn.id)
            return [q] if q else [fn.id]
        if isinstance(fn, ast.Attribute):
            recv = fn.value
            # super().m()
            if isinstance(recv, ast.Call) and isinstance(recv.func, ast.Name) and recv.func.id == "super" and f.cls:
                owner = f.cls.qualname
                g = self.resolve_method(owner, fn.attr, after=owner)
                return [g.qualname] if g else [f"super().{fn.attr}"]
            d = dotted(fn)
            if d is not None:
                head = d.split(".")[0]
                if head not in ("self", "cls") and not self._is_local(f, head):
                    q = self.resolve_dotted(m, d)
                    if q:
                        if q in self.functions or q in self.classes:
                            return [q]
                        cq, _, meth = q.rpartition(".")
                        if cq in self.classes:
                            g = self.resolve_method(cq, meth)
                            if g:
                                return [g.qualname]
                        if head in m.imports:
                            return [q]
            t = self.type_of(f, recv, _depth)
            if t and t in self.classes:
                g = self.resolve_method(t, fn.attr)
                out = [g.qualname] if g else []
                if fanout:
                    for o in self.overrides(t, fn.attr):
                        if o.qualname not in out:
                            out.append(o.qualname)
                if out:
                    return out
                return [f"{t}.{fn.attr}"]
            if t:
                return [f"{t}.{fn.attr}"]
            return [f"?.{fn.attr}"]
        return ["?"]

    def _is_local(self, f: Func, name: str) -> bool:
        g: Func | None = f
        while g is not None:
            if name in g.params:
                return True
            for n in g.body_nodes():
                if isinstance(n, ast.Name) and n.id == name and isinstance(n.ctx, ast.Store):
                    return True
            g = g.outer
        return False

    def call_name(self, f: Func, call: ast.Call) -> str:
        r = self.resolve_call(f, call, fanout=False)
        return r[0] if r else "?"

    def per_module(self, key: str, compute) -> list:
        """Concatenate `compute(module, funcs)` over all non-generated modules, cached on the Module
        object (so a variant Program only recomputes the overridden module).  `compute` must return
        plain data that does not reference Func objects (use qualnames + ast nodes)."""
        out = []
        by_mod: dict[str, list[Func]] | None = None
        for m in self.modules.values():
            if any(m.relpath.startswith(s) for s in SKIP_BODIES):
                continue
            if key not in m.cache:
                if by_mod is None:
                    by_mod = {}
                    for f in self.functions.values():
                        by_mod.setdefault(f.module.name, []).append(f)
                m.cache[key] = compute(m, by_mod.get(m.name, []))
            out.extend(m.cache[key])
        return out

    def _call_index(self) -> dict[str, list[tuple[Func, ast.Call]]]:
        if self._callers_cache is None:

            def comp(m, funcs):
                res = []
                for f in funcs:
                    for c in f.calls():
                        fn = c.func
                        nm = fn.attr if isinstance(fn, ast.Attribute) else (fn.id if isinstance(fn, ast.Name) else None)
                        if nm:
                            res.append((nm, f.qualname, c))
                return res

            idx: dict[str, list[tuple[Func, ast.Call]]] = {}
            for nm, q, c in self.per_module("call_index", comp):
                idx.setdefault(nm, []).append((self.functions[q], c))
            self._callers_cache = idx
        return self._callers_cache

    def callers(self, qualname: str) -> list[tuple[Func, ast.Call]]:
        """Call sites that may invoke `qualname` (function, method incl. overrides fan-out, or class)."""
        name = qualname.rpartition(".")[2]
        out = []
        for f, c in self._call_index().get(name, []):
            if qualname in self.resolve_call(f, c):
                out.append((f, c))
        if qualname in self.functions and self.functions[qualname].name == "__init__":
            cq = qualname.rpartition(".")[0]
            out.extend(self.callers(cq))
        return out

    def calls_by_attr(self, attr: str) -> list[tuple[Func, ast.Call]]:
        """All call sites `<anything>.attr(...)` or `attr(...)` in the program (syntactic)."""
        return list(self._call_index().get(attr, []))

    def all_funcs(self, skip_generated: bool = True) -> list[Func]:
        return [
            f
            for f in self.functions.values()
            if not (skip_generated and any(f.file.startswith(s) for s in SKIP_BODIES))
        ]

    def stats(self) -> dict:
        return {
            "units": len(self.modules),
            "functions": len(self.functions),
            "classes": len(self.classes),
        }


def _is_self_attr(t: ast.AST, attr: str) -> bool:
    return isinstance(t, ast.Attribute) and t.attr == attr and isinstance(t.value, ast.Name) and t.value.id == "self"
