"""Statement-level control-flow graph with exception edges (DESIGN appendix A1-A3).

Nodes: ENTRY, EXIT (normal return / fall through), RAISE (exception leaves the
function), one node per simple statement, a *test* node per if/while/match subject,
an *iter* node per for, *with_enter*/*with_exit* per with item list, a *dispatch* node
per try with handlers, *handler* node per except clause.

Edge kinds: 'n' normal, 't'/'f' branch outcomes, 'exc' exception.
`finally` bodies are duplicated per continuation kind (normal, exc, return, break,
continue) so that every route through them is a real path.
"""

from __future__ import annotations

import ast
from collections import deque
from typing import Callable, Iterable

from .model import contains_await, unparse, walk_no_nested

NORMAL = frozenset({"n", "t", "f"})
ALL = frozenset({"n", "t", "f", "exc"})  # normal + ordinary exceptions (subclasses of Exception)
ALLC = frozenset({"n", "t", "f", "exc", "cexc"})  # ... + cancellation / BaseException-only routes


class Node:
    __slots__ = ("id", "kind", "ast", "note")

    def __init__(self, id: int, kind: str, node: ast.AST | None, note: str = ""):
        self.id = id
        self.kind = kind
        self.ast = node
        self.note = note

    @property
    def lineno(self) -> int:
        return getattr(self.ast, "lineno", 0) if self.ast is not None else 0

    def text(self, limit: int = 100) -> str:
        if self.ast is None:
            return self.kind.upper()
        if self.kind == "handler":
            t = unparse(self.ast.type) if self.ast.type is not None else ""
            s = f"except {t}:"
        elif self.kind in ("with_enter", "with_exit"):
            s = f"{self.kind}(" + ", ".join(unparse(i.context_expr) for i in self.ast.items) + ")"
        elif self.kind == "test":
            s = f"test({unparse(self.ast)})"
        elif self.kind == "iter":
            s = f"for {unparse(self.ast.target)} in {unparse(self.ast.iter)}"
        elif self.kind == "dispatch":
            s = "try-dispatch"
        else:
            s = unparse(self.ast)
        s = " ".join(s.split())
        return s if len(s) <= limit else s[: limit - 3] + "..."

    def __repr__(self) -> str:
        return f"<{self.id}:{self.kind}:L{self.lineno}:{self.text(40)}>"

    # facts --------------------------------------------------------------
    def exprs(self) -> list[ast.AST]:
        """AST fragments evaluated *at* this node (not nested statement bodies)."""
        a = self.ast
        if a is None:
            return []
        if self.kind in ("test",):
            return [a]
        if self.kind == "iter":
            return [a.iter]
        if self.kind == "with_enter":
            return [i.context_expr for i in a.items]
        if self.kind in ("with_exit", "dispatch", "finally", "suppressed"):
            return []
        if self.kind == "def":
            return list(a.decorator_list)
        if self.kind == "handler":
            return [a.type] if a.type is not None else []
        return [a]

    def walk(self):
        for e in self.exprs():
            yield e
            yield from walk_no_nested(e)

    def calls(self) -> list[ast.Call]:
        return [n for n in self.walk() if isinstance(n, ast.Call)]

    def has_await(self) -> bool:
        if self.kind == "iter" and isinstance(self.ast, ast.AsyncFor):
            return True
        if self.kind in ("with_enter", "with_exit") and isinstance(self.ast, ast.AsyncWith):
            return True
        return any(isinstance(n, ast.Await) for n in self.walk())

    def can_raise(self) -> bool:
        if self.kind in ("with_enter", "iter"):
            return True
        if self.kind == "with_exit":
            return isinstance(self.ast, ast.AsyncWith)
        return any(isinstance(n, (ast.Call, ast.Await, ast.Raise, ast.Assert, ast.Subscript)) for n in self.walk())


class _Frame:
    """Context frame while building."""

    def __init__(self, kind: str, **kw):
        self.kind = kind  # 'loop' | 'try' | 'finally'
        self.__dict__.update(kw)


class CFG:
    def __init__(self, fn: ast.AST):
        self.fn = fn
        self.nodes: dict[int, Node] = {}
        self.succ: dict[int, list[tuple[int, str]]] = {}
        self.pred: dict[int, list[tuple[int, str]]] = {}
        self.by_ast: dict[int, list[int]] = {}
        self.entry = self._new("entry", None).id
        self.exit = self._new("exit", None).id
        self.raise_ = self._new("raise", None).id

    # construction ---------------------------------------------------------
    def _new(self, kind: str, node: ast.AST | None, note: str = "") -> Node:
        n = Node(len(self.nodes), kind, node, note)
        self.nodes[n.id] = n
        self.succ[n.id] = []
        self.pred[n.id] = []
        if node is not None:
            self.by_ast.setdefault(id(node), []).append(n.id)
        return n

    def _edge(self, a: int, b: int, kind: str = "n") -> None:
        if (b, kind) not in self.succ[a]:
            self.succ[a].append((b, kind))
            self.pred[b].append((a, kind))

    # queries --------------------------------------------------------------
    def ids_of(self, node: ast.AST) -> list[int]:
        """CFG node ids for a statement/test AST object (several when duplicated by finally)."""
        return list(self.by_ast.get(id(node), []))

    def node_containing(self, expr: ast.AST) -> list[int]:
        """CFG nodes whose evaluated expressions contain `expr`."""
        n: ast.AST | None = expr
        while n is not None:
            ids = self.by_ast.get(id(n))
            if ids:
                # make sure expr is evaluated at that node (not in a nested body)
                good = []
                for i in ids:
                    nd = self.nodes[i]
                    if any(e is expr or any(x is expr for x in walk_no_nested(e)) for e in nd.exprs()):
                        good.append(i)
                if good:
                    return good
            n = getattr(n, "_parent", None)
        return []

    def find(self, pred: Callable[[Node], bool]) -> list[Node]:
        return [n for n in self.nodes.values() if pred(n)]

    def find_calls(self, match: Callable[[ast.Call], bool]) -> list[Node]:
        return [n for n in self.nodes.values() if any(match(c) for c in n.calls())]

    def _ok(self, a: int, k: str, kinds, exc_from) -> bool:
        if k not in kinds:
            return False
        if k == "exc" and exc_from is not None:
            n = self.nodes[a]
            if n.kind in ("dispatch", "finally", "suppressed", "handler"):
                return True
            return bool(exc_from(n))
        return True

    def reach(self, srcs: Iterable[int], avoid: Iterable[int] = (), kinds=NORMAL, include_src: bool = False, exc_from=None) -> set[int]:
        avoid = set(avoid)
        seen: set[int] = set()
        dq = deque()
        for s in srcs:
            dq.append(s)
        start = set(dq)
        while dq:
            a = dq.popleft()
            for b, k in self.succ[a]:
                if self._ok(a, k, kinds, exc_from) and b not in avoid and b not in seen:
                    seen.add(b)
                    dq.append(b)
        if include_src:
            seen |= start
        return seen

    def path(self, src: int, dsts: Iterable[int], avoid: Iterable[int] = (), kinds=NORMAL, exc_from=None) -> list[int] | None:
        """Shortest path src -> any of dsts not touching `avoid` (src itself may be in avoid)."""
        dsts = set(dsts)
        avoid = set(avoid)
        prev: dict[int, int] = {}
        dq = deque([src])
        seen = {src}
        while dq:
            a = dq.popleft()
            for b, k in self.succ[a]:
                if not self._ok(a, k, kinds, exc_from) or b in avoid:
                    continue
                if b in seen and not (b == src and b in dsts):
                    continue
                prev.setdefault(b, a) if b == src else prev.__setitem__(b, a)
                if b in dsts:
                    if b == src:
                        p = [b, a]
                        while p[-1] != src:
                            p.append(prev[p[-1]])
                        return list(reversed(p))
                    p = [b]
                    while p[-1] != src:
                        p.append(prev[p[-1]])
                    return list(reversed(p))
                seen.add(b)
                dq.append(b)
        return None

    def escape(self, src: int, through: Iterable[int], targets: Iterable[int] | None = None, kinds=NORMAL, exc_from=None) -> list[int] | None:
        """Witness path from src to a target that avoids every node of `through`
        (None = must-pass-through obligation holds)."""
        if targets is None:
            targets = [self.exit] if kinds == NORMAL else [self.exit, self.raise_]
        return self.path(src, targets, avoid=through, kinds=kinds, exc_from=exc_from)

    def dominates(self, a: int | Iterable[int], b: int, kinds=NORMAL) -> bool:
        """Every path entry->b passes through (one of) `a`."""
        aset = {a} if isinstance(a, int) else set(a)
        if b in aset:
            return True
        if self.entry in aset:
            return True
        return self.path(self.entry, [b], avoid=aset, kinds=kinds) is None

    def reachable(self, b: int, kinds=ALL) -> bool:
        return b in self.reach([self.entry], kinds=kinds)

    def is_trivial(self, i: int) -> bool:
        n = self.nodes[i]
        if n.kind == "stmt" and isinstance(n.ast, ast.Pass):
            return True
        if n.kind == "stmt" and isinstance(n.ast, ast.Expr) and isinstance(n.ast.value, ast.Constant):
            return True
        # pure logging statements / guards do not change what a rule looks for
        if n.kind == "stmt" and isinstance(n.ast, ast.Expr) and isinstance(n.ast.value, ast.Call):
            from .model import unparse as _u

            if _u(n.ast.value.func).startswith("logger."):
                return True
        return False

    def real_succ(self, i: int, kind: str | None = None) -> list[int]:
        """Successors of node i over edges of `kind` (None = normal edges), skipping `pass`/docstring/logging statements."""
        out, seen = [], set()
        todo = [b for b, k in self.succ[i] if (k == kind if kind else k in NORMAL)]
        while todo:
            b = todo.pop()
            if b in seen:
                continue
            seen.add(b)
            if self.is_trivial(b):
                todo.extend(x for x, k in self.succ[b] if k in NORMAL)
            else:
                out.append(b)
        return out

    def describe(self, path: Iterable[int]) -> list[str]:
        out = []
        for i in path:
            n = self.nodes[i]
            out.append(f"L{n.lineno}: {n.text()}" if n.ast is not None else n.kind.upper())
        return out

    def suspension_nodes(self) -> set[int]:
        return {n.id for n in self.nodes.values() if n.has_await()}


class _Builder:
    def __init__(self, fn):
        self.g = CFG(fn)
        self.frames: list[_Frame] = []

    # -- exception routing ---------------------------------------------------
    def _exc_target(self, depth: int | None = None) -> int:
        """Node to which an exception raised under frames[:depth] is routed."""
        if depth is None:
            depth = len(self.frames)
        for i in range(depth - 1, -1, -1):
            fr = self.frames[i]
            if fr.kind == "try":
                return fr.dispatch
            if fr.kind == "finally":
                return self._finally_copy(i, "exc")
            if fr.kind == "suppress":
                return fr.node
        return self.g.raise_

    def _finally_copy(self, idx: int, cont: str) -> int:
        """Entry node of the copy of frame idx's finally body for continuation `cont`."""
        fr = self.frames[idx]
        if cont in fr.copies:
            return fr.copies[cont]
        g = self.g
        head = g._new("finally", fr.stmt, note=cont)
        # by_ast maps the Try statement to these heads too; remove to avoid confusion
        g.by_ast[id(fr.stmt)].remove(head.id)
        fr.copies[cont] = head.id
        saved = self.frames
        self.frames = saved[:idx]  # finally body runs in the context outside the try
        try:
            outs = self._seq(fr.stmt.finalbody, [(head.id, "n")])
            if cont == "exc":
                tgt = self._exc_target()
                for a, k in outs:
                    g._edge(a, tgt, "exc")
            elif cont == "return":
                tgt = self._return_target()
                for a, k in outs:
                    g._edge(a, tgt, k)
            elif cont in ("break", "continue"):
                tgt = self._loop_target(cont, fr.loop_for[cont])
                if tgt is not None:
                    for a, k in outs:
                        if cont == "break":
                            tgt.breaks.extend([(a, k)])
                        else:
                            g._edge(a, tgt.head, k)
            else:
                raise AssertionError(cont)
        finally:
            self.frames = saved
        return head.id

    def _return_target(self) -> int:
        for i in range(len(self.frames) - 1, -1, -1):
            if self.frames[i].kind == "finally":
                return self._finally_copy(i, "return")
        return self.g.exit

    def _loop_target(self, cont: str, loop_frame) -> "_Frame | None":
        return loop_frame

    def _jump(self, cont: str, preds) -> None:
        """break/continue from current position."""
        g = self.g
        for i in range(len(self.frames) - 1, -1, -1):
            fr = self.frames[i]
            if fr.kind == "finally":
                # find the loop this jump targets (outside of this finally?)
                loop = None
                for j in range(i - 1, -1, -1):
                    if self.frames[j].kind == "loop":
                        loop = self.frames[j]
                        break
                inner_loop = any(self.frames[j].kind == "loop" for j in range(i + 1, len(self.frames)))
                if inner_loop:
                    continue
                fr.loop_for[cont] = loop
                tgt = self._finally_copy(i, cont)
                for a, k in preds:
                    g._edge(a, tgt, k)
                return
            if fr.kind == "loop":
                if cont == "break":
                    fr.breaks.extend(preds)
                else:
                    for a, k in preds:
                        g._edge(a, fr.head, k)
                return
        # jump outside loop: ignore

    def _connect(self, preds, b: int) -> None:
        for a, k in preds:
            self.g._edge(a, b, k)

    def _exc_edge(self, n: Node) -> None:
        if n.can_raise():
            self.g._edge(n.id, self._exc_target(), "exc")

    # -- statements -------------------------------------------------------------
    def _seq(self, stmts, preds):
        for s in stmts:
            preds = self._stmt(s, preds)
        return preds

    def _stmt(self, s: ast.stmt, preds):
        g = self.g
        if isinstance(s, (ast.FunctionDef, ast.AsyncFunctionDef, ast.ClassDef)):
            n = g._new("def", s)
            self._connect(preds, n.id)
            return [(n.id, "n")]
        if isinstance(s, ast.If):
            t = g._new("test", s.test)
            self._connect(preds, t.id)
            self._exc_edge(t)
            const = _const_truth(s.test)
            outs = []
            if const is not False:
                outs += self._seq(s.body, [(t.id, "t")])
            if const is not True:
                outs += self._seq(s.orelse, [(t.id, "f")]) if s.orelse else [(t.id, "f")]
            return outs
        if isinstance(s, ast.While):
            t = g._new("test", s.test)
            self._connect(preds, t.id)
            self._exc_edge(t)
            fr = _Frame("loop", head=t.id, breaks=[])
            self.frames.append(fr)
            body_out = self._seq(s.body, [(t.id, "t")])
            self.frames.pop()
            self._connect(body_out, t.id)
            outs = list(fr.breaks)
            if _const_truth(s.test) is not True:
                outs += self._seq(s.orelse, [(t.id, "f")]) if s.orelse else [(t.id, "f")]
            return outs
        if isinstance(s, (ast.For, ast.AsyncFor)):
            t = g._new("iter", s)
            self._connect(preds, t.id)
            self._exc_edge(t)
            fr = _Frame("loop", head=t.id, breaks=[])
            self.frames.append(fr)
            body_out = self._seq(s.body, [(t.id, "t")])
            self.frames.pop()
            self._connect(body_out, t.id)
            outs = list(fr.breaks)
            outs += self._seq(s.orelse, [(t.id, "f")]) if s.orelse else [(t.id, "f")]
            return outs
        if isinstance(s, (ast.With, ast.AsyncWith)):
            en = g._new("with_enter", s)
            self._connect(preds, en.id)
            self._exc_edge(en)
            sup = _suppress_types(s)
            if sup is not None:
                ex = g._new("with_exit", s)
                sn = g._new("suppressed", s, note=",".join(sup))
                g.by_ast[id(s)].remove(sn.id)
                fr = _Frame("suppress", node=sn.id, types=sup)
                self.frames.append(fr)
                body_out = self._seq(s.body, [(en.id, "n")])
                self.frames.pop()
                self._connect(body_out, ex.id)
                g._edge(sn.id, ex.id, "n")
                # exceptions of other types propagate
                if not any(t in ("BaseException",) for t in sup):
                    g._edge(sn.id, self._exc_target(), "exc")
                return [(ex.id, "n")]
            body_out = self._seq(s.body, [(en.id, "n")])
            ex = g._new("with_exit", s)
            self._connect(body_out, ex.id)
            self._exc_edge(ex)
            return [(ex.id, "n")]
        if isinstance(s, ast.Try) or (hasattr(ast, "TryStar") and isinstance(s, ast.TryStar)):
            return self._try(s, preds)
        if isinstance(s, ast.Match):
            t = g._new("test", s.subject)
            self._connect(preds, t.id)
            self._exc_edge(t)
            outs = []
            wildcard = False
            for c in s.cases:
                cn = g._new("case", c.pattern if c.guard is None else c.guard)
                g._edge(t.id, cn.id, "t")
                outs += self._seq(c.body, [(cn.id, "n")])
                if c.guard is None and _is_wildcard(c.pattern):
                    wildcard = True
            if not wildcard:
                outs.append((t.id, "f"))
            return outs
        if isinstance(s, ast.Return):
            n = g._new("return", s)
            self._connect(preds, n.id)
            self._exc_edge(n)
            g._edge(n.id, self._return_target(), "n")
            return []
        if isinstance(s, ast.Raise):
            n = g._new("raise_stmt", s)
            self._connect(preds, n.id)
            g._edge(n.id, self._exc_target(), "exc")
            return []
        if isinstance(s, ast.Break):
            n = g._new("break", s)
            self._connect(preds, n.id)
            self._jump("break", [(n.id, "n")])
            return []
        if isinstance(s, ast.Continue):
            n = g._new("continue", s)
            self._connect(preds, n.id)
            self._jump("continue", [(n.id, "n")])
            return []
        n = g._new("stmt", s)
        self._connect(preds, n.id)
        self._exc_edge(n)
        return [(n.id, "n")]

    def _try(self, s, preds):
        g = self.g
        has_finally = bool(s.finalbody)
        ffr = None
        if has_finally:
            g.by_ast.setdefault(id(s), [])
            ffr = _Frame("finally", stmt=s, copies={}, loop_for={})
            self.frames.append(ffr)
        fidx = len(self.frames) - 1
        outs = []
        if s.handlers:
            d = g._new("dispatch", s)
            tfr = _Frame("try", dispatch=d.id)
            self.frames.append(tfr)
            body_out = self._seq(s.body, preds)
            self.frames.pop()
            catch_all = catch_exc = False
            for h in s.handlers:
                hn = g._new("handler", h)
                g._edge(d.id, hn.id, "exc")
                outs += self._seq(h.body, [(hn.id, "n")])
                names = _handler_types(h)
                if names is None or "BaseException" in names:
                    catch_all = True
                elif "Exception" in names:
                    catch_exc = True
            if not catch_all:
                # `except Exception` leaves only cancellation-like exceptions uncaught
                g._edge(d.id, self._exc_target(), "cexc" if catch_exc else "exc")
        else:
            body_out = self._seq(s.body, preds)
        outs += self._seq(s.orelse, body_out) if s.orelse else body_out
        if has_finally:
            self.frames.pop()
            # normal continuation copy
            head = g._new("finally", s, note="normal")
            g.by_ast[id(s)].remove(head.id)
            self._connect(outs, head.id)
            outs = self._seq(s.finalbody, [(head.id, "n")])
        return outs


def _const_truth(e: ast.AST) -> bool | None:
    if isinstance(e, ast.Constant):
        return bool(e.value)
    return None


def _is_wildcard(p: ast.pattern) -> bool:
    return (isinstance(p, ast.MatchAs) and p.pattern is None) or (
        isinstance(p, ast.MatchOr) and any(_is_wildcard(x) for x in p.patterns)
    )


def _handler_types(h: ast.ExceptHandler) -> list[str] | None:
    if h.type is None:
        return None
    ts = h.type.elts if isinstance(h.type, ast.Tuple) else [h.type]
    return [unparse(t).split(".")[-1] for t in ts]


def _suppress_types(s) -> list[str] | None:
    if len(s.items) != 1:
        return None
    ce = s.items[0].context_expr
    if isinstance(ce, ast.Call):
        name = unparse(ce.func)
        if name in ("suppress", "contextlib.suppress"):
            return [unparse(a).split(".")[-1] for a in ce.args]
    return None


def build_cfg(fn: ast.FunctionDef | ast.AsyncFunctionDef) -> CFG:
    b = _Builder(fn)
    outs = b._seq(fn.body, [(b.g.entry, "n")])
    b._connect(outs, b.g.exit)
    return b.g
