"""Helpers shared by the group-E rules (C20 graph mirroring, C21 registry maps, C22 transfers).

Everything here is a thin layer over the engine (model / cfg / dataflow): alias-free
expression canonicalisation, guard extraction from dominating tests, and the
"executed together" relation used by the mirrored-update rules (P12).
"""

from __future__ import annotations

import ast
import weakref
from typing import Iterable

from ..cfg import NORMAL
from ..dataflow import defs_of
from ..model import Func, unparse, walk_no_nested

COPY_CALLS = {"list", "set", "tuple", "sorted", "frozenset"}


# --------------------------------------------------------------------------- names


_DEFS: "weakref.WeakKeyDictionary[Func, dict[str, list]]" = weakref.WeakKeyDictionary()


def _defs(f: Func, name: str):
    per = _DEFS.get(f)
    if per is None:
        per = _DEFS[f] = {}
    if name not in per:
        per[name] = defs_of(f, name)
    return per[name]


def deref(f: Func, e: ast.AST, depth: int = 5) -> ast.AST:
    """Follow a local name to the expression it was (uniquely, plainly) assigned."""
    while depth > 0 and isinstance(e, ast.Name):
        ds = _defs(f, e.id)
        if len(ds) == 1 and ds[0].kind in ("assign", "walrus") and ds[0].index is None and ds[0].value is not None:
            e = ds[0].value
            depth -= 1
        else:
            break
    if isinstance(e, ast.NamedExpr):
        return deref(f, e.value, depth - 1) if depth > 0 else e.value
    return e


def deref_at(f: Func, e: ast.AST, use: ast.AST, depth: int = 5) -> ast.AST:
    """Flow-sensitive `deref`: follow a local name *as it is read at `use`* (an expression or statement of f) to the
    expression it holds there -- the single plain assignment that reaches the use.  A name assigned on several
    branches (`tmp = []; return tmp` ... `tmp = self.m(); return tmp`) is resolved per use, which the
    flow-insensitive `deref` cannot do."""
    from ..dataflow import reaching_defs

    while depth > 0 and isinstance(e, ast.Name):
        ds = reaching_defs(f, e.id, use)
        if len(ds) == 1 and ds[0].kind in ("assign", "walrus") and ds[0].index is None and ds[0].value is not None and ds[0].stmt is not None:
            e, use = ds[0].value, ds[0].stmt
            depth -= 1
        else:
            break
    if isinstance(e, ast.NamedExpr):
        return deref_at(f, e.value, use, depth - 1) if depth > 0 else e.value
    return e


def ktext(f: Func, e: ast.AST) -> str:
    """Canonical text of a key/value expression: temporaries holding a plain name or attribute
    chain are replaced by what they hold; loop variables and parameters stay themselves."""
    if isinstance(e, ast.NamedExpr):
        return e.target.id
    if isinstance(e, ast.Name):
        d = deref(f, e)
        if d is not e and isinstance(d, (ast.Name, ast.Attribute)):
            return ktext(f, d)
        return e.id
    if isinstance(e, ast.Attribute):
        return ktext(f, e.value) + "." + e.attr
    return unparse(e)


def is_self_attr(e: ast.AST, names: Iterable[str]) -> str | None:
    if isinstance(e, ast.Attribute) and isinstance(e.value, ast.Name) and e.value.id == "self" and e.attr in names:
        return e.attr
    return None


def strip_copy(f: Func, e: ast.AST) -> tuple[ast.AST, bool]:
    """`list(x)`, `set(x)`, `x.copy()` ... -> (x, True); anything else -> (e, False)."""
    e0 = deref(f, e)
    if isinstance(e0, ast.Call):
        if isinstance(e0.func, ast.Name) and e0.func.id in COPY_CALLS and len(e0.args) == 1:
            return e0.args[0], True
        if isinstance(e0.func, ast.Attribute) and e0.func.attr == "copy" and not e0.args:
            return e0.func.value, True
    return e0, False


# --------------------------------------------------------------------------- call arguments / signature defaults


def signature_default(callee: Func, param: str):
    """-> (declared?, default expression | None) of parameter `param` in the callee's signature."""
    a = callee.node.args
    pos = list(a.posonlyargs) + list(a.args)
    first_default = len(pos) - len(a.defaults)
    for i, p in enumerate(pos):
        if p.arg == param:
            return True, (a.defaults[i - first_default] if i >= first_default else None)
    for p, d in zip(a.kwonlyargs, a.kw_defaults):
        if p.arg == param:
            return True, d
    return False, None


def effective_arg(callee: Func, call: ast.Call, param: str, bound: bool = True):
    """What parameter `param` of `callee` receives at `call`: -> (expr | None, how) with how in
    'explicit' (argument written at the call site), 'default' (argument omitted: the callee's signature
    default decides -- the caller *relies on that default*), 'missing' (omitted and no default / unknown
    parameter), 'dynamic' (`*args` / `**kwargs` at the call site hide it).  `bound` = the call is a bound
    method call (`self` / `cls` is not among the positional arguments)."""
    a = callee.node.args
    for k in call.keywords:
        if k.arg == param:
            return k.value, "explicit"
    pos = [p.arg for p in list(a.posonlyargs) + list(a.args)]
    is_static = any(unparse(d) == "staticmethod" for d in callee.node.decorator_list)
    if bound and callee.cls is not None and not is_static and pos:
        pos = pos[1:]
    if param in pos:
        i = pos.index(param)
        if any(isinstance(x, ast.Starred) for x in call.args[: i + 1]):
            return None, "dynamic"
        if i < len(call.args):
            return call.args[i], "explicit"
    if any(k.arg is None for k in call.keywords) or any(isinstance(x, ast.Starred) for x in call.args):
        return None, "dynamic"
    declared, d = signature_default(callee, param)
    if declared and d is not None:
        return d, "default"
    return None, "missing"


def const_of(f: Func | None, e: ast.AST | None):
    """-> (is constant?, value) of an argument / default expression (a caller's temporary is followed)."""
    if e is None:
        return False, None
    if f is not None:
        e = deref(f, e)
    if isinstance(e, ast.Constant):
        return True, e.value
    return False, None


# --------------------------------------------------------------------------- CFG helpers


def ids_at(f: Func, node: ast.AST) -> list[int]:
    """CFG node ids at which the expression/statement `node` is evaluated."""
    g = f.cfg
    ids = g.ids_of(node)
    if ids:
        return ids
    return g.node_containing(node)


def loop_heads(g, nid: int) -> list[int]:
    """CFG head nodes (for: iter node, while: test node) of the loops lexically containing node nid,
    innermost first; a loop head is not contained in its own loop."""
    from ..model import ancestors, parent

    n = g.nodes[nid]
    cur = n.ast
    if cur is None:
        return []
    if n.kind == "test":
        p = parent(cur)
        if isinstance(p, ast.While) and p.test is cur:
            cur = p
    heads: list[int] = []
    for anc in ancestors(cur):
        if isinstance(anc, (ast.FunctionDef, ast.AsyncFunctionDef, ast.Lambda)):
            break
        if isinstance(anc, (ast.For, ast.AsyncFor)):
            heads.extend(g.ids_of(anc))
        elif isinstance(anc, ast.While):
            heads.extend(g.ids_of(anc.test))
    return heads


def must_follow(g, a_ids: list[int], b_ids: list[int]) -> bool:
    """Once (any copy of) a executed, b executes before the function returns and before the current
    iteration of any loop around b ends (normal edges)."""
    if not a_ids or not b_ids:
        return False
    targets = {g.exit}
    for b in b_ids:
        targets.update(loop_heads(g, b))
    for a in a_ids:
        src = [a]
        if g.nodes[a].kind == "iter":
            # a loop as anchor: what follows the loop (not its own body cycle)
            src = [b for b, k in g.succ[a] if k == "f"] or [a]
        for s in src:
            if s in b_ids:
                continue
            if s in targets or g.path(s, targets, avoid=b_ids, kinds=NORMAL) is not None:
                return False
    return True


def coexec(g, a_ids: list[int], b_ids: list[int]) -> bool:
    """a and b are executed together: one dominates the other and is always followed by it."""
    if not a_ids or not b_ids:
        return False
    if set(a_ids) & set(b_ids):
        return True
    if all(g.dominates(a_ids, b) for b in b_ids) and must_follow(g, a_ids, b_ids):
        return True
    if all(g.dominates(b_ids, a) for a in a_ids) and must_follow(g, b_ids, a_ids):
        return True
    return False


def only_via(g, tid: int, kind: str, nid: int) -> bool:
    """Node nid is reached only through the `kind` ('t'/'f') outcome of test node tid."""
    yes = [b for b, k in g.succ[tid] if k == kind]
    no = [b for b, k in g.succ[tid] if k in ("t", "f") and k != kind]
    if not yes:
        return False
    if not g.dominates(tid, nid):
        return False
    if nid not in g.reach(yes, avoid=[tid], include_src=True):
        return False
    if nid in g.reach(no, avoid=[tid], include_src=True):
        return False
    return True


def guard_atoms(g, nid: int) -> list[tuple[ast.AST, bool, int]]:
    """Atomic conditions known to hold at node nid: (expr, truth, test node id) for every test that
    nid can only be reached through one outcome of; conjunctions / negated disjunctions are split."""
    out: list[tuple[ast.AST, bool, int]] = []
    for t in g.nodes.values():
        if t.kind != "test" or t.ast is None or t.id == nid:
            continue
        for kind, truth in (("t", True), ("f", False)):
            if only_via(g, t.id, kind, nid):
                for e, p in split_atoms(t.ast, truth):
                    out.append((e, p, t.id))
    return out


def split_atoms(e: ast.AST, truth: bool) -> list[tuple[ast.AST, bool]]:
    if isinstance(e, ast.UnaryOp) and isinstance(e.op, ast.Not):
        return split_atoms(e.operand, not truth)
    if isinstance(e, ast.BoolOp):
        if (isinstance(e.op, ast.And) and truth) or (isinstance(e.op, ast.Or) and not truth):
            out = []
            for v in e.values:
                out.extend(split_atoms(v, truth))
            return out
        return [(e, truth)]
    return [(e, truth)]


# --------------------------------------------------------------------------- atom readers


def membership_atom(e: ast.AST, truth: bool):
    """`x in C` / `x not in C` (with the truth it is known to have) -> (x expr, C expr, present?)."""
    if isinstance(e, ast.Compare) and len(e.ops) == 1 and isinstance(e.ops[0], (ast.In, ast.NotIn)):
        present = truth if isinstance(e.ops[0], ast.In) else not truth
        return e.left, e.comparators[0], present
    return None


def emptiness_atom(e: ast.AST, truth: bool):
    """Container expression known to be EMPTY (returns (expr, True)) or NON-EMPTY ((expr, False)):
    truthiness of a container, `len(c) == 0`, `len(c) > 0`, `c == set()`."""
    if isinstance(e, ast.Compare) and len(e.ops) == 1:
        l, r, op = e.left, e.comparators[0], e.ops[0]

        def is_len(x):
            return isinstance(x, ast.Call) and isinstance(x.func, ast.Name) and x.func.id == "len" and len(x.args) == 1

        def is_zero(x):
            return isinstance(x, ast.Constant) and x.value == 0 and not isinstance(x.value, bool)

        def is_empty_lit(x):
            return (isinstance(x, ast.Call) and isinstance(x.func, ast.Name) and x.func.id in ("set", "list", "frozenset", "dict") and not x.args) or (
                isinstance(x, (ast.List, ast.Tuple, ast.Set)) and not x.elts
            ) or (isinstance(x, ast.Dict) and not x.keys)

        if is_len(r) and is_zero(l):
            l, r = r, l
            op = {ast.Lt: ast.Gt(), ast.Gt: ast.Lt(), ast.LtE: ast.GtE(), ast.GtE: ast.LtE()}.get(type(op), op)
        if is_len(l) and is_zero(r):
            c = l.args[0]
            if isinstance(op, (ast.Eq, ast.LtE)):
                return c, truth
            if isinstance(op, (ast.NotEq, ast.Gt)):
                return c, not truth
            return None
        if is_len(l) and isinstance(r, ast.Constant) and r.value == 1 and isinstance(op, (ast.Lt, ast.GtE)):
            return l.args[0], truth if isinstance(op, ast.Lt) else not truth
        if is_empty_lit(r) and isinstance(op, (ast.Eq, ast.NotEq)):
            return l, truth if isinstance(op, ast.Eq) else not truth
        return None
    if isinstance(e, (ast.Compare, ast.BoolOp, ast.Constant)):
        return None
    # plain truthiness: true = non-empty
    return e, not truth


# --------------------------------------------------------------------------- loops


class Loop:
    __slots__ = ("node", "target", "iter", "is_comp")

    def __init__(self, node, target, it, is_comp):
        self.node, self.target, self.iter, self.is_comp = node, target, it, is_comp

    def binds(self, name: str) -> int | None:
        """Position at which `name` is bound (None = whole element, int = tuple position), -1 = not bound."""
        t = self.target
        if isinstance(t, ast.Name):
            return None if t.id == name else -1
        if isinstance(t, (ast.Tuple, ast.List)):
            for i, x in enumerate(t.elts):
                if isinstance(x, ast.Name) and x.id == name:
                    return i
        return -1


def loops_of(f: Func) -> list[Loop]:
    out = []
    for n in walk_no_nested(f.node):
        if isinstance(n, (ast.For, ast.AsyncFor)):
            out.append(Loop(n, n.target, n.iter, False))
        elif isinstance(n, ast.comprehension):
            out.append(Loop(n, n.target, n.iter, True))
    return out


def enclosing_loops(f: Func, node: ast.AST, loops: list[Loop]) -> list[Loop]:
    """Loops (statement loops and comprehension generators) lexically around `node`, innermost first."""
    from ..model import ancestors

    anc = list(ancestors(node))
    anc_ids = {id(a) for a in anc}
    res = []
    for lp in loops:
        if lp.is_comp:
            # a generator's scope is the comprehension it belongs to
            comp = getattr(lp.node, "_parent", None)
            if comp is not None and (id(comp) in anc_ids):
                res.append(lp)
        elif id(lp.node) in anc_ids:
            # only the body / orelse, not the iterable expression
            inside_iter = any(x is node for x in ast.walk(lp.node.iter))
            if not inside_iter:
                res.append(lp)
    order = {id(a): i for i, a in enumerate(anc)}
    res.sort(key=lambda lp: order.get(id(lp.node if not lp.is_comp else lp.node._parent), 1 << 30))
    return res


def loop_binding(f: Func, name: str, node: ast.AST, loops: list[Loop]):
    """Innermost enclosing loop that binds `name` -> (Loop, position) or None."""
    for lp in enclosing_loops(f, node, loops):
        pos = lp.binds(name)
        if pos != -1:
            return lp, pos
    return None
