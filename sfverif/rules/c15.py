"""C15 Each scheduled job gets its own existing working directories.

Clauses decided (necessary conditions visible in the code's shape):
R1 fresh names: a directory not fixed by the binding is `join(<allocated target>.workdir, random_name())`;
   `random_name` draws a `uuid.uuid4()` on every call (no decorator, no global state; every returned value is computed
   from a uuid4 drawn in that call, followed through local temporaries, every alternative of a conditional / `or`, and a
   parameterless helper of the program that is itself fresh per call); `_set_job_directories` names each
   of the three job directories through its *own* `_get_directory` call, keyed on the same field of the same job -- or,
   when the helper was inlined, through its own `job.<dir> or join(<get_allocation(job.name)>.target.workdir,
   random_name())` written out in place (`or` / conditional expression, operands followed through locals; no join call
   or drawn name shared between two directories); the analysis refuses only when neither shape is present; the
   only pre-set values are the step-level directories handed to `Job(...)` (written once, in `ScheduleStep.__init__`).
R2 order in `ScheduleStep._schedule` (dominance on the CFG): awaited `scheduler.schedule` precedes awaited
   `_set_job_directories(<allocated locations>, job)`, which precedes the registration loop, which precedes the single
   `put(JobToken(value=job))`; overrides of `_set_job_directories` run the base implementation on every path.
R3 `_set_job_directories` issues `mkdir(parents=True, exist_ok=True)` for every allocated location x
   {input, output, tmp} after the names were chosen, awaits all of them before resolving and before returning, and a
   directory that resolves to None raises before it is stored on the job: the stored local (or the local it plainly
   aliases) comes from `resolve()` and, not rebound in between, is covered by a guard whose None outcome reaches neither
   a return nor the store (exception handlers included) -- a test dominating the store, spelled any way (`is None`,
   `None is x`, `not x`, a disjunction / negated conjunction of such tests), an (awaited) call statement dominating the
   store that hands the local to a program function raising on every path when that parameter is None (one level), or
   such a guard on the loop variable of a `for` over a literal table (display of values / equally long rows, dict
   display `.items()` / `.values()`) that lists the local, passed in every iteration, the store being reachable only
   after the loop is exhausted.  Not decided (reported as unguarded): a helper returning a bool that the caller tests,
   a helper returning the checked value (`x = require(x)`), `assert`, a table built other than by one display.
   `awaited` follows the coroutine through
   create_task, a comprehension / display, append / extend / assignment to a local and plain aliases of it up to an
   awaited `asyncio.gather`; the local must not be rebound, cleared or truncated between creation and that await.
   Not decided: completion through `asyncio.wait`, `for t in L: await t`, a TaskGroup, or a helper that does the gather
   (reported as not awaited); `gather(..., return_exceptions=True)` is accepted although it hides a failed mkdir (C24).
R4 the registration loop covers the same product (locations of the job x its three directories) and, whenever the
   directory is not yet known on that location, registers it there before moving on.
"""

from __future__ import annotations

import ast

from ..cfg import ALL
from ..model import parent, unparse
from ..selftest import V
from ._util_C import (
    attr_of,
    binders,
    branch,
    collection_elts,
    const,
    defs_of,
    is_name,
    kwarg,
    leads_only_to_raise,
    must_pass,
    only_via,
    origins,
    resolves_to,
    single_origin,
    strip_await,
    within,
)

STEP = "streamflow.workflow.step"
SCHED_STEP = f"{STEP}.ScheduleStep"
SCHEDULE = f"{SCHED_STEP}._schedule"
SETDIRS = f"{SCHED_STEP}._set_job_directories"
GETDIR = f"{STEP}._get_directory"
RANDOM = "streamflow.core.utils.random_name"
JOB = "streamflow.core.workflow.Job"
JOBTOKEN = "streamflow.workflow.token.JobToken"
SFPATH = "streamflow.data.remotepath.StreamFlowPath"
SCHEDULER = "streamflow.core.scheduling.Scheduler"
DM = "streamflow.core.data.DataManager"
SFILE = "streamflow/workflow/step.py"
UFILE = "streamflow/core/utils.py"
CWLFILE = "streamflow/cwl/step.py"
DIRS = ("input_directory", "output_directory", "tmp_directory")

META = {
    "explanation": (
        "AST/CFG/def-use rules over ScheduleStep._schedule, ScheduleStep._set_job_directories (and every override), "
        "_get_directory (or its body inlined into _set_job_directories), random_name and the Job(...) constructions of ScheduleStep.run: origin of directory names, "
        "dominance order schedule -> create -> register -> publish JobToken, loop coverage of locations x directories "
        "for mkdir and for registration, await of the creation tasks, None-resolution guard. Decides necessary "
        "structural conditions; no directory is created and no job is scheduled."
    ),
    "undecided": (
        "that mkdir succeeds on the remote side (C24); distinctness when the binding fixes directories; "
        "uniqueness of uuid4 values (probabilistic)"
    ),
    "assumptions": [
        "uuid.uuid4() returns a fresh value per call",
        "scheduler.get_locations(job.name) returns all locations allocated to the job",
    ],
}


def _job_param(ctx, f):
    for a in f.params:
        if ctx.prog.ann_to_class(f.module, f.param_annotation(a)) == JOB:
            return a
    ctx.require("job" in f.params, f"C15: {f.qualname} has no Job parameter")
    return "job"


def _awaited(call: ast.AST) -> bool:
    return isinstance(parent(call), ast.Await)


def _nodes_calling(prog, f, *names):
    g = f.cfg
    return [n for n in g.nodes.values() if any(resolves_to(prog, f, c, *names) for c in n.calls())]


def _calls(prog, f, *names):
    return [c for c in f.calls() if resolves_to(prog, f, c, *names)]


def _dir_binder(f, bs, job_p):
    """Index of the binder that ranges over exactly the job's three directories."""
    for i, (t, it) in enumerate(bs):
        elts = collection_elts(f, it)
        if elts is None or not is_name(t):
            continue
        names = [attr_of(e, job_p) for e in elts]
        if sorted(n or "?" for n in names) == sorted(DIRS):
            return i
    return None


def _loc_binder(f, bs, is_locations):
    for i, (t, it) in enumerate(bs):
        if is_name(t) and is_locations(it):
            return i
    return None


# --------------------------------------------------------------------------- R1


def _draws_uuid(p, f, e, depth=3, seen=frozenset()) -> bool:
    """`e` is computed from a `uuid.uuid4()` drawn during this call of `f`: it is the call itself, a call of a
    parameterless program function that is itself fresh per call (helper extraction; bounded inlining), a local of `f`
    whose *every* definition is a plain assignment / walrus of such an expression (`_ret = str(uuid.uuid4()); return
    _ret`), or an expression one of whose operands is (`str(..)`, `.hex`, slicing, f-string, concatenation).  Of a
    conditional expression / `or` / `and` every alternative must be.  Parameters, module-level names and anything else
    that can outlive the call are not fresh."""
    if e is None or isinstance(e, ast.Lambda):
        return False
    if isinstance(e, ast.Call):
        if resolves_to(p, f, e, "uuid.uuid4"):
            return True
        qs = p.resolve_call(f, e, fanout=False)
        callee = p.functions.get(qs[0]) if depth > 0 and len(qs) == 1 else None
        if callee is not None and callee is not f and not callee.is_async and not callee.params \
                and _fresh_per_call(p, callee, depth - 1):
            return True
    if isinstance(e, ast.Name):
        if e.id in seen or not isinstance(e.ctx, ast.Load):
            return False
        ds = defs_of(f, e.id)
        return bool(ds) and all(d.kind in ("assign", "walrus") and d.index is None
                                and _draws_uuid(p, f, d.value, depth, seen | {e.id}) for d in ds)
    if isinstance(e, ast.IfExp):
        return _draws_uuid(p, f, e.body, depth, seen) and _draws_uuid(p, f, e.orelse, depth, seen)
    if isinstance(e, ast.BoolOp):
        return all(_draws_uuid(p, f, v, depth, seen) for v in e.values)
    if isinstance(e, ast.NamedExpr):
        return _draws_uuid(p, f, e.value, depth, seen)
    return any(_draws_uuid(p, f, c, depth, seen) for c in ast.iter_child_nodes(e))


def _fresh_per_call(p, f, depth=3) -> bool:
    """Every call of `f` returns a value drawn from a new uuid4: no decorator (cache), no global / nonlocal state, and
    every return value is computed from a uuid4 drawn in this call (followed through temporaries)."""
    rets = [n for n in f.body_nodes() if isinstance(n, ast.Return)]
    return bool(rets) and not f.decorators \
        and not any(isinstance(n, (ast.Global, ast.Nonlocal)) for n in f.body_nodes()) \
        and all(_draws_uuid(p, f, r.value, depth) for r in rets)


def _follow_local(f, v):
    """Follow a local to its single plain assignment (origins() would split an IfExp)."""
    for _ in range(4):
        ds = defs_of(f, v.id) if is_name(v) else []
        if len(ds) == 1 and ds[0].kind == "assign" and ds[0].index is None:
            v = ds[0].value
    return v


def _fixed_or_fresh(p, f, v, is_fixed, is_workdir):
    """(ok, [join calls and the name expressions they join]): `v` (a local is followed to its single plain assignment) is `<fixed> or join(<workdir>,
    random_name())` -- the `or` short-circuit, or the conditional expression spelling it (`fixed if fixed else ..`,
    `.. if not fixed else fixed`).  `is_fixed` / `is_workdir` say what the binding-fixed directory and the working
    directory of the allocated target look like where the expression lives (parameters of `_get_directory`, or the
    job field / the allocation of the job when the expression is written out in `_set_job_directories`)."""
    v = _follow_local(f, v)
    if isinstance(v, ast.BoolOp) and isinstance(v.op, ast.Or) and len(v.values) == 2 and is_fixed(v.values[0]):
        alt = v.values[1]
    elif isinstance(v, ast.IfExp) and is_fixed(v.test) and is_fixed(v.body):
        alt = v.orelse
    elif isinstance(v, ast.IfExp) and isinstance(v.test, ast.UnaryOp) and isinstance(v.test.op, ast.Not) \
            and is_fixed(v.test.operand) and is_fixed(v.orelse):
        alt = v.body
    else:
        return False, []
    alts = origins(f, alt)
    oks = [bool(alts)]
    for j in alts:
        oks.append(
            isinstance(j, ast.Call)
            and isinstance(j.func, ast.Attribute)
            and j.func.attr == "join"
            and len(j.args) == 2
            and not j.keywords
            and is_workdir(j.args[0])
            and any(isinstance(o, ast.Call) and resolves_to(p, f, o, RANDOM) and not o.args and not o.keywords
                    for o in origins(f, j.args[1]))
            and all(isinstance(o, ast.Call) and resolves_to(p, f, o, RANDOM) for o in origins(f, j.args[1]))
        )
    return all(oks), [*alts, *(o for j in alts if isinstance(j, ast.Call) and len(j.args) == 2 for o in origins(f, j.args[1]))]


def _is_alloc_target(p, f, e, job_p) -> bool:
    """`e` is `<scheduler.get_allocation(job.name)>.target` (the receiver and the attribute followed through locals)."""
    os_ = origins(f, e)
    return bool(os_) and all(
        isinstance(o, ast.Attribute) and o.attr == "target" and bool(origins(f, o.value)) and all(
            isinstance(oo, ast.Call) and resolves_to(p, f, oo, f"{SCHEDULER}.get_allocation")
            and len(oo.args) == 1 and not oo.keywords and attr_of(oo.args[0], job_p) == "name"
            for oo in origins(f, o.value))
        for o in os_)


def _is_job_field(f, e, job_p, d) -> bool:
    os_ = origins(f, e)
    return bool(os_) and all(attr_of(o, job_p) == d for o in os_)


def _inline_naming(f, a: ast.Assign):
    """The right-hand side of `job.<dir> = ...` when it spells the choice out in place (an `or` / a conditional
    expression, possibly through a local) instead of calling `_get_directory`; None otherwise."""
    v = _follow_local(f, a.value)
    return v if isinstance(v, (ast.BoolOp, ast.IfExp)) else None


def _names_directory(p, f, n: ast.Assign) -> bool:
    """`n` (an assignment to `job.<dir>`) chooses the name: through `_get_directory(...)` or written out in place."""
    return any(isinstance(o, ast.Call) and resolves_to(p, f, o, GETDIR) for o in origins(f, n.value)) \
        or _inline_naming(f, n) is not None


def r1(ctx):
    p = ctx.prog
    # ---- _get_directory (when the helper was inlined into its caller the same obligation is read off the expression
    #      written out in _set_job_directories, below)
    getdir = f = p.functions.get(GETDIR)
    if f is not None:
        ctx.require(len(f.params) == 3, "C15.R1: _get_directory signature changed")
        pp_p, dir_p, tgt_p = f.params
        rets = [n for n in f.body_nodes() if isinstance(n, ast.Return)]
        ctx.require(len(rets) >= 1, "C15.R1: _get_directory has no return")
        for r in rets:
            msg = f"`{unparse(r)}` is not `<fixed directory> or join(<target>.workdir, random_name())`"
            ok = r.value is not None and _fixed_or_fresh(
                p, f, r.value, lambda x: is_name(x, dir_p), lambda x: attr_of(x, tgt_p) == "workdir")[0]
            ctx.ob("R1", "a directory not fixed by the binding is join(target.workdir, random_name())", ok, func=f, node=r,
                   instance="_get_directory:return", message=msg)
    # ---- random_name
    rn = p.func(RANDOM)
    rets = [n for n in rn.body_nodes() if isinstance(n, ast.Return)]
    ctx.require(bool(rets), "C15.R1: random_name has no return")
    fresh = not rn.params and _fresh_per_call(p, rn)
    ctx.ob("R1", "random_name draws uuid.uuid4() on every call (no decorator, no cached value)", fresh, func=rn, node=rn.node,
           instance="random_name:fresh", message="random_name is cached / not uuid4 based: two jobs can get the same directory")
    # ---- _set_job_directories: one naming per field -- its own _get_directory call, or the same choice written out in
    #      place (helper inlined) -- keyed on the same field of the same job and on the job's allocated target
    f = p.func(SETDIRS)
    job_p = _job_param(ctx, f)
    seen_calls: dict[int, str] = {}
    per_field = {}
    for d in DIRS:
        asg = [
            n for n in f.body_nodes()
            if isinstance(n, ast.Assign) and any(attr_of(t, job_p) == d for t in n.targets)
        ]
        named, inline = [], []
        for a in asg:
            v = _inline_naming(f, a)
            if v is not None:
                inline.append((a, v))
                continue
            for o in origins(f, a.value):
                if isinstance(o, ast.Call) and resolves_to(p, f, o, GETDIR):
                    named.append((a, o))
        per_field[d] = (asg, named, inline)
    # the helper is gone and nothing spells the choice out either: the anchor vanished (not a violation)
    ctx.require(getdir is not None or any(inl for _, _, inl in per_field.values()),
                f"C15.R1: anchor {GETDIR} not found and no `<job dir> or join(<target>.workdir, random_name())` "
                f"written out in {SETDIRS}")
    for d in DIRS:
        asg, named, inline = per_field[d]
        if not named and not inline:
            ctx.ob("R1", f"{d} is named through _get_directory", False, func=f, node=asg[0] if asg else f.node,
                   instance=f"setdirs:name:{d}", message=f"{job_p}.{d} is never named by its own _get_directory(...) call")
        for a, c in named:
            fixed = kwarg(c, "directory", 1)
            tgt = kwarg(c, "target", 2)
            ok_field = fixed is not None and attr_of(fixed, job_p) == d
            ok_tgt = tgt is not None and _is_alloc_target(p, f, tgt, job_p)
            dup = seen_calls.get(id(c))
            seen_calls[id(c)] = d
            ctx.ob("R1", f"{d} is named by its own _get_directory call keyed on {job_p}.{d} and the allocated target",
                   ok_field and ok_tgt and dup is None and len(a.targets) == 1, func=f, node=a, instance=f"setdirs:name:{d}",
                   message=(f"{d} shares its generated name with {dup}" if dup else
                            f"`{unparse(c)}` does not name {d} from `{job_p}.{d}` / the job's allocated target"))
        for a, v in inline:
            # the obligation of the vanished helper, decided where the expression now lives ...
            is_workdir = lambda x: bool(origins(f, x)) and all(  # noqa: E731
                isinstance(o, ast.Attribute) and o.attr == "workdir" and _is_alloc_target(p, f, o.value, job_p)
                for o in origins(f, x))
            ok_shape, _ = _fixed_or_fresh(p, f, v, lambda x: any(_is_job_field(f, x, job_p, dd) for dd in DIRS), is_workdir)
            ctx.ob("R1", "a directory not fixed by the binding is join(<allocated target>.workdir, random_name()) (written out "
                         "in _set_job_directories)", ok_shape, func=f, node=a, instance=f"setdirs:inline:{d}",
                   message=f"`{unparse(v)[:140]}` is not `<fixed directory> or join(<allocated target>.workdir, random_name())`")
            # ... and the obligation of the call site: its own choice, keyed on the same field
            ok_field, joins = _fixed_or_fresh(p, f, v, lambda x: _is_job_field(f, x, job_p, d), lambda x: True)
            joins = joins if ok_field else [n for n in ast.walk(v) if isinstance(n, ast.Call)]
            dup = next((seen_calls[id(j)] for j in [v, *joins] if id(j) in seen_calls), None)
            for j in [v, *joins]:
                seen_calls[id(j)] = d
            ctx.ob("R1", f"{d} keeps `{job_p}.{d}` when the binding fixed it and is otherwise named by its own expression",
                   (ok_field or not ok_shape) and dup is None and len(a.targets) == 1, func=f, node=a,
                   instance=f"setdirs:name:{d}",
                   message=(f"{d} shares its generated name with {dup}" if dup else
                            f"`{unparse(v)[:140]}` does not name {d} from `{job_p}.{d}`"))
    # ---- Job(...) constructions of ScheduleStep (and subclasses): directories come from the step's fixed values
    njob = 0
    for cq in [SCHED_STEP, *p.subclasses(SCHED_STEP)]:
        for m in p.cls(cq).methods.values():
            for c in _calls(p, m, JOB):
                njob += 1
                bad = [d for d in DIRS if kwarg(c, d) is None or unparse(kwarg(c, d)) != f"self.{d}"]
                ctx.ob("R1", "Job(...) receives only the step-level (binding-fixed) directories", not bad, func=m, node=c,
                       instance=f"job-ctor:{m.name}:{'no-inputs' if isinstance(kwarg(c, 'inputs'), ast.Dict) else 'inputs'}",
                       message=f"Job(...) is created with {bad} not taken from self.<dir>: every job of the step shares that directory")
            for n in m.body_nodes():
                if isinstance(n, (ast.Assign, ast.AnnAssign, ast.AugAssign)):
                    tg = n.targets if isinstance(n, ast.Assign) else [n.target]
                    for t in tg:
                        d = attr_of(t, "self")
                        if d in DIRS:
                            ok = m.name == "__init__" and cq == SCHED_STEP and is_name(n.value, d)
                            ctx.ob("R1", f"self.{d} is written once, from the constructor argument", ok, func=m, node=n,
                                   instance=f"step-dir-write:{m.name}:{d}")
    ctx.require(njob >= 1, f"C15.R1: no Job(...) construction found in {SCHED_STEP} or its subclasses")


# --------------------------------------------------------------------------- R2


def _jobtoken_puts(p, f):
    out = []
    for c in f.calls():
        if not (isinstance(c.func, ast.Attribute) and c.func.attr == "put" and len(c.args) == 1):
            continue
        for o in origins(f, c.args[0]):
            o = strip_await(o)
            if isinstance(o, ast.Call) and isinstance(o.func, ast.Attribute) and o.func.attr == "_persist_token":
                tk = kwarg(o, "token", 0)
                for oo in (origins(f, tk) if tk is not None else []):
                    if isinstance(oo, ast.Call) and resolves_to(p, f, oo, JOBTOKEN):
                        out.append((c, oo))
            elif isinstance(o, ast.Call) and resolves_to(p, f, o, JOBTOKEN):
                out.append((c, o))
    return out


def _is_alloc_locations(p, f, job_p):
    def pred(e):
        os_ = origins(f, e)
        return bool(os_) and all(
            isinstance(o, ast.Call) and resolves_to(p, f, o, f"{SCHEDULER}.get_locations")
            and len(o.args) == 1 and not o.keywords and attr_of(o.args[0], job_p) == "name"
            for o in os_)
    return pred


def r2(ctx):
    p = ctx.prog
    impls = p.overrides(SCHED_STEP, "_schedule")
    ctx.require(bool(impls), "C15.R2: ScheduleStep._schedule not found")
    for f in impls:
        g = f.cfg
        job_p = _job_param(ctx, f)
        sched = _nodes_calling(p, f, f"{SCHEDULER}.schedule")
        setd = _nodes_calling(p, f, SETDIRS)
        regs = _nodes_calling(p, f, f"{DM}.register_path")
        puts = _jobtoken_puts(p, f)
        ctx.require(len(sched) == 1 and len(setd) <= 1 and bool(regs) and len(puts) >= 1,
                    f"C15.R2: cannot find schedule / register_path / put(JobToken) in {f.qualname}")
        s_id = sched[0].id
        d_id = setd[0].id if setd else None  # a vanished call fails every clause that mentions it
        s_call = _calls(p, f, f"{SCHEDULER}.schedule")[0]
        d_call = _calls(p, f, SETDIRS)[0] if setd else f.node

        def dom(a, b):
            return a is not None and b is not None and g.dominates(a, b)

        ctx.ob("R2", "scheduler.schedule is awaited with the job", _awaited(s_call) and bool(s_call.args) and is_name(s_call.args[0], job_p),
               func=f, node=s_call, instance="schedule:awaited", message="the allocation is not awaited before directories are chosen")
        ok_args = bool(setd) and _awaited(d_call) and len(d_call.args) == 3 and is_name(d_call.args[2], job_p) \
            and _is_alloc_locations(p, f, job_p)(d_call.args[1])
        ctx.ob("R2", "_set_job_directories is awaited with the job and all its allocated locations", ok_args, func=f, node=d_call,
               instance="setdirs:awaited",
               message="directories are not created (call missing or not awaited) or not for every location of "
                       f"scheduler.get_locations({job_p}.name)")
        ctx.ob("R2", "schedule precedes _set_job_directories on every path", dom(s_id, d_id), func=f, node=d_call,
               instance="order:schedule<setdirs")
        for r in regs:
            rc = [c for c in r.calls() if resolves_to(p, f, c, f"{DM}.register_path")][0]
            ctx.ob("R2", "_set_job_directories precedes the registration", dom(d_id, r.id), func=f, node=r.ast,
                   instance="order:setdirs<register:" + unparse(kwarg(rc, "path", 1) or rc)[:40])
        ctx.ob("R2", "exactly one JobToken is published per scheduled job", len(puts) == 1, func=f, node=puts[-1][0],
               instance="put:single")
        # registration loop = outermost for statement containing the register_path calls
        outer = None
        for n in f.body_nodes():
            if isinstance(n, (ast.For, ast.AsyncFor)) and all(within(r.ast, n) for r in regs):
                if outer is None or within(outer, n):
                    outer = n
        ctx.require(outer is not None, "C15.R2: the register_path calls are not inside one loop")
        o_id = g.ids_of(outer)[0]
        for pc, jt in puts:
            put_ids = g.node_containing(pc)
            ctx.require(len(put_ids) == 1, "C15.R2: put(JobToken) node not unique in the CFG")
            put_id = put_ids[0]
            ctx.ob("R2", "_set_job_directories precedes put(JobToken)", dom(d_id, put_id), func=f, node=pc,
                   instance="order:setdirs<put", message="the JobToken is published before its directories exist")
            ok = must_pass(g, g.entry, [put_id], [o_id]) and o_id not in g.reach([put_id]) and not within(pc, outer)
            ctx.ob("R2", "the registration loop is complete before put(JobToken)", ok, func=f, node=pc,
                   instance="order:register<put", message="the JobToken is published before (or inside) the registration loop")
            ctx.ob("R2", "the published JobToken carries this job", is_name(kwarg(jt, "value", 0), job_p), func=f, node=jt,
                   instance="put:jobtoken-value")
    # overrides of _set_job_directories must run the base implementation with the same arguments on every normal path
    for m in p.overrides(SCHED_STEP, "_set_job_directories"):
        if m.qualname == SETDIRS:
            continue
        g = m.cfg
        sup = [n for n in g.nodes.values() if any(resolves_to(p, m, c, SETDIRS) and _awaited(c) and
                                                   [unparse(a) for a in c.args] == m.params[1:] for c in n.calls())]
        ok = bool(sup) and g.escape(g.entry, [n.id for n in sup]) is None
        ctx.ob("R2", f"{m.cls.name}._set_job_directories awaits the base implementation with all arguments on every path", ok,
               func=m, node=m.node, instance=f"override:{m.cls.name}",
               message="an override of _set_job_directories can return without creating the directories")


# --------------------------------------------------------------------------- R3


_SPAWN = ("asyncio.create_task", "asyncio.ensure_future")
_COMPS = (ast.ListComp, ast.SetComp, ast.GeneratorExp)
_DISPLAYS = (ast.List, ast.Tuple, ast.Set)


def _is_spawn(p, f, c):
    return isinstance(c, ast.Call) and (unparse(c.func) in _SPAWN or resolves_to(p, f, c, *_SPAWN))


def _awaited_gather(p, f, c):
    return isinstance(c, ast.Call) and isinstance(parent(c), ast.Await) and (
        unparse(c.func) == "asyncio.gather" or resolves_to(p, f, c, "asyncio.gather"))


def _same_object(f, a: ast.Name, name: str) -> bool:
    """The local `a` denotes the object bound to local `name`: the same name, or an alias whose plain assignments lead
    to exactly the expressions `name` is assigned (origins() substitutes `b = a` by the assignments of a)."""
    if a.id == name:
        return True
    mine = {id(o) for o in origins(f, a)}
    theirs = {id(o) for o in origins(f, ast.copy_location(ast.Name(id=name, ctx=ast.Load()), a))}
    return bool(mine) and mine == theirs and not any(is_name(o) for o in origins(f, a))


def _completion_nodes(p, f, call):
    """(done, kill): `done` = CFG node ids at which the coroutine created by `call` is known to be complete:
    `await call`, `await asyncio.gather(.., call, ..)`, or `await asyncio.gather(*L)` / `await L` where the coroutine
    (or its task, or the comprehension / display that generates the tasks) is an argument of the gather, or was
    appended to / added to / assigned to the local L (or L is a plain alias of it).
    `kill` = CFG node ids that make L lose tasks (a rebinding of L, `L.clear()`, `del L`, ...): none of them may be
    reachable from the creation before the completion (checked by the caller)."""
    g = f.cfg
    cur, par = call, parent(call)
    many = False  # cur denotes a collection of awaitables (else: one awaitable)
    while True:
        if isinstance(par, ast.Await) and not many:
            return g.node_containing(par), []
        if isinstance(par, ast.Call) and cur in par.args and not many and _is_spawn(p, f, par):
            pass
        elif isinstance(par, _COMPS) and cur is par.elt and not many:
            many = True
        elif isinstance(par, _DISPLAYS) and cur in par.elts and not many:
            many = True
        elif isinstance(par, ast.Call) and is_name(par.func) and par.func.id in ("list", "tuple") and par.args == [cur] \
                and not par.keywords and many:
            pass
        else:
            break
        cur, par = par, parent(par)
    # argument of an awaited gather: `gather(x)` for one awaitable, `gather(*xs)` for a collection
    if many and isinstance(par, ast.Starred):
        cur, par = par, parent(par)
        if _awaited_gather(p, f, par) and cur in par.args:
            return g.node_containing(par), []
        return [], []
    if not many and _awaited_gather(p, f, par) and cur in par.args:
        return g.node_containing(par), []
    # bound to a local: L.append(x) / L.add(x) / L.extend(xs) / L += xs / L = x / L: T = x / (L := x)
    name, binding = None, None
    if isinstance(par, ast.Call) and isinstance(par.func, ast.Attribute) and is_name(par.func.value) and par.args == [cur] \
            and par.func.attr in (("extend", "update") if many else ("append", "add")):
        name, many = par.func.value.id, True
    elif isinstance(par, ast.AugAssign) and isinstance(par.op, ast.Add) and is_name(par.target) and par.value is cur and many:
        name = par.target.id
    elif isinstance(par, ast.Assign) and par.value is cur and len(par.targets) == 1 and is_name(par.targets[0]):
        name, binding = par.targets[0].id, par
    elif isinstance(par, ast.AnnAssign) and par.value is cur and is_name(par.target):
        name, binding = par.target.id, par
    elif isinstance(par, ast.NamedExpr) and par.value is cur:
        name, binding = par.target.id, par
    if name is None:
        return [], []
    done, names = [], {name}
    for n in g.nodes.values():
        for a in n.walk():
            if not isinstance(a, ast.Await):
                continue
            v = a.value
            if not many and is_name(v) and _same_object(f, v, name):
                done.append(n.id)
                names.add(v.id)
            if not _awaited_gather(p, f, v):
                continue
            for x in v.args:
                y = x.value if many and isinstance(x, ast.Starred) else x if not many else None
                if is_name(y) and _same_object(f, y, name):
                    done.append(n.id)
                    names.add(y.id)
    kill = []
    for nm in names:
        for d in defs_of(f, nm):
            if d.stmt is None or d.kind in ("aug", "comp", "except"):
                continue
            if d.kind in ("assign", "walrus") and is_name(d.value) and d.value.id in names:
                continue  # the alias itself
            if d.stmt is binding:
                # the creating assignment: re-executing it (a loop without the completion inside) drops the earlier tasks
                kill.extend(g.node_containing(cur))
                continue
            kill.extend(g.ids_of(d.stmt) or g.node_containing(d.stmt))
    for n in g.nodes.values():
        for x in n.walk():
            if isinstance(x, ast.Call) and isinstance(x.func, ast.Attribute) and is_name(x.func.value) \
                    and x.func.value.id in names and x.func.attr in ("clear", "pop", "remove", "discard"):
                kill.append(n.id)
            if isinstance(x, ast.Delete) and any(is_name(t) and t.id in names or
                                                 isinstance(t, ast.Subscript) and is_name(t.value) and t.value.id in names
                                                 for t in x.targets):
                kill.append(n.id)
    return done, kill


# ---- "a value that is None raises before it is stored": guards, followed through helpers and literal tables


def _none_edge(test: ast.AST, names) -> str | None:
    """'t' / 'f': the outcome of `test` whenever (one of) the locals `names` is None; None when it depends on more.
    `v is None`, `None is v`, `v == None`, `not v` are true, `v is not None`, `v` are false; a disjunction is true as soon
    as one operand is, a conjunction false as soon as one operand is (`a is None or b is None`, `a and b`)."""

    def val(e):
        if isinstance(e, ast.NamedExpr):
            return val(e.value)
        if is_name(e) and e.id in names:
            return False
        if isinstance(e, ast.UnaryOp) and isinstance(e.op, ast.Not):
            r = val(e.operand)
            return None if r is None else not r
        if isinstance(e, ast.Compare) and len(e.ops) == 1:
            a, b = e.left, e.comparators[0]
            if (is_name(a) and a.id in names and const(b) is None) or (is_name(b) and b.id in names and const(a) is None):
                if isinstance(e.ops[0], (ast.Is, ast.Eq)):
                    return True
                if isinstance(e.ops[0], (ast.IsNot, ast.NotEq)):
                    return False
            return None
        if isinstance(e, ast.BoolOp):
            rs = [val(x) for x in e.values]
            if isinstance(e.op, ast.Or):
                return True if any(r is True for r in rs) else False if all(r is False for r in rs) else None
            return False if any(r is False for r in rs) else True if all(r is True for r in rs) else None
        return None

    r = val(test)
    return None if r is None else "t" if r else "f"


def _param_of(callee, call: ast.Call, arg: ast.AST) -> str | None:
    """Name of the parameter of `callee` that `arg` (an argument of `call`) is bound to; None when unknown (*/**)."""
    if any(isinstance(x, ast.Starred) for x in call.args) or any(k.arg is None for k in call.keywords):
        return None
    a = callee.node.args
    pos = [x.arg for x in a.posonlyargs + a.args]
    names = pos + [x.arg for x in a.kwonlyargs]
    for k in call.keywords:
        if k.value is arg:
            return k.arg if k.arg in names else None
    bound = bool(pos) and pos[0] in ("self", "cls") and callee.cls is not None and isinstance(call.func, ast.Attribute) \
        and not any(unparse(d) in ("staticmethod",) for d in callee.node.decorator_list)
    for i, x in enumerate(call.args):
        if x is arg:
            j = i + (1 if bound else 0)
            return pos[j] if j < len(pos) else None
    return None


def _executed_with_stmt(c: ast.Call) -> bool:
    """The call is evaluated whenever its statement is: it is the (awaited) expression statement itself or the whole
    right-hand side of an assignment (not an operand of `and` / `or` / a conditional expression / a lambda / ...)."""
    e = parent(c)
    if isinstance(e, ast.Await):
        e = parent(e)
    return isinstance(e, (ast.Expr, ast.Assign, ast.AnnAssign)) and strip_await(e.value) is c


def _none_guards(p, f, names, depth=1):
    """[(CFG node id, blocked successor ids, description)]: nodes of `f` past which control continues normally only
    while the locals `names` are not None -- a test whose outcome for None leads only to `raise` (blocked = that
    outcome's successors; spelled any way `_none_edge` reads), or an (awaited) call statement handing the local to a
    program function that raises whenever that parameter is None (helper extraction, followed `depth` levels)."""
    g = f.cfg
    out = []
    for t in g.nodes.values():
        if t.kind == "test" and t.ast is not None:
            e = _none_edge(t.ast, names)
            if e is not None and leads_only_to_raise(g, branch(g, t.id, e)):
                out.append((t.id, branch(g, t.id, e), f"`{unparse(t.ast)[:60]}` raises"))
    if depth <= 0:
        return out
    for n in g.nodes.values():
        if n.kind != "stmt":
            continue
        for c in n.calls():
            args = [x for x in [*c.args, *(k.value for k in c.keywords)] if is_name(x) and x.id in names]
            if not args or not _executed_with_stmt(c):
                continue
            qs = p.resolve_call(f, c, fanout=False)
            callee = p.functions.get(qs[0]) if len(qs) == 1 else None
            if callee is None or callee is f or isinstance(callee.node, ast.Lambda) or callee.decorators:
                continue
            if callee.is_async != isinstance(parent(c), ast.Await):
                continue  # a coroutine that is not awaited here does not run here
            if any(isinstance(x, (ast.Yield, ast.YieldFrom)) for x in callee.body_nodes()):
                continue
            for a in args:
                pn = _param_of(callee, c, a)
                if pn is not None and _raises_on_none(p, callee, pn, depth - 1):
                    out.append((n.id, [], f"helper {callee.qualname} raises when `{pn}` is None"))
    return out


def _raises_on_none(p, callee, pn: str, depth: int) -> bool:
    """Every call of `callee` with parameter `pn` = None raises: the parameter is never rebound, and a guard on it lies on
    every path from the entry to a normal return while the None outcome of that guard reaches no return (even through an
    exception handler)."""
    g = callee.cfg
    if any(d.kind != "param" for d in defs_of(callee, pn)):
        return False
    for nid, blocked, _ in _none_guards(p, callee, {pn}, depth):
        if g.path(g.entry, [g.exit], avoid={nid}) is None and g.exit not in g.reach(blocked, include_src=True, kinds=ALL):
            return True
    return False


def _table_vars(f, loop: ast.For, names):
    """[(loop variable, table display)]: `loop` iterates over a literal table -- a list / tuple display of the values
    or of equally long rows (`for kind, value, shown in (('input', a, x), ('output', b, y))`), or `.items()` /
    `.values()` of a dict display -- that lists one of the locals `names` in the column bound to the loop variable.
    The table may be a local bound once to the display and used only as this loop's iterable."""
    it, view = loop.iter, None
    if isinstance(it, ast.Call) and isinstance(it.func, ast.Attribute) and it.func.attr in ("items", "values") \
            and not it.args and not it.keywords:
        it, view = it.func.value, it.func.attr
    if is_name(it):
        ds = defs_of(f, it.id)
        loads = [x for x in f.body_nodes() if is_name(x, it.id) and isinstance(x.ctx, ast.Load)]
        if len(ds) != 1 or ds[0].kind != "assign" or ds[0].index is not None or len(loads) != 1:
            return []
        it = ds[0].value
    if view is None and isinstance(it, (ast.List, ast.Tuple)):
        rows = list(it.elts)
    elif view is not None and isinstance(it, ast.Dict) and all(k is not None for k in it.keys):
        rows = list(it.values) if view == "values" else [ast.Tuple(elts=[k, v], ctx=ast.Load()) for k, v in zip(it.keys, it.values)]
    else:
        return []
    if any(isinstance(r, ast.Starred) for r in rows):
        return []
    tgt = loop.target
    out = []
    if is_name(tgt):
        if any(is_name(r) and r.id in names for r in rows):
            out.append((tgt.id, it))
    elif isinstance(tgt, (ast.Tuple, ast.List)) and not any(isinstance(e, ast.Starred) for e in tgt.elts):
        width = len(tgt.elts)
        if all(isinstance(r, (ast.Tuple, ast.List)) and len(r.elts) == width
               and not any(isinstance(e, ast.Starred) for e in r.elts) for r in rows):
            for k, e in enumerate(tgt.elts):
                if is_name(e) and any(is_name(r.elts[k]) and r.elts[k].id in names for r in rows):
                    out.append((e.id, it))
    return out


def _not_none_at(p, f, vname: str, nid: int) -> str | None:
    """How the local `vname` is known not to be None whenever control reaches CFG node `nid` (None: it is not known).
    (a) a guard (`_none_guards`: raising test on the local or a plain alias of it, or a raising helper it is handed to)
        dominates `nid`, and `nid` cannot be reached from the guard's None outcome (also not through a handler);
    (b) a `for` over a literal table listing the local (`_table_vars`) dominates `nid`; `nid` is reached only after the
        loop is exhausted (no `break` route); the loop variable is bound by the loop only; in every iteration a guard on
        the loop variable is passed before the next iteration / the end of the loop.
    In both cases the local is not rebound between the guard (the table) and `nid`."""
    g = f.cfg
    vdefs = defs_of(f, vname)
    names = {vname}
    if len(vdefs) == 1:  # plain single-assignment aliases of a single-assignment local denote the same object
        grew = True
        while grew:
            grew = False
            for x in f.body_nodes():
                if isinstance(x, ast.Name) and isinstance(x.ctx, ast.Store) and x.id not in names:
                    ds = defs_of(f, x.id)
                    if len(ds) == 1 and ds[0].kind in ("assign", "walrus") and ds[0].index is None and is_name(ds[0].value) \
                            and ds[0].value.id in names:
                        names.add(x.id)
                        grew = True
    def_ids = [i for d in vdefs if d.stmt is not None for i in (g.ids_of(d.stmt) or g.node_containing(d.stmt))]

    def rebound_after(src_ids) -> bool:
        after = g.reach(src_ids)
        return any(x in after and nid in g.reach([x]) for x in def_ids)

    for gid, blocked, desc in _none_guards(p, f, names):
        if gid != nid and g.dominates(gid, nid) and nid not in g.reach(blocked, include_src=True, kinds=ALL) \
                and not rebound_after([gid]):
            return desc
    for loop in f.body_nodes():
        if not isinstance(loop, ast.For):
            continue
        heads = g.ids_of(loop)
        if len(heads) != 1:
            continue
        head = heads[0]
        body = branch(g, head, "t")
        if not body or head == nid or not g.dominates(head, nid) or any(g.path(b, [nid], avoid=[head]) is not None for b in body):
            continue
        for var, table in _table_vars(f, loop, names):
            if len(defs_of(f, var)) != 1 or rebound_after(g.node_containing(table) or [head]):
                continue
            for gid, blocked, desc in _none_guards(p, f, {var}):
                if within(g.nodes[gid].ast, loop) and gid != head \
                        and all(must_pass(g, b, [head, g.exit, nid], [gid]) for b in body) \
                        and nid not in g.reach(blocked, include_src=True, kinds=ALL):
                    return f"as `{var}` of the loop over the literal table `{unparse(table)[:40]}..`: {desc}"
    return None


def r3(ctx):
    p = ctx.prog
    f = p.func(SETDIRS)
    g = f.cfg
    job_p = _job_param(ctx, f)
    ctx.require(len(f.params) >= 4, "C15.R3: _set_job_directories signature changed")
    loc_p = f.params[2]
    mk = [c for c in f.calls() if isinstance(c.func, ast.Attribute) and c.func.attr == "mkdir"]
    ctx.ob("R3", "_set_job_directories creates directories", bool(mk), func=f, node=f.node, instance="mkdir:present",
           message="_set_job_directories issues no mkdir")
    name_nodes = [
        i for n in f.body_nodes() if isinstance(n, ast.Assign) and any(attr_of(t, job_p) in DIRS for t in n.targets)
        and _names_directory(p, f, n)
        for i in g.ids_of(n)
    ]
    resolve_nodes = [n.id for n in g.nodes.values() if any(
        isinstance(c.func, ast.Attribute) and c.func.attr == "resolve" for c in n.calls())]
    ctx.require(bool(resolve_nodes), "C15.R3: the resolve stage of _set_job_directories vanished")
    for c in mk:
        recv = c.func.value
        ok_recv = isinstance(recv, ast.Call) and resolves_to(p, f, recv, SFPATH)
        ok_flags = const(kwarg(c, "parents", 1)) is True and const(kwarg(c, "exist_ok", 2)) is True
        ctx.ob("R3", "mkdir(parents=True, exist_ok=True) on a StreamFlowPath", ok_recv and ok_flags, func=f, node=c,
               instance="mkdir:flags", message=f"`{unparse(c)[-70:]}`: concurrent jobs sharing a parent (or a retry) make mkdir fail")
        bs = binders(c)
        li = _loc_binder(f, bs, lambda it: all(is_name(o, loc_p) for o in origins(f, it)) and bool(origins(f, it)))
        di = _dir_binder(f, bs, job_p)
        ok_prod = li is not None and di is not None and ok_recv \
            and is_name(kwarg(recv, "location"), bs[li][0].id) and recv.args and is_name(recv.args[0], bs[di][0].id)
        ctx.ob("R3", "mkdir ranges over every allocated location x {input, output, tmp}", ok_prod, func=f, node=c,
               instance="mkdir:product",
               message="mkdir is not issued for each of the locations x the three job directories "
                       f"(enclosing loops: {[unparse(it)[:50] for _, it in bs]})")
        m_ids = g.node_containing(c)
        ctx.ob("R3", "the directories are created after all three names were chosen",
               bool(name_nodes) and all(g.dominates(n, m) for n in name_nodes for m in m_ids), func=f, node=c,
               instance="mkdir:after-naming")
        done, kill = _completion_nodes(p, f, c)
        ok_done = bool(done) and all(must_pass(g, m, [g.exit, *resolve_nodes], done) for m in m_ids) \
            and not (set(kill) & g.reach(m_ids, avoid=done))
        ctx.ob("R3", "all mkdir tasks are awaited before the directories are resolved and before returning", ok_done, func=f,
               node=c, instance="mkdir:awaited",
               message="the mkdir coroutines/tasks are not awaited (gathered) on every path before resolve()/return: the job "
                       "can start in directories that do not exist yet")
    # ---- None resolution raises before it is stored
    finals = []
    for n in f.body_nodes():
        if isinstance(n, ast.Assign) and len(n.targets) == 1 and attr_of(n.targets[0], job_p) in DIRS:
            if not any(isinstance(o, ast.Call) and resolves_to(p, f, o, GETDIR) for o in origins(f, n.value)) \
                    and any(i in g.reach(resolve_nodes) for i in g.ids_of(n)):
                finals.append(n)
    ctx.require(len(finals) >= 3, "C15.R3: final assignments of the resolved directories not found")
    for n in finals:
        d = attr_of(n.targets[0], job_p)
        v = n.value
        ok = False
        msg = f"`{unparse(n)}`: the stored value is not a resolved path guarded against None"
        how = ""
        if is_name(v):
            # a plain alias of the resolved local (`_tmp = input_directory; job.input_directory = _tmp`) is the local itself
            o = single_origin(f, v)
            if is_name(o) and o.id != v.id and len(defs_of(f, v.id)) == 1:
                v = o
        if is_name(v):
            ds = defs_of(f, v.id)
            from_resolve = bool(ds) and all(
                dd.value is not None and any(isinstance(x, ast.Call) and isinstance(x.func, ast.Attribute) and x.func.attr == "resolve"
                                             for x in ast.walk(dd.value)) for dd in ds)
            nid = g.ids_of(n)[0]
            how = _not_none_at(p, f, v.id, nid)
            guarded = how is not None
            ok = from_resolve and guarded
            if from_resolve and not guarded:
                msg = (f"`{v.id}` may be None when it is stored as {job_p}.{d} (no raising `is None` test dominates the store: "
                       "neither directly, nor in a helper it is handed to, nor in a loop over a literal table that lists it)")
        ctx.ob("R3", f"a {d} that resolves to None raises before it is stored on the job" + (f" ({how})" if ok and how else ""),
               ok, func=f, node=n, instance=f"resolve-guard:{d}", message=msg)


# --------------------------------------------------------------------------- R4


def r4(ctx):
    p = ctx.prog
    for f in p.overrides(SCHED_STEP, "_schedule"):
        g = f.cfg
        job_p = _job_param(ctx, f)
        regs = _calls(p, f, f"{DM}.register_path")
        ctx.require(bool(regs), f"C15.R4: no register_path in {f.qualname}")
        is_locs = _is_alloc_locations(p, f, job_p)
        # the registration of the job directory itself: `path=` is a loop variable (the resolved real path is extra)
        main = []
        for c in regs:
            bs = binders(c)
            pa = kwarg(c, "path", 1)
            if is_name(pa) and any(is_name(t, pa.id) for t, _ in bs):
                main.append((c, bs, pa.id))
        ctx.ob("R4", "the job directory itself is registered", bool(main), func=f, node=regs[0], instance="register:present",
               message="no register_path(path=<loop variable over the job directories>) in _schedule")
        for c, bs, dvar in main:
            di = _dir_binder(f, bs, job_p)
            li = _loc_binder(f, bs, is_locs)
            loc = kwarg(c, "location", 0)
            lvar = loc.id if is_name(loc) else "?"
            ok = di is not None and li is not None and is_name(bs[di][0], dvar) and is_name(bs[li][0], lvar)
            ctx.ob("R4", "registration ranges over every allocated location x {input, output, tmp}", ok, func=f, node=c,
                   instance="register:product",
                   message="register_path(path=directory) is not issued for each location of scheduler.get_locations(job.name) "
                           f"x the three job directories (enclosing loops: {[unparse(it)[:60] for _, it in bs]})")
            rel = kwarg(c, "relpath", 2)
            ctx.ob("R4", "the directory is registered under its own path", rel is None or is_name(rel, dvar), func=f, node=c,
                   instance="register:relpath")
            # guard: `not get_data_locations(directory, location.deployment, location.name)`
            c_ids = g.node_containing(c)
            tests = []
            for t in g.nodes.values():
                if t.kind != "test":
                    continue
                e, neg = t.ast, False
                if isinstance(e, ast.UnaryOp) and isinstance(e.op, ast.Not):
                    e, neg = e.operand, True
                if isinstance(e, ast.Call) and resolves_to(p, f, e, f"{DM}.get_data_locations"):
                    tests.append((t, e, neg))
            ctx.require(len(tests) >= 1, "C15.R4: `get_data_locations(...)` guard of the registration not found")
            for t, e, neg in tests:
                a_path, a_dep, a_loc = kwarg(e, "path", 0), kwarg(e, "deployment", 1), kwarg(e, "location_name", 2)
                ok_args = is_name(a_path, dvar) and a_dep is not None and attr_of(a_dep, lvar) == "deployment" \
                    and a_loc is not None and attr_of(a_loc, lvar) == "name" and kwarg(e, "data_type", 3) is None
                ctx.ob("R4", "`already known` is asked for this directory on this location", ok_args, func=f, node=t.ast,
                       instance="register:guard-args",
                       message=f"`{unparse(e)[:110]}` does not query (directory, location.deployment, location.name)")
                unknown = "t" if neg else "f"
                heads = [i for n in f.body_nodes() if isinstance(n, (ast.For, ast.AsyncFor)) and within(c, n) for i in g.ids_of(n)]
                ok_cov = all(must_pass(g, s, heads + [g.exit], c_ids) for s in branch(g, t.id, unknown))
                ctx.ob("R4", "a directory not yet known on the location is registered before the loop moves on", ok_cov,
                       func=f, node=c, instance="register:covers-unknown",
                       message="a path from `directory not known here` to the next iteration skips register_path(path=directory)")
                ctx.ob("R4", "registration happens only for directories not yet known there",
                       all(only_via(g, t.id, unknown, i) for i in c_ids), func=f, node=c, instance="register:only-unknown")


RULES = [("R1", r1), ("R2", r2), ("R3", r3), ("R4", r4)]
# R1: the two Job(...) constructions of ScheduleStep.run may legitimately be one shared helper (9 instances then);
# that at least one construction is analysed is required separately in r1
FLOORS = {"R1": 9, "R2": 10, "R3": 8, "R4": 6}

_MK = "create_tasks.append(asyncio.create_task(StreamFlowPath(directory, context=self.workflow.context, location=location).mkdir(mode=511, parents=True, exist_ok=True)))"
_MKTASK = "asyncio.create_task(StreamFlowPath(directory, context=self.workflow.context, location=location).mkdir(mode=511, parents=True, exist_ok=True))"
_MK_LOOP = ("create_tasks = []\n    for location in locations:\n        for directory in [job.input_directory, job.output_directory, job.tmp_directory]:\n"
            "            " + "create_tasks.append(" + _MKTASK + ")\n")
_DIRLIST = "[job.input_directory, job.output_directory, job.tmp_directory]"
_MK_COMP = "create_tasks = [" + _MKTASK + " for location in locations for directory in " + _DIRLIST + "]\n"
_GATHER = "    await asyncio.gather(*create_tasks)\n"
_REG_LOOP_HEAD = "    for location in locations:\n        for directory in (job.input_directory, job.output_directory, job.tmp_directory):\n            if not self.workflow.context.data_manager.get_data_locations("

_CHECKS = ("    if input_directory is None:\n        raise WorkflowExecutionException(f'Job {self.name} cannot resolve input directory: {job.input_directory}')\n"
           "    if output_directory is None:\n        raise WorkflowExecutionException(f'Job {self.name} cannot resolve output directory: {job.output_directory}')\n"
           "    if tmp_directory is None:\n        raise WorkflowExecutionException(f'Job {self.name} cannot resolve tmp directory: {job.tmp_directory}')\n")
_CHECK_LOOP = ("    for kind, resolved, directory in (('input', input_directory, job.input_directory), ('output', output_directory, job.output_directory), ('tmp', tmp_directory, job.tmp_directory)):\n"
               "        if resolved is None:\n            raise WorkflowExecutionException(f'Job {self.name} cannot resolve {kind} directory: {directory}')\n")



def _naming(form, fields=DIRS, keyed=None):
    return "".join("    job.%s = %s\n" % (d, form.format(d=(keyed or {}).get(d, d))) for d in fields)


_NAMING = _naming("_get_directory(path_processor, job.{d}, allocation.target)")
_INLINE = "job.{d} or path_processor.join(allocation.target.workdir, utils.random_name())"

VARIANTS = [
    # ---- R1
    V("constant directory name instead of random_name()", SFILE, GETDIR, "utils.random_name()", "'job'", "R1"),
    V("random_name cached", UFILE, RANDOM, "def random_name()", "@functools.cache\ndef random_name()", "R1", control=True),
    V("random_name returns a module constant", UFILE, RANDOM, "return str(uuid.uuid4())", "return _NAME", "R1",
      append="_NAME = str(uuid.uuid4())"),
    V("random_name returns a module constant through a temporary", UFILE, RANDOM, "return str(uuid.uuid4())",
      "_sf_ret = _NAME\n    return _sf_ret", "R1", append="_NAME = str(uuid.uuid4())"),
    V("random_name draws a new name only while none was drawn before", UFILE, RANDOM, "return str(uuid.uuid4())",
      "_sf_ret = _NAMES[0] if _NAMES else str(uuid.uuid4())\n    _NAMES.append(_sf_ret)\n    return _sf_ret", "R1",
      append="_NAMES = []"),
    V("random_name temporary rebound to a constant on a branch", UFILE, RANDOM, "return str(uuid.uuid4())",
      "_sf_ret = str(uuid.uuid4())\n    if _NAME:\n        _sf_ret = _NAME\n    return _sf_ret", "R1", append="_NAME = 'job'"),
    V("random_name delegates to a cached helper", UFILE, RANDOM, "return str(uuid.uuid4())", "return _new_name()", "R1",
      append="@functools.cache\ndef _new_name():\n    return str(uuid.uuid4())"),
    V("directory joined to another workdir", SFILE, GETDIR, "target.workdir", "target.deployment.workdir", "R1"),
    V("output directory named from the input field", SFILE, SETDIRS,
      "job.output_directory = _get_directory(path_processor, job.output_directory, allocation.target)",
      "job.output_directory = _get_directory(path_processor, job.input_directory, allocation.target)", "R1"),
    V("one generated name shared by two directories", SFILE, SETDIRS,
      "job.tmp_directory = _get_directory(path_processor, job.tmp_directory, allocation.target)",
      "job.tmp_directory = job.output_directory", "R1"),
    V("Job created with a constant tmp directory", SFILE, f"{SCHED_STEP}.run", "tmp_directory=self.tmp_directory", "tmp_directory='/tmp/streamflow/tmp'",
      "R1", count=2),
    # ---- R2
    V("JobToken put before _set_job_directories", SFILE, SCHEDULE,
      "    await self._set_job_directories(connector, locations, job)\n", "", "R2"),
    V("JobToken published first", SFILE, SCHEDULE,
      "    await self._set_job_directories(connector, locations, job)\n    for location in locations:",
      "    self.get_output_port().put(await self._persist_token(token=JobToken(value=job, tag=get_job_tag(job.name)), port=self.get_output_port(), input_token_ids=[]))\n    await self._set_job_directories(connector, locations, job)\n    for location in locations:", "R2"),
    V("_set_job_directories not awaited", SFILE, SCHEDULE, "await self._set_job_directories(connector, locations, job)",
      "self._set_job_directories(connector, locations, job)", "R2"),
    V("directories created before the allocation", SFILE, SCHEDULE,
      "    await self.workflow.context.scheduler.schedule(job, self.binding_config, self.hardware_requirement)\n    connector = self.workflow.context.scheduler.get_connector(job.name)\n    locations = self.workflow.context.scheduler.get_locations(job.name)\n    await self._set_job_directories(connector, locations, job)",
      "    connector = self.workflow.context.scheduler.get_connector(job.name)\n    locations = self.workflow.context.scheduler.get_locations(job.name)\n    await self._set_job_directories(connector, locations, job)\n    await self.workflow.context.scheduler.schedule(job, self.binding_config, self.hardware_requirement)",
      "R2"),
    V("directories only on the first allocated location", SFILE, SCHEDULE, "await self._set_job_directories(connector, locations, job)",
      "await self._set_job_directories(connector, locations[:1], job)", "R2"),
    V("override skips the base implementation on a branch", CWLFILE, "streamflow.cwl.step.CWLScheduleStep._set_job_directories",
      "await super()._set_job_directories(connector, locations, job)",
      "if job.output_directory is None:\n        await super()._set_job_directories(connector, locations, job)", "R2", control=True),
    # ---- R3
    V("mkdir only for the first location", SFILE, SETDIRS, "for location in locations:\n        for directory in [", "for location in locations[:1]:\n        for directory in [", "R3",
      control=True),
    V("tmp directory not created", SFILE, SETDIRS, "for directory in [job.input_directory, job.output_directory, job.tmp_directory]:",
      "for directory in [job.input_directory, job.output_directory]:", "R3"),
    V("mkdir tasks never awaited", SFILE, SETDIRS, "    await asyncio.gather(*create_tasks)\n", "", "R3"),
    V("mkdir without exist_ok", SFILE, SETDIRS, "parents=True, exist_ok=True", "parents=True", "R3"),
    V("None resolution of tmp is stored", SFILE, SETDIRS,
      "    if tmp_directory is None:\n        raise WorkflowExecutionException(f'Job {self.name} cannot resolve tmp directory: {job.tmp_directory}')\n", "", "R3"),
    # ---- R4
    V("registration loop dropped", SFILE, SCHEDULE, _REG_LOOP_HEAD, "    for location in []:\n        for directory in (job.input_directory, job.output_directory, job.tmp_directory):\n            if not self.workflow.context.data_manager.get_data_locations(", "R4"),
    V("output directory not registered", SFILE, SCHEDULE, "for directory in (job.input_directory, job.output_directory, job.tmp_directory):",
      "for directory in (job.input_directory, job.tmp_directory):", "R4"),
    V("only symbolic links are registered", SFILE, SCHEDULE,
      "                self.workflow.context.data_manager.register_path(location=location, path=directory, relpath=directory, data_type=DataType.PRIMARY if str(realpath) == directory else DataType.SYMBOLIC_LINK)",
      "                    self.workflow.context.data_manager.register_path(location=location, path=directory, relpath=directory, data_type=DataType.PRIMARY if str(realpath) == directory else DataType.SYMBOLIC_LINK)", "R4"),
    V("known-test asks another location", SFILE, SCHEDULE, "get_data_locations(directory, location.deployment, location.name)",
      "get_data_locations(directory, location.deployment)", "R4"),
    V("registration guard inverted", SFILE, SCHEDULE, "if not self.workflow.context.data_manager.get_data_locations(",
      "if self.workflow.context.data_manager.get_data_locations(", "R4"),
    # ---- benign
    V("rename locals of _set_job_directories", SFILE, SETDIRS, "create_tasks", "pending", None, count=3),
    V("rename locals of _schedule", SFILE, SCHEDULE, "realpath", "real", None, count=5),
    V("build the directory list once", SFILE, SETDIRS,
      "create_tasks = []\n    for location in locations:\n        for directory in [job.input_directory, job.output_directory, job.tmp_directory]:",
      "create_tasks = []\n    job_dirs = [job.input_directory, job.output_directory, job.tmp_directory]\n    for location in locations:\n        for directory in job_dirs:", None),
    V("logging and a temporary in _schedule", SFILE, SCHEDULE, "locations = self.workflow.context.scheduler.get_locations(job.name)",
      "locs = self.workflow.context.scheduler.get_locations(job.name)\n    logger.debug(f'job {job.name} allocated on {len(locs)} locations')\n    locations = locs", None),
    V("sequential awaited mkdir", SFILE, SETDIRS, _MK,
      "await StreamFlowPath(directory, context=self.workflow.context, location=location).mkdir(mode=511, parents=True, exist_ok=True)", None),
    V("reorder independent naming statements", SFILE, SETDIRS,
      "job.input_directory = _get_directory(path_processor, job.input_directory, allocation.target)\n    job.output_directory = _get_directory(path_processor, job.output_directory, allocation.target)",
      "job.output_directory = _get_directory(path_processor, job.output_directory, allocation.target)\n    job.input_directory = _get_directory(path_processor, job.input_directory, allocation.target)", None),
    # ---- the creation tasks built by a comprehension / bound through temporaries (B1-4)
    V("mkdir tasks built by a list comprehension", SFILE, SETDIRS, _MK_LOOP, _MK_COMP, None),
    V("comprehension, gathered through an alias", SFILE, SETDIRS, _MK_LOOP + _GATHER,
      _MK_COMP + "    pending = create_tasks\n    await asyncio.gather(*pending)\n", None),
    V("generator of mkdir tasks passed straight to gather", SFILE, SETDIRS, _MK_LOOP + _GATHER,
      "await asyncio.gather(*(" + _MKTASK + " for location in locations for directory in " + _DIRLIST + "))\n", None),
    V("per-location comprehension extended into the list", SFILE, SETDIRS,
      "        for directory in [job.input_directory, job.output_directory, job.tmp_directory]:\n            create_tasks.append(" + _MKTASK + ")\n",
      "        create_tasks.extend([" + _MKTASK + " for directory in " + _DIRLIST + "])\n", None),
    V("per-location comprehension gathered inside the loop", SFILE, SETDIRS, _MK_LOOP + _GATHER,
      "for location in locations:\n        create_tasks = [" + _MKTASK + " for directory in " + _DIRLIST + "]\n        await asyncio.gather(*create_tasks)\n", None),
    V("comprehension of mkdir tasks never gathered", SFILE, SETDIRS, _MK_LOOP + _GATHER, _MK_COMP, "R3"),
    V("comprehension rebuilt per location, only the last one gathered", SFILE, SETDIRS, _MK_LOOP,
      "for location in locations:\n        create_tasks = [" + _MKTASK + " for directory in " + _DIRLIST + "]\n", "R3"),
    V("task list truncated before the gather", SFILE, SETDIRS, _GATHER, "    create_tasks = create_tasks[:1]\n" + _GATHER, "R3"),
    V("task list cleared before the gather", SFILE, SETDIRS, _GATHER, "    create_tasks.clear()\n" + _GATHER, "R3"),
    V("another (empty) list is gathered", SFILE, SETDIRS, _MK_LOOP + _GATHER,
      _MK_COMP + "    pending = []\n    await asyncio.gather(*pending)\n", "R3"),
    V("comprehension over the first location only", SFILE, SETDIRS, _MK_LOOP,
      _MK_COMP.replace("for location in locations ", "for location in locations[:1] "), "R3"),
    V("comprehension without the tmp directory", SFILE, SETDIRS, _MK_LOOP,
      _MK_COMP.replace(", job.tmp_directory]", "]"), "R3"),
    V("conditional expression in _get_directory", SFILE, GETDIR, "return directory or path_processor.join(target.workdir, utils.random_name())",
      "fresh = path_processor.join(target.workdir, utils.random_name())\n    return directory if directory else fresh", None),
    # ---- random_name: the drawn value returned through temporaries / a helper (fx5: tempret)
    V("random_name returns through a temporary", UFILE, RANDOM, "return str(uuid.uuid4())",
      "_sf_ret = str(uuid.uuid4())\n    return _sf_ret", None),
    V("random_name draws the uuid into a local, converts it in a second one", UFILE, RANDOM, "return str(uuid.uuid4())",
      "drawn = uuid.uuid4()\n    text = str(drawn)\n    return text", None),
    V("random_name delegates to an extracted helper", UFILE, RANDOM, "return str(uuid.uuid4())", "return _new_name()", None,
      append="def _new_name():\n    _sf_ret = str(uuid.uuid4())\n    return _sf_ret"),
    # ---- the None guard of the resolved directories in other shapes (fx7: B12-4 table loop; helper; merged test)
    V("three None checks collapsed into a loop over a tuple table", SFILE, SETDIRS, _CHECKS, _CHECK_LOOP, None),
    V("None checks as a loop over a dict table bound to a local", SFILE, SETDIRS, _CHECKS,
      "    resolved_dirs = {'input': input_directory, 'output': output_directory, 'tmp': tmp_directory}\n"
      "    for kind, resolved in resolved_dirs.items():\n        if resolved is None:\n"
      "            raise WorkflowExecutionException(f'Job {self.name} cannot resolve {kind} directory')\n", None),
    V("None checks as a loop over the plain values, guard clause form", SFILE, SETDIRS, _CHECKS,
      "    for resolved in [input_directory, output_directory, tmp_directory]:\n        if resolved is not None:\n"
      "            continue\n        raise WorkflowExecutionException(f'Job {self.name} cannot resolve a directory')\n", None),
    V("None checks extracted into a raising helper", SFILE, SETDIRS, _CHECKS,
      "    _require_resolved('input', input_directory)\n    _require_resolved('output', output_directory)\n"
      "    _require_resolved('tmp', tmp_directory)\n", None,
      append="def _require_resolved(kind, resolved):\n    if resolved is None:\n"
             "        raise WorkflowExecutionException(f'cannot resolve {kind} directory')\n"),
    V("table loop calling a raising helper", SFILE, SETDIRS, _CHECKS,
      "    for kind, resolved in (('input', input_directory), ('output', output_directory), ('tmp', tmp_directory)):\n"
      "        _require_resolved(kind, resolved)\n", None,
      append="def _require_resolved(kind, resolved):\n    if resolved is None:\n"
             "        raise WorkflowExecutionException(f'cannot resolve {kind} directory')\n"),
    V("three None checks merged into one disjunction", SFILE, SETDIRS, _CHECKS,
      "    if input_directory is None or output_directory is None or None is tmp_directory:\n"
      "        raise WorkflowExecutionException(f'Job {self.name} cannot resolve its directories')\n", None),
    V("stores nested under the conjunction of the not-None tests", SFILE, SETDIRS, _CHECKS,
      "    if not (input_directory is not None and output_directory is not None and tmp_directory):\n"
      "        raise WorkflowExecutionException(f'Job {self.name} cannot resolve its directories')\n", None),
    V("table loop without the tmp row", SFILE, SETDIRS, _CHECKS,
      _CHECK_LOOP.replace(", ('tmp', tmp_directory, job.tmp_directory)", ""), "R3"),
    V("table loop left after the first row", SFILE, SETDIRS, _CHECKS,
      _CHECK_LOOP + "        break\n", "R3"),
    V("table loop skips the tmp row before the test", SFILE, SETDIRS, _CHECKS,
      _CHECK_LOOP.replace("        if resolved is None:", "        if kind == 'tmp':\n            continue\n        if resolved is None:"), "R3"),
    V("table loop tests the wrong column", SFILE, SETDIRS, _CHECKS,
      _CHECK_LOOP.replace("if resolved is None:", "if directory is None:"), "R3"),
    V("table loop whose raise is swallowed by a handler", SFILE, SETDIRS, _CHECKS,
      "    for kind, resolved, directory in (('input', input_directory, job.input_directory), ('output', output_directory, job.output_directory), ('tmp', tmp_directory, job.tmp_directory)):\n"
      "        try:\n            if resolved is None:\n                raise WorkflowExecutionException(f'Job {self.name} cannot resolve {kind} directory: {directory}')\n"
      "        except WorkflowExecutionException as err:\n            logger.warning(str(err))\n", "R3"),
    V("local rebound between the table and the store", SFILE, SETDIRS, _CHECKS,
      _CHECK_LOOP + "    tmp_directory = await StreamFlowPath(job.tmp_directory, context=self.workflow.context, location=next(iter(locations))).resolve()\n", "R3"),
    V("helper only logs a None directory", SFILE, SETDIRS, _CHECKS,
      "    _require_resolved('input', input_directory)\n    _require_resolved('output', output_directory)\n"
      "    _require_resolved('tmp', tmp_directory)\n", "R3",
      append="def _require_resolved(kind, resolved):\n    if resolved is None:\n"
             "        logger.warning(f'cannot resolve {kind} directory')\n"),
    V("helper raises only for some kinds", SFILE, SETDIRS, _CHECKS,
      "    _require_resolved('input', input_directory)\n    _require_resolved('output', output_directory)\n"
      "    _require_resolved('tmp', tmp_directory)\n", "R3",
      append="def _require_resolved(kind, resolved):\n    if kind == 'tmp':\n        return\n    if resolved is None:\n"
             "        raise WorkflowExecutionException(f'cannot resolve {kind} directory')\n"),
    V("helper is handed the job field instead of the resolved local", SFILE, SETDIRS, _CHECKS,
      "    _require_resolved('input', input_directory)\n    _require_resolved('output', output_directory)\n"
      "    _require_resolved('tmp', job.tmp_directory)\n", "R3",
      append="def _require_resolved(kind, resolved):\n    if resolved is None:\n"
             "        raise WorkflowExecutionException(f'cannot resolve {kind} directory')\n"),
    V("merged test is a conjunction: one None directory passes", SFILE, SETDIRS, _CHECKS,
      "    if input_directory is None and output_directory is None and tmp_directory is None:\n"
      "        raise WorkflowExecutionException(f'Job {self.name} cannot resolve its directories')\n", "R3"),
    # ---- _get_directory inlined into _set_job_directories (fx9: B18-8): the choice written out at each call site
    V("_get_directory inlined at its three call sites", SFILE, SETDIRS, _NAMING, _naming(_INLINE), None),
    V("inlined as conditional expressions over hoisted temporaries", SFILE, SETDIRS, _NAMING,
      "    target = allocation.target\n    workdir = target.workdir\n"
      + _naming("job.{d} if job.{d} else path_processor.join(workdir, utils.random_name())"), None),
    V("inlined, the chosen value bound to a local first", SFILE, SETDIRS, _NAMING,
      _naming(_INLINE, DIRS[:2]) + "    chosen = " + _INLINE.format(d="tmp_directory") + "\n    job.tmp_directory = chosen\n", None),
    V("only one call site inlined", SFILE, SETDIRS, _naming("_get_directory(path_processor, job.{d}, allocation.target)", DIRS[2:]),
      _naming(_INLINE, DIRS[2:]), None),
    V("inlined: output directory kept from the input field", SFILE, SETDIRS, _NAMING,
      _naming(_INLINE, keyed={"output_directory": "input_directory"}), "R1"),
    V("inlined: constant name instead of random_name()", SFILE, SETDIRS, _NAMING,
      _naming("job.{d} or path_processor.join(allocation.target.workdir, 'job')"), "R1"),
    V("inlined: joined to another workdir", SFILE, SETDIRS, _NAMING,
      _naming(_INLINE, DIRS[:2]) + "    job.tmp_directory = job.tmp_directory or path_processor.join(allocation.target.deployment.workdir, utils.random_name())\n", "R1"),
    V("inlined: one generated path shared by the three directories", SFILE, SETDIRS, _NAMING,
      "    fresh = path_processor.join(allocation.target.workdir, utils.random_name())\n" + _naming("job.{d} or fresh"), "R1"),
    V("inlined: one random name shared by the three directories", SFILE, SETDIRS, _NAMING,
      "    name = utils.random_name()\n" + _naming("job.{d} or path_processor.join(allocation.target.workdir, name)"), "R1"),
    V("inlined: the fixed directory is dropped (always a fresh name)", SFILE, SETDIRS, _NAMING,
      _naming(_INLINE, DIRS[:2]) + "    job.tmp_directory = path_processor.join(allocation.target.workdir, utils.random_name())\n", "R1"),
    V("inlined: workdir of another job's allocation", SFILE, SETDIRS, _NAMING,
      "    other = self.workflow.context.scheduler.get_allocation(self.name)\n"
      + _naming("job.{d} or path_processor.join(other.target.workdir, utils.random_name())"), "R1"),
]
