"""Helpers shared by the scheduler rules (C10, C11, C12)."""

from __future__ import annotations

import ast
import itertools

from ..model import AnalysisError, Func, Program, ancestors, dotted, unparse, walk_no_nested

SCHED = "streamflow.scheduling.scheduler.DefaultScheduler"
SFILE = "streamflow/scheduling/scheduler.py"
LOCK = "self.wait_queue"
STATE_FIELDS = ("hardware_locations", "job_allocations", "location_allocations")
MUTATORS = {"append", "add", "pop", "remove", "discard", "clear", "setdefault", "update", "extend", "insert", "popitem"}

STATUS_MEMBERS = (
    "WAITING",
    "FIREABLE",
    "RUNNING",
    "SKIPPED",
    "COMPLETED",
    "RECOVERED",
    "ROLLBACK",
    "FAILED",
    "CANCELLED",
)


def status_members(prog: Program) -> list[str]:
    c = prog.cls("streamflow.core.workflow.Status")
    out = []
    for n in c.node.body:
        if isinstance(n, ast.Assign) and len(n.targets) == 1 and isinstance(n.targets[0], ast.Name):
            out.append(n.targets[0].id)
    if len(out) < 6:
        raise AnalysisError("Status enum members could not be read")
    return out


def under_lock(node: ast.AST, lock: str = LOCK) -> ast.AsyncWith | None:
    """Innermost enclosing `async with <lock>` (lexical)."""
    for a in ancestors(node):
        if isinstance(a, (ast.FunctionDef, ast.AsyncFunctionDef)):
            return None
        if isinstance(a, ast.AsyncWith) and any(unparse(i.context_expr) == lock for i in a.items):
            return a
    return None


def root_attr(expr: ast.AST) -> str | None:
    """`self.<field>` root of a subscript/attribute/call chain, e.g. self.location_allocations[d][n].jobs -> field."""
    e = expr
    while True:
        if isinstance(e, ast.Subscript):
            e = e.value
        elif isinstance(e, ast.Call):
            e = e.func
        elif isinstance(e, ast.Attribute):
            if isinstance(e.value, ast.Name) and e.value.id == "self":
                return e.attr
            e = e.value
        else:
            return None


def root_attr_via(f: Func, expr: ast.AST, depth: int = 4) -> str | None:
    """root_attr, following local aliases: `x = self.a.setdefault(k, {}); y = x.setdefault(..); y.jobs` -> `a`."""
    r = root_attr(expr)
    if r is not None or depth == 0:
        return r
    e = expr
    while isinstance(e, (ast.Subscript, ast.Call, ast.Attribute)):
        e = e.value if not isinstance(e, ast.Call) else e.func
    if isinstance(e, ast.Name) and e.id != "self":
        from ..dataflow import defs_of

        rs = {root_attr_via(f, d.value, depth - 1) for d in defs_of(f, e.id) if d.kind == "assign" and d.value is not None}
        if len(rs) == 1:
            return rs.pop()
    return None


def state_mutations(f: Func, fields=STATE_FIELDS):
    """(node, field, kind) for every statement/call in f that mutates one of the scheduler state fields."""
    for n in f.body_nodes():
        if isinstance(n, (ast.Assign, ast.AugAssign, ast.AnnAssign)):
            tgts = n.targets if isinstance(n, ast.Assign) else [n.target]
            for t in tgts:
                if isinstance(t, (ast.Subscript, ast.Attribute)):
                    r = root_attr(t)
                    if r in fields and not (isinstance(t, ast.Attribute) and isinstance(t.value, ast.Name) and t.value.id == "self"):
                        yield n, r, "store"
        elif isinstance(n, ast.Delete):
            for t in n.targets:
                r = root_attr(t)
                if r in fields:
                    yield n, r, "del"
        elif isinstance(n, ast.Call) and isinstance(n.func, ast.Attribute) and n.func.attr in MUTATORS:
            r = root_attr(n.func.value)
            if r in fields:
                # `.setdefault(...)...` chains: count once at the outermost mutator call
                yield n, r, n.func.attr


def lock_protected_functions(prog: Program, cls_q: str = SCHED, lock: str = LOCK) -> dict[str, str]:
    """Methods of the class whose every call site is under the lock or inside a protected method
    (greatest fixed point).  Returns {qualname: reason}."""
    cls = prog.cls(cls_q)
    cand = {m.qualname: m for m in cls.methods.values()}
    sites: dict[str, list[tuple[Func, ast.Call]]] = {}
    for q in cand:
        sites[q] = [(f, c) for f, c in prog.callers(q)]
    prot = {q for q in cand if sites[q]}  # start optimistic for called methods
    changed = True
    while changed:
        changed = False
        for q in list(prot):
            for f, c in sites[q]:
                if under_lock(c, lock) is not None and f.cls is not None and prog.is_subclass(f.cls.qualname, cls_q):
                    continue
                if f.qualname in prot and f.qualname != q:
                    continue
                prot.discard(q)
                changed = True
                break
    return {q: "all call sites hold the lock" for q in prot}


# ------------------------------------------------------------------ P10 folding


class Unfoldable(Exception):
    pass


def fold(expr: ast.AST, env: dict[str, object]):
    """Evaluate a boolean expression whose atoms compare finite-domain variables (names in env)
    with `Status.X` constants / None / booleans.  Only ==, !=, is, is not, in, not in, and, or, not."""
    if isinstance(expr, ast.BoolOp):
        vals = [fold(v, env) for v in expr.values]
        return all(vals) if isinstance(expr.op, ast.And) else any(vals)
    if isinstance(expr, ast.UnaryOp) and isinstance(expr.op, ast.Not):
        return not fold(expr.operand, env)
    if isinstance(expr, ast.Compare):
        left = fold(expr.left, env)
        res = True
        for op, comp in zip(expr.ops, expr.comparators):
            right = fold(comp, env)
            if isinstance(op, (ast.Eq, ast.Is)):
                r = left == right
            elif isinstance(op, (ast.NotEq, ast.IsNot)):
                r = left != right
            elif isinstance(op, ast.In):
                r = left in right
            elif isinstance(op, ast.NotIn):
                r = left not in right
            else:
                raise Unfoldable(unparse(expr))
            res = res and r
            left = right
        return res
    if isinstance(expr, ast.NamedExpr):
        return fold(expr.target, env)
    if isinstance(expr, ast.Name):
        if expr.id in env:
            return env[expr.id]
        raise Unfoldable(expr.id)
    if isinstance(expr, ast.Attribute):
        d = dotted(expr)
        if d and d.startswith("Status."):
            return d
        if d in env:
            return env[d]
        raise Unfoldable(unparse(expr))
    if isinstance(expr, ast.Constant):
        return expr.value
    if isinstance(expr, (ast.Tuple, ast.List, ast.Set)):
        return [fold(e, env) for e in expr.elts]
    raise Unfoldable(unparse(expr))


def status_table(prog: Program, expr: ast.AST, var_exprs: dict[str, str]):
    """Tabulate `expr` over Status x Status for the variables named in var_exprs
    ({env key: name}). Returns {(v1, v2): bool}."""
    members = [f"Status.{m}" for m in status_members(prog)]
    keys = list(var_exprs)
    table = {}
    for combo in itertools.product(members, repeat=len(keys)):
        env = dict(zip(keys, combo))
        table[combo] = bool(fold(expr, env))
    return table
