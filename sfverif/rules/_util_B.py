"""Helpers shared by the rule modules of group B (C02, C03, C04).

Everything here works on the parsed program only (ast / CFG / def-use / class table).

* expression matching on *structure* (operator kinds, operand identities) rather than text;
* `iter_base` / `is_whole`: does an iterable denote *all* elements of a container
  (tolerating `list(...)`, `tuple(...)`, `x[:]`, `.copy()`, a local alias);
* Status folding (P10): truth set of a guard over the members of `Status`;
* `explore`: bounded path enumeration over a CFG with three-valued evaluation of guards
  over declared boolean *atoms* (P10 on paths): every loop is unrolled `max_iter` times, each
  atom gets an independent truth value per loop iteration, local boolean flags are tracked.
"""

from __future__ import annotations

import ast
from dataclasses import dataclass, field
from typing import Callable, Iterable

from ..dataflow import defs_of, origins
from ..model import AnalysisError, Func, Program, dotted, parent, unparse, walk_no_nested

STATUS = "streamflow.core.workflow.Status"
TERMINATION_TOKEN = "streamflow.workflow.token.TerminationToken"
ITERATION_TERMINATION_TOKEN = "streamflow.workflow.token.IterationTerminationToken"
CHECK_TERMINATION = "streamflow.workflow.utils.check_termination"
CHECK_ITERATION_TERMINATION = "streamflow.workflow.utils.check_iteration_termination"


# --------------------------------------------------------------------------- expressions


def is_self_attr(e: ast.AST, attr: str | None = None) -> bool:
    return (
        isinstance(e, ast.Attribute)
        and isinstance(e.value, ast.Name)
        and e.value.id == "self"
        and (attr is None or e.attr == attr)
    )


def is_name(e: ast.AST, name: str | None = None) -> bool:
    return isinstance(e, ast.Name) and (name is None or e.id == name)


def is_param(f: Func, e: ast.AST, name: str | None = None) -> bool:
    """`e` is a parameter of `f` (optionally the one called `name`) that is never rebound."""
    if not isinstance(e, ast.Name) or e.id not in f.params:
        return False
    if name is not None and e.id != name:
        return False
    return all(d.kind == "param" for d in defs_of(f, e.id))


def orig(f: Func, e: ast.AST) -> list[ast.AST]:
    """Origins with `await` / `cast(T, x)` stripped."""
    out = []
    for o in origins(f, e):
        out.append(strip_cast(o))
    return out


def strip_cast(e: ast.AST) -> ast.AST:
    while True:
        if isinstance(e, ast.Await):
            e = e.value
        elif (
            isinstance(e, ast.Call)
            and (dotted(e.func) or "").split(".")[-1] == "cast"
            and len(e.args) == 2
        ):
            e = e.args[1]
        else:
            return e


def any_origin(f: Func, e: ast.AST, pred: Callable[[ast.AST], bool]) -> bool:
    return any(pred(o) for o in orig(f, e))


def all_origins(f: Func, e: ast.AST, pred: Callable[[ast.AST], bool]) -> bool:
    os_ = orig(f, e)
    return bool(os_) and all(pred(o) for o in os_)


def method_call(c: ast.AST, attr: str | None = None) -> bool:
    return isinstance(c, ast.Call) and isinstance(c.func, ast.Attribute) and (attr is None or c.func.attr == attr)


def self_call(c: ast.AST, name: str | None = None) -> bool:
    """`self.<name>(...)`"""
    return method_call(c) and is_name(c.func.value, "self") and (name is None or c.func.attr == name)


def super_call(c: ast.AST, name: str | None = None) -> bool:
    """`super().<name>(...)`"""
    return (
        method_call(c)
        and isinstance(c.func.value, ast.Call)
        and is_name(c.func.value.func, "super")
        and (name is None or c.func.attr == name)
    )


def arg_of(call: ast.Call, pos: int, kw: str | None = None) -> ast.AST | None:
    """Positional argument `pos` or keyword `kw` of a call (None if absent / starred)."""
    if kw is not None:
        for k in call.keywords:
            if k.arg == kw:
                return k.value
    if 0 <= pos < len(call.args) and not isinstance(call.args[pos], ast.Starred):
        return call.args[pos]
    return None


def calls_in(node: ast.AST) -> list[ast.Call]:
    out = [node] if isinstance(node, ast.Call) else []
    out += [n for n in walk_no_nested(node) if isinstance(n, ast.Call)]
    return out


def same_expr(a: ast.AST, b: ast.AST) -> bool:
    return ast.dump(a) == ast.dump(b)


def is_len_of(e: ast.AST, pred: Callable[[ast.AST], bool]) -> bool:
    return (
        isinstance(e, ast.Call)
        and is_name(e.func, "len")
        and len(e.args) == 1
        and not e.keywords
        and pred(e.args[0])
    )


def split_dot(e: ast.AST, base: Callable[[ast.AST], bool]) -> bool:
    """`<base>.split('.')`"""
    return (
        method_call(e, "split")
        and len(e.args) == 1
        and isinstance(e.args[0], ast.Constant)
        and e.args[0].value == "."
        and base(e.func.value)
    )


# --------------------------------------------------------------------------- iteration


COPIERS_ORDERED = {"list", "tuple", "iter", "deque"}
COPIERS_UNORDERED = COPIERS_ORDERED | {"set", "frozenset", "sorted", "reversed"}


def iter_base(f: Func, it: ast.AST, ordered: bool = True, depth: int = 4) -> list[ast.AST]:
    """Container expression(s) that `it` enumerates *completely* (and, if `ordered`, in the
    container's own order).  Returns [] when `it` may skip / reorder elements
    (slices other than [:], reversed, filters, next(iter(..)), ...)."""
    out: list[ast.AST] = []
    for o in orig(f, it):
        o = strip_cast(o)
        if depth > 0 and isinstance(o, ast.Call) and not o.keywords and len(o.args) == 1:
            name = dotted(o.func) or ""
            if name.split(".")[-1] in (COPIERS_ORDERED if ordered else COPIERS_UNORDERED):
                r = iter_base(f, o.args[0], ordered, depth - 1)
                if not r:
                    return []
                out += r
                continue
        if depth > 0 and method_call(o, "copy") and not o.args:
            r = iter_base(f, o.func.value, ordered, depth - 1)
            if not r:
                return []
            out += r
            continue
        if isinstance(o, ast.Subscript) and isinstance(o.slice, ast.Slice):
            s = o.slice
            if s.lower is None and s.upper is None and s.step is None and depth > 0:
                r = iter_base(f, o.value, ordered, depth - 1)
                if not r:
                    return []
                out += r
                continue
            return []
        if isinstance(o, (ast.ListComp, ast.GeneratorExp, ast.SetComp)) and depth > 0:
            # identity comprehension `[x for x in base]`
            if (
                len(o.generators) == 1
                and not o.generators[0].ifs
                and isinstance(o.generators[0].target, ast.Name)
                and is_name(o.elt, o.generators[0].target.id)
                and (not ordered or not isinstance(o, ast.SetComp))
            ):
                r = iter_base(f, o.generators[0].iter, ordered, depth - 1)
                if not r:
                    return []
                out += r
                continue
            return []
        out.append(o)
    return out


def whole(f: Func, it: ast.AST, pred: Callable[[ast.AST], bool], ordered: bool = True) -> bool:
    """`it` enumerates all elements of a container satisfying `pred`."""
    b = iter_base(f, it, ordered)
    return bool(b) and all(pred(x) for x in b)


def map_view(e: ast.AST, view: str, pred: Callable[[ast.AST], bool]) -> bool:
    """`<pred>.values()` / `.items()` / `.keys()`"""
    return method_call(e, view) and not e.args and not e.keywords and pred(e.func.value)


def loop_value_names(f: Func, target: ast.AST, it: ast.AST, mapping: Callable[[ast.AST], bool]) -> tuple[set[str], set[str]] | None:
    """For `for <target> in <it>` over *all* entries of a mapping satisfying `mapping`:
    (names bound to the values, names bound to the keys); None when the loop does not
    enumerate the whole mapping."""
    bases = iter_base(f, it, ordered=False)
    if not bases:
        return None
    base_pred = mapping

    def mapping(e):  # the mapping may sit in a local
        return any_origin(f, e, base_pred)

    vals: set[str] = set()
    keys: set[str] = set()
    for b in bases:
        if map_view(b, "values", mapping) and isinstance(target, ast.Name):
            vals.add(target.id)
        elif (
            map_view(b, "items", mapping)
            and isinstance(target, ast.Tuple)
            and len(target.elts) == 2
            and all(isinstance(x, ast.Name) for x in target.elts)
        ):
            keys.add(target.elts[0].id)
            vals.add(target.elts[1].id)
        elif (map_view(b, "keys", mapping) or mapping(b)) and isinstance(target, ast.Name):
            keys.add(target.id)
        else:
            return None
    return vals, keys


# --------------------------------------------------------------------------- Status folding (P10)


def status_members(prog: Program) -> list[str]:
    c = prog.cls(STATUS)
    out = []
    for n in c.node.body:
        if isinstance(n, ast.Assign) and len(n.targets) == 1 and isinstance(n.targets[0], ast.Name):
            out.append(n.targets[0].id)
    if len(out) < 6:
        raise AnalysisError("Status enum members could not be read from streamflow.core.workflow.Status")
    return out


def status_const(prog: Program, f: Func, e: ast.AST) -> str | None:
    """Member name when `e` is `Status.<MEMBER>` (resolved through the import map)."""
    d = dotted(e)
    if d is None or "." not in d:
        return None
    q = prog.resolve_dotted(f.module, d)
    if q and q.startswith(STATUS + "."):
        m = q[len(STATUS) + 1 :]
        if "." not in m:
            return m
    return None


def fold_status_guard(prog: Program, f: Func, test: ast.AST) -> tuple[str, set[str]] | None:
    """Tabulate a guard whose atoms compare ONE subject expression with `Status` constants
    (`==`, `!=`, `in`, `not in`, `is`, `is not`, `and`, `or`, `not`).  Returns
    (subject text, set of members for which the guard is true) or None when the guard has
    any other atom."""
    subjects: set[str] = set()

    def ev(e: ast.AST, member: str):
        if isinstance(e, ast.BoolOp):
            vs = [ev(v, member) for v in e.values]
            if any(v is None for v in vs):
                return None
            return all(vs) if isinstance(e.op, ast.And) else any(vs)
        if isinstance(e, ast.UnaryOp) and isinstance(e.op, ast.Not):
            v = ev(e.operand, member)
            return None if v is None else not v
        if isinstance(e, ast.Compare) and len(e.ops) == 1:
            left, op, right = e.left, e.ops[0], e.comparators[0]
            lc, rc = status_const(prog, f, left), status_const(prog, f, right)
            if isinstance(op, (ast.Eq, ast.NotEq, ast.Is, ast.IsNot)):
                if lc is not None and rc is None:
                    left, right, lc, rc = right, left, rc, lc
                if rc is None or lc is not None:
                    return None
                subjects.add(unparse(left))
                r = member == rc
                return r if isinstance(op, (ast.Eq, ast.Is)) else not r
            if isinstance(op, (ast.In, ast.NotIn)):
                if not isinstance(right, (ast.Tuple, ast.List, ast.Set)):
                    return None
                ms = [status_const(prog, f, x) for x in right.elts]
                if any(m is None for m in ms) or lc is not None:
                    return None
                subjects.add(unparse(left))
                r = member in ms
                return r if isinstance(op, ast.In) else not r
        return None

    members = status_members(prog)
    truth = set()
    for m in members:
        v = ev(test, m)
        if v is None:
            return None
        if v:
            truth.add(m)
    if len(subjects) != 1:
        return None
    return subjects.pop(), truth


# --------------------------------------------------------------------------- termination tests


def class_test(prog: Program, f: Func, c: ast.AST, cls_qn: str) -> ast.AST | None:
    """Subject of `isinstance(<subject>, <cls_qn>)` (also inside a tuple of classes)."""
    if not (isinstance(c, ast.Call) and is_name(c.func, "isinstance") and len(c.args) == 2):
        return None
    k = c.args[1]
    ks = k.elts if isinstance(k, ast.Tuple) else [k]
    for x in ks:
        d = dotted(x)
        if d and prog.resolve_dotted(f.module, d) == cls_qn:
            return c.args[0]
    return None


def class_test_extras(prog: Program, f: Func, c: ast.AST, cls_qn: str) -> list[str]:
    """For `isinstance(x, K)` / `isinstance(x, (K1, K2, ..))`: the classes named in the second
    argument that are not provably `cls_qn` or one of its subclasses (source text; unresolvable
    names count as extras).  `class_test` accepts a tuple that merely *contains* `cls_qn`; a rule
    that needs the test to mean "is a `cls_qn`" and nothing wider must also get [] from here.
    [] for anything that is not an isinstance call."""
    if not (isinstance(c, ast.Call) and is_name(c.func, "isinstance") and len(c.args) == 2):
        return []
    k = c.args[1]
    ks = k.elts if isinstance(k, (ast.Tuple, ast.List)) else [k]
    out = []
    for x in ks:
        d = dotted(x)
        q = prog.resolve_dotted(f.module, d) if d else None
        if q is None or q not in prog.classes or not prog.is_subclass(q, cls_qn):
            out.append(unparse(x))
    return out


def termination_subject(prog: Program, f: Func, c: ast.AST) -> ast.AST | None:
    """Subject of a termination-token test: `check_termination(x)` or
    `isinstance(x, TerminationToken)`."""
    if not isinstance(c, ast.Call):
        return None
    s = class_test(prog, f, c, TERMINATION_TOKEN)
    if s is not None:
        return s
    if isinstance(c.func, (ast.Name, ast.Attribute)) and c.args:
        if CHECK_TERMINATION in prog.resolve_call(f, c, fanout=False):
            return c.args[0]
    return None


def has_termination_test(prog: Program, f: Func, e: ast.AST) -> bool:
    for o in orig(f, e):
        for c in calls_in(o):
            if termination_subject(prog, f, c) is not None:
                return True
    return False


def truth_if(e: ast.AST, atom: Callable[[ast.AST], bool], value: bool = True):
    """Three-valued truth of `e` when every sub-expression satisfying `atom` is `value`
    and everything else is unknown."""
    if atom(e):
        return value
    if isinstance(e, ast.UnaryOp) and isinstance(e.op, ast.Not):
        v = truth_if(e.operand, atom, value)
        return None if v is None else not v
    if isinstance(e, ast.BoolOp):
        vs = [truth_if(v, atom, value) for v in e.values]
        if isinstance(e.op, ast.Or):
            if any(v is True for v in vs):
                return True
            return False if all(v is False for v in vs) else None
        if any(v is False for v in vs):
            return False
        return True if all(v is True for v in vs) else None
    if isinstance(e, ast.Constant):
        return bool(e.value)
    return None


# --------------------------------------------------------------------------- CFG helpers


def node_calls(g, n) -> list[ast.Call]:
    """`n.calls()` memoised on the CFG object (the engine re-walks the AST on every call)."""
    cache = g.__dict__.setdefault("_utilB_calls", {})
    r = cache.get(n.id)
    if r is None:
        r = cache[n.id] = n.calls()
    return r



def branch_succ(g, test_id: int, kind: str) -> list[int]:
    return [b for b, k in g.succ[test_id] if k == kind]


def loop_body_nodes(g, head: int) -> set[int]:
    """Nodes of the loop whose head (test/iter node) is `head`: reachable from the
    true-edge and able to come back to the head."""
    inside = g.reach(branch_succ(g, head, "t"), avoid=[head], include_src=True)
    back = {a for a in inside if head in g.reach([a])}
    return back


def exclusive_region(g, test_id: int, kind: str, stop: Iterable[int] = ()) -> set[int]:
    """Nodes reachable from the `kind` branch of a test but not from the other branch
    (both without crossing `stop` or the test itself)."""
    other = "f" if kind == "t" else "t"
    avoid = set(stop) | {test_id}
    a = g.reach(branch_succ(g, test_id, kind), avoid=avoid, include_src=True) - avoid
    b = g.reach(branch_succ(g, test_id, other), avoid=avoid, include_src=True) - avoid
    return a - b


def loop_unconditional(g, head: int, targets: list[int]) -> tuple[bool, str]:
    """Each iteration of the loop headed by `head` passes exactly one target node and the body
    cannot leave the loop other than through the head."""
    if not targets:
        return False, "the loop body does not contain it"
    ts = branch_succ(g, head, "t")
    for s in ts:
        if s not in targets and g.path(s, [head], avoid=targets) is not None:
            return False, "an iteration can skip it"
        if g.path(s, [g.exit], avoid=[head]) is not None and s != g.exit:
            return False, "the loop can be left before all elements are visited"
    for a in targets:
        if set(targets) & g.reach([a], avoid=[head]):
            return False, "it can execute twice in one iteration"
    return True, ""


# --------------------------------------------------------------------------- bounded path exploration


@dataclass
class PathResult:
    events: list[tuple[int, tuple]]  # (node id, iteration tag)
    val: dict  # (iteration tag, atom) -> bool
    env: dict  # local flag -> bool
    end: str  # 'exit' | 'raise' | 'cut'

    def nodes(self) -> list[int]:
        return [n for n, _ in self.events]


class Unfoldable(Exception):
    """A guard mixes atoms with something the evaluator cannot fold."""


def explore(
    g,
    classify: Callable[[ast.AST], str | None],
    *,
    max_iter: int = 2,
    max_paths: int = 4000,
    strict_names: Iterable[str] = (),
) -> list[PathResult]:
    """Enumerate the normal-edge paths entry -> exit/raise of `g`.

    `classify(expr)` names the boolean *atoms* (e.g. 'A' for `isinstance(token, TerminationToken)`,
    '!A' for an expression that is the negation of atom A);
    each atom gets an independent truth value per innermost-loop iteration and the path forks on
    it the first time it is evaluated.  `if`/`while` guards are evaluated three-valued over atoms,
    constants and tracked local flags (`flag = True`, `flag = flag or <atom>`); a guard that stays
    unknown forks without recording anything.  A guard that reads a name of `strict_names`
    while that name is unknown raises Unfoldable (the rule cannot interpret the shape).
    `for` loops run 0..max_iter times."""
    strict = set(strict_names)
    results: list[PathResult] = []

    def atoms_of(e: ast.AST) -> list[tuple[str, ast.AST]]:
        out = []
        stack = [e]
        while stack:
            x = stack.pop()
            a = classify(x)
            if a is not None:
                out.append((a.lstrip("!"), x))
                continue
            if isinstance(x, (ast.Lambda, ast.FunctionDef, ast.AsyncFunctionDef)):
                continue
            stack.extend(ast.iter_child_nodes(x))
        return out

    def ev(e: ast.AST, tag: tuple, val: dict, env: dict):
        a = classify(e)
        if a is not None:
            v = val.get((tag, a.lstrip("!")))
            return (not v) if (a.startswith("!") and v is not None) else v
        if isinstance(e, ast.Constant):
            return bool(e.value)
        if isinstance(e, ast.Name):
            if e.id in env:
                return env[e.id]
            if e.id in strict:
                raise Unfoldable(f"flag `{e.id}` has no foldable value")
            return None
        if isinstance(e, ast.UnaryOp) and isinstance(e.op, ast.Not):
            v = ev(e.operand, tag, val, env)
            return None if v is None else not v
        if isinstance(e, ast.BoolOp):
            vs = [ev(v, tag, val, env) for v in e.values]
            if isinstance(e.op, ast.Or):
                if any(v is True for v in vs):
                    return True
                return False if all(v is False for v in vs) else None
            if any(v is False for v in vs):
                return False
            return True if all(v is True for v in vs) else None
        if isinstance(e, ast.NamedExpr):
            return ev(e.value, tag, val, env)
        return None

    def fork_vals(e: ast.AST, tag: tuple, val: dict) -> list[dict]:
        """All extensions of `val` that give a value to the atoms of `e` (in this iteration)."""
        names = []
        for a, _ in atoms_of(e):
            if (tag, a) not in val and a not in names:
                names.append(a)
        outs = [val]
        for a in names:
            outs = [{**v, (tag, a): b} for v in outs for b in (True, False)]
        return outs

    # iterative DFS; state = (node, tag, val, env, events, visits)
    stack = [(g.entry, (), {}, {}, [], {})]
    while stack:
        nid, tag, val, env, events, visits = stack.pop()
        if len(results) > max_paths:
            raise Unfoldable("too many paths")
        n = g.nodes[nid]
        events = events + [(nid, tag)]
        if nid == g.exit:
            results.append(PathResult(events, val, env, "exit"))
            continue
        if nid == g.raise_ or n.kind == "raise_stmt":
            results.append(PathResult(events, val, env, "raise"))
            continue
        cnt = visits.get(nid, 0) + 1
        if cnt > max_iter + 1:
            results.append(PathResult(events, val, env, "cut"))
            continue
        visits = dict(visits)
        visits[nid] = cnt
        if n.kind == "iter":
            # run the body (bounded) or leave the loop
            outer = tag
            if tag and tag[-1][0] == nid:
                outer = tag[:-1]
                done = tag[-1][1]
            else:
                done = 0
            for b in branch_succ(g, nid, "f"):
                stack.append((b, outer, val, env, events, visits))
            if done < max_iter:
                for b in branch_succ(g, nid, "t"):
                    stack.append((b, outer + ((nid, done + 1),), val, env, events, visits))
            continue
        if n.kind == "test":
            for v2 in fork_vals(n.ast, tag, val):
                r = ev(n.ast, tag, v2, env)
                kinds = ("t", "f") if r is None else (("t",) if r else ("f",))
                for k in kinds:
                    for b in branch_succ(g, nid, k):
                        stack.append((b, tag, v2, env, events, visits))
            continue
        # plain nodes: track boolean flags
        states = [(val, env)]
        a = n.ast
        if n.kind == "stmt" and isinstance(a, (ast.Assign, ast.AnnAssign)) and getattr(a, "value", None) is not None:
            tgts = a.targets if isinstance(a, ast.Assign) else [a.target]
            if len(tgts) == 1 and isinstance(tgts[0], ast.Name):
                name = tgts[0].id
                states = []
                for v2 in fork_vals(a.value, tag, val):
                    r = ev(a.value, tag, v2, env)
                    e2 = dict(env)
                    if r is None or not _boolish(a.value, classify):
                        e2.pop(name, None)
                    else:
                        e2[name] = r
                    states.append((v2, e2))
            else:
                e2 = dict(env)
                for t in tgts:
                    for x in ast.walk(t):
                        if isinstance(x, ast.Name):
                            e2.pop(x.id, None)
                states = [(val, e2)]
        elif n.kind == "stmt" and isinstance(a, ast.AugAssign) and isinstance(a.target, ast.Name):
            e2 = dict(env)
            e2.pop(a.target.id, None)
            states = [(val, e2)]
        nxt = [b for b, k in g.succ[nid] if k == "n"]
        for v2, e2 in states:
            for b in nxt:
                stack.append((b, tag, v2, e2, events, visits))
    return results


def _boolish(e: ast.AST, classify) -> bool:
    """The expression is a boolean formula (constants, flags, atoms, not/and/or)."""
    if classify(e) is not None:
        return True
    if isinstance(e, ast.Constant):
        return isinstance(e.value, bool)
    if isinstance(e, ast.Name):
        return True
    if isinstance(e, ast.UnaryOp) and isinstance(e.op, ast.Not):
        return _boolish(e.operand, classify)
    if isinstance(e, ast.BoolOp):
        return all(_boolish(v, classify) for v in e.values)
    return False


def iteration_tags(p: PathResult) -> list[tuple]:
    """Distinct non-empty iteration tags of a path, in order of first occurrence."""
    seen = []
    for _, t in p.events:
        if t and t not in seen:
            seen.append(t)
    return seen
