"""C26 Deployments follow a safe lifecycle under concurrent requests.

R1 atomic claim: no suspension point between the "not yet claimed" test and the claim
   (DefaultDeploymentManager._deploy: config_map/events_map; FutureConnector: `deploying`)
   and all delegating methods of FutureConnector use the same claim idiom.
R2 event set on every exit: once the claim published an unset asyncio.Event, every path out of
   the claiming branch -- normal, break, and the failure edge of every await / connector
   construction -- passes `<event>.set()`.
R3 waiters fail: after waiting, a missing connector raises.
R4 undeploy guard: connector.undeploy is dominated by the emptiness test of the dependency set;
   map entries are deleted before the await; undeploy_all iterates a snapshot.
"""

from __future__ import annotations

import ast

from ..cfg import ALL, NORMAL
from ..model import unparse, walk_no_nested
from ..selftest import V

MGR = "streamflow.deployment.manager.DefaultDeploymentManager"
FUT = "streamflow.deployment.future.FutureConnector"
MFILE = "streamflow/deployment/manager.py"
FFILE = "streamflow/deployment/future.py"

META = {
    "explanation": (
        "CFG rules on DefaultDeploymentManager._deploy/undeploy/undeploy_all and FutureConnector: suspension-freedom "
        "between test and claim (atomicity under asyncio), must-pass-through of Event.set() on all exits including "
        "failure edges of awaits and connector constructions, waiter failure propagation, undeploy dominance. "
        "Decides necessary structural conditions; the interleaving behaviour itself is not executed."
    ),
    "undecided": "full lifecycle equivalence under arbitrary interleavings; behaviour of concrete connectors",
    "assumptions": ["asyncio.Event semantics", "failure = subclass of Exception (cancellation routes are reported separately)"],
}


def _is_set_call(n, recv_contains: str) -> bool:
    for c in n.calls():
        if isinstance(c.func, ast.Attribute) and c.func.attr == "set" and recv_contains in unparse(c.func.value):
            return True
    return False


def _failure_source(prog, f):
    """CFG nodes whose failure edge is considered: awaits and calls of connector constructors /
    variables holding classes (not logging, not container methods)."""

    def pred(n) -> bool:
        if n.has_await():
            return True
        if n.kind == "raise_stmt":
            return True
        for c in n.calls():
            fn = c.func
            if isinstance(fn, ast.Name) and fn.id in ("connector_type", "FutureConnector"):
                return True
            if isinstance(fn, ast.Attribute) and unparse(fn) == "self.type":
                return True
        return False

    return pred


def _absent_edge(test, container="self.config_map"):
    """Edge kind ('t'/'f') of a membership test on `container` that is taken when the name is NOT registered."""
    neg = False
    while isinstance(test, ast.UnaryOp) and isinstance(test.op, ast.Not):
        test, neg = test.operand, not neg
    if isinstance(test, ast.Compare) and len(test.ops) == 1 and unparse(test.comparators[0]) == container:
        if isinstance(test.ops[0], ast.NotIn):
            return "f" if neg else "t"
        if isinstance(test.ops[0], ast.In):
            return "t" if neg else "f"
    return None


def _none_edge(test, expr="self._connector"):
    """Edge kind ('t'/'f') of a test of `expr` against None (or its truthiness) that is taken when it IS None."""
    neg = False
    while isinstance(test, ast.UnaryOp) and isinstance(test.op, ast.Not):
        test, neg = test.operand, not neg
    if unparse(test) == expr:
        return "t" if neg else "f"
    if isinstance(test, ast.Compare) and len(test.ops) == 1 and unparse(test.left) == expr and unparse(test.comparators[0]) == "None":
        if isinstance(test.ops[0], (ast.Is, ast.Eq)):
            return "f" if neg else "t"
        if isinstance(test.ops[0], (ast.IsNot, ast.NotEq)):
            return "t" if neg else "f"
    return None


def r1(ctx):
    p = ctx.prog
    # --- manager: test `deployment_name not in self.config_map` -> claim
    f = p.func(f"{MGR}._deploy")
    g = f.cfg
    members = {n.id: _absent_edge(n.ast) for n in g.nodes.values() if n.kind == "test" and _absent_edge(n.ast)}
    claims = [
        n
        for n in g.nodes.values()
        if n.kind == "stmt"
        and isinstance(n.ast, ast.Assign)
        and any(unparse(t).startswith(("self.config_map[", "self.events_map[")) for t in n.ast.targets)
    ]
    ctx.require(len(claims) >= 2, "C26.R1: claim statements (config_map/events_map insertion) not found")
    susp = g.suspension_nodes()
    # the claim test of a claim: the membership test(s) from which the claim is reached without crossing another one
    tests = [g.nodes[t] for t in members if any(g.path(t, [c.id], avoid=[m for m in members if m != t]) for c in claims)]
    ctx.ob("R1", "the claim of a deployment name is preceded by a membership test on config_map", bool(tests), func=f, node=claims[0].ast,
           instance="_deploy:claim-test", message="config_map/events_map are claimed without testing whether the name is already registered")
    for t in tests:
        absent = [b for b, k in g.succ[t.id] if k == members[t.id]]
        present = [b for b, k in g.succ[t.id] if k in ("t", "f") and k != members[t.id]]
        for c in claims:
            # a path test -> claim passing through a suspension node?
            bad = None
            for s in susp:
                if s in (t.id, c.id):
                    continue
                if s in g.reach([t.id]) and c.id in g.reach([s]) and g.path(t.id, [c.id], avoid=[s]) is None or (
                    s in g.reach([t.id], avoid=[c.id]) and c.id in g.reach([s], avoid=[t.id])
                ):
                    bad = s
                    break
            ctx.ob(
                "R1",
                f"no await between `{t.text(60)}` and `{c.text(60)}`",
                bad is None,
                func=f,
                node=c.ast,
                instance=f"_deploy:atomic:{unparse(c.ast.targets[0])}",
                message=f"suspension point `{g.nodes[bad].text()}` between the claim test and the claim" if bad is not None else "",
                witness=g.describe(g.path(t.id, [c.id]) or []),
            )
            # the claim must be dominated by the test and lie on its `name not registered` branch only
            on_present = any(b == c.id or c.id in g.reach([b], avoid=[t.id]) for b in present)
            on_absent = any(b == c.id or c.id in g.reach([b], avoid=[t.id]) for b in absent)
            ctx.ob(
                "R1",
                f"claim `{c.text(50)}` is guarded by the claim test",
                g.dominates(t.id, c.id) and on_absent and not on_present,
                func=f,
                node=c.ast,
                instance=f"_deploy:guard:{unparse(c.ast.targets[0])}",
                message="the claim is not confined to the branch where the name is not registered yet" if g.dominates(t.id, c.id) else "",
            )
    # --- FutureConnector delegating methods: identical claim idiom (in the method itself or in a guard helper it awaits first)
    cls = p.cls(FUT)

    def claim_idiom(m, R="self"):
        """(ok, msg): on the `_connector is None` branch: not deploying -> flag set before the first await -> deploy(); else wait.
        R is the name that stands for the connector object (`self`, or the parameter of a module-level helper)."""
        g = m.cfg
        flag_tests = [n for n in g.nodes.values() if n.kind == "test" and f"{R}.deploying" in n.text()]
        sets = [n for n in g.nodes.values() if n.kind == "stmt" and isinstance(n.ast, ast.Assign)
                and unparse(n.ast.targets[0]) == f"{R}.deploying" and unparse(n.ast.value) == "True"]
        deploys = [n for n in g.nodes.values() if any(
            isinstance(c.func, ast.Attribute) and unparse(c.func) == f"{R}.deploy" for c in n.calls())]
        waits = [n for n in g.nodes.values() if any(
            isinstance(c.func, ast.Attribute) and unparse(c.func) == f"{R}._safe_deploy_event_wait" for c in n.calls())]
        if not (flag_tests and sets and deploys and waits):
            return False, "claim idiom incomplete"
        ft, st, dp = flag_tests[0], sets[0], deploys[0]
        susp = g.suspension_nodes() - {dp.id}
        # no suspension between flag test and flag set; set dominates deploy
        between = g.reach([ft.id], avoid=[st.id]) & susp
        reaches_set = {s for s in between if st.id in g.reach([s])}
        if reaches_set:
            return False, f"suspension `{g.nodes[min(reaches_set)].text()}` between the `deploying` test and its assignment"
        if not g.dominates(st.id, dp.id):
            return False, "`self.deploying = True` does not precede `self.deploy()` on every path"
        if any(w.id in g.reach([st.id]) for w in waits) and not all(g.dominates(ft.id, w.id) for w in waits):
            return False, "waiter branch not guarded by the `deploying` test"
        if not all(g.path(ft.id, [w.id], avoid=[st.id]) for w in waits):
            return False, "no waiting branch for concurrent callers"
        return True, ""

    def none_tests(m, R="self"):
        return [n for n in m.cfg.nodes.values() if n.kind == "test" and _none_edge(n.ast, f"{R}._connector")]

    def uses_inner(m):
        return any(isinstance(n, ast.Attribute) and unparse(n).startswith("self._connector.") for n in m.body_nodes())

    # guard helpers: methods (receiver `self`) or module-level coroutines of the same module taking the connector as their
    # single parameter, that carry the deployed-test and the claim idiom but do not delegate themselves
    helpers = {}
    cands = [(m, "self") for m in cls.methods.values()]
    for fn in p.all_funcs():
        if fn.cls is None and fn.file == cls.file and fn.is_async and len([a for a in fn.params]) == 1 and "<locals>" not in fn.qualname:
            cands.append((fn, fn.params[0]))
    for m, R in cands:
        if m.is_async and m.name not in ("deploy", "undeploy", "_safe_deploy_event_wait") and not uses_inner(m) and none_tests(m, R):
            hg = m.cfg
            nt = none_tests(m, R)
            ok, msg = claim_idiom(m, R)
            # the idiom must lie on the `is None` branch and the helper must end with the connector deployed or an exception:
            # every normal exit passes the test's false edge or a deploy()/wait call
            work = [n.id for n in hg.nodes.values() if any(isinstance(c.func, ast.Attribute) and unparse(c.func) in (f"{R}.deploy", f"{R}._safe_deploy_event_wait") for c in n.calls())]
            falses = [b for t in nt for b, k in hg.succ[t.id] if k in ("t", "f") and k != _none_edge(t.ast, f"{R}._connector")]
            if ok and hg.path(hg.entry, [hg.exit], avoid=work + falses) is not None:
                ok, msg = False, "a path leaves the helper without deploying or waiting although the connector is missing"
            helpers[m.name] = (ok, msg)
            ctx.ob("R1", f"{m.name} (guard helper): test-and-set of `deploying` is atomic and exclusive", ok, func=m, node=m.node,
                   instance=f"{m.name}:claim", message=f"{m.name}: {msg}")
    idiom_methods = []
    for m in cls.methods.values():
        if not m.is_async or m.name in ("deploy", "undeploy", "_safe_deploy_event_wait") or not uses_inner(m):
            continue
        idiom_methods.append(m)
        g = m.cfg
        use_nodes = [n for n in g.nodes.values() if any(
            isinstance(x, ast.Attribute) and isinstance(x.value, ast.Attribute) and unparse(x.value) == "self._connector"
            for x in n.walk())]
        # (a) every use of self._connector.<x> is dominated by the None-test (own, or an awaited guard helper)
        tests = none_tests(m)
        def _helper_name(c):
            if isinstance(c.func, ast.Attribute) and isinstance(c.func.value, ast.Name) and c.func.value.id == "self" and c.func.attr in helpers:
                return c.func.attr
            if isinstance(c.func, ast.Name) and c.func.id in helpers and len(c.args) == 1 and unparse(c.args[0]) == "self":
                return c.func.id
            return None

        helper = [n for n in g.nodes.values() if n.has_await() and any(_helper_name(c) for c in n.calls())]
        guard_ids = [n.id for n in tests + helper]
        ok_dom = bool(guard_ids) and all(g.dominates(guard_ids, u.id) for u in use_nodes)
        ctx.ob("R1", f"{m.name}: uses of the inner connector are preceded by the deployed-test", ok_dom,
               func=m, node=m.node, instance=f"{m.name}:none-test")
        if helper and not tests:
            hn = [_helper_name(c) for n in helper for c in n.calls() if _helper_name(c)][0]
            ok, msg = helpers[hn]
            ctx.ob("R1", f"{m.name}: test-and-set of `deploying` is atomic and exclusive (through {hn})", ok, func=m, node=m.node,
                   instance=f"{m.name}:claim", message=f"{m.name}: {msg}")
            continue
        ok, msg = claim_idiom(m)
        ctx.ob("R1", f"{m.name}: test-and-set of `deploying` is atomic and exclusive", ok, func=m, node=m.node,
               instance=f"{m.name}:claim", message=f"{m.name}: {msg}")
    ctx.require(len(idiom_methods) >= 8, f"C26.R1: only {len(idiom_methods)} delegating FutureConnector methods found (floor 8)")


def r2(ctx):
    p = ctx.prog
    # manager._deploy
    f = p.func(f"{MGR}._deploy")
    g = f.cfg
    creates = [n for n in g.nodes.values() if n.kind == "stmt" and isinstance(n.ast, ast.Assign)
               and unparse(n.ast.targets[0]).startswith("self.events_map[") and "Event(" in unparse(n.ast.value)]
    ctx.require(len(creates) == 1, "C26.R2: creation of the deployment event not found in _deploy")
    sets = [n.id for n in g.nodes.values() if _is_set_call(n, "self.events_map[")]
    ctx.require(bool(sets), "C26.R2: no events_map[...].set() in _deploy")
    src = creates[0].id
    pred = _failure_source(p, f)
    # successors of the creation node (the creation itself is not a failure source)
    # the waiting branch (test false) is not an exit of the claiming branch
    absent = {n.id: _absent_edge(n.ast) for n in g.nodes.values() if n.kind == "test" and _absent_edge(n.ast)}
    # the claim test: the membership test that guards the creation of the event
    tests = [t for t in absent if g.dominates(t, src) and g.path(t, [src], avoid=[m for m in absent if m != t])]
    w = g.escape(src, sets + tests, kinds=ALL, exc_from=pred, targets=[g.exit, g.raise_])
    ctx.ob("R2", "_deploy: every exit of the claiming branch (incl. failure edges) sets the deployment event",
           w is None, func=f, node=(g.nodes[w[-2]].ast if w and len(w) > 1 else creates[0].ast),
           instance="_deploy:event-set:" + (g.nodes[_first_raiser(g, w)].text(80) if w else ""),
           message="a failure here leaves the deployment event unset: concurrent requests for this deployment wait forever",
           witness=g.describe(w) if w else [])
    # every failing await individually (so each site gets its own finding)
    for n in g.nodes.values():
        if n.id == src or not pred(n) or n.kind == "raise_stmt":
            continue
        if n.id not in g.reach([src]):
            continue
        # exception leaves n: does it reach RAISE without a set()?
        exc_succ = [b for b, k in g.succ[n.id] if k == "exc"]
        bad = None
        for b in exc_succ:
            if b == g.raise_:
                bad = [n.id, b]
                break
            if b in sets:
                continue
            pth = g.path(b, [g.raise_, g.exit], avoid=sets, kinds=ALL, exc_from=pred)
            if pth is not None:
                bad = [n.id] + pth
                break
        # the waiting branch's own awaits are not in the claiming branch
        if tests and not all(g.path(t, [n.id], kinds={"t", "n"}) for t in tests):
            pass
        in_claim = any(n.id in g.reach([src]) for _ in [0])
        if not in_claim:
            continue
        if _in_wait_branch(g, n, tests, absent):
            continue
        ctx.ob("R2", f"_deploy: failure of `{n.text(70)}` sets the event", bad is None, func=f, node=n.ast,
               instance=f"_deploy:fail:{n.text(90)}",
               message=f"if `{n.text(70)}` fails, events_map[...] is never set: waiters hang",
               witness=g.describe(bad) if bad else [])
    # FutureConnector.deploy: deploy_event.set() on every exit incl. failures
    f = p.func(f"{FUT}.deploy")
    g = f.cfg
    sets = [n.id for n in g.nodes.values() if _is_set_call(n, "self.deploy_event")]
    ctx.require(bool(sets), "C26.R2: FutureConnector.deploy never sets deploy_event")
    pred = _failure_source(p, f)
    w = g.escape(g.entry, sets, kinds=ALL, exc_from=pred, targets=[g.exit, g.raise_])
    ctx.ob("R2", "FutureConnector.deploy: deploy_event is set on every exit (incl. failure edges)", w is None,
           func=f, node=(g.nodes[_first_raiser(g, w)].ast if w else f.node),
           instance="future.deploy:event-set:" + (g.nodes[_first_raiser(g, w)].text(80) if w else ""),
           message="a failure here leaves deploy_event unset while `deploying` is True: concurrent callers wait forever",
           witness=g.describe(w) if w else [])
    # success path publishes the connector before setting the event
    assigns = [n.id for n in g.nodes.values() if n.kind == "stmt" and isinstance(n.ast, ast.Assign)
               and unparse(n.ast.targets[0]) == "self._connector" and unparse(n.ast.value) != "None"]
    last_sets = [s for s in sets if g.exit in g.reach([s], kinds=NORMAL)]
    ok = bool(assigns) and all(g.dominates(assigns, s) for s in last_sets if g.path(s, [g.exit], kinds=NORMAL) and not _leads_to_raise_only(g, s))
    ctx.ob("R2", "FutureConnector.deploy: `_connector` is published before the event is set on success", ok,
           func=f, node=f.node, instance="future.deploy:publish-order")
    # ... and only once the inner connector is deployed: the delegating methods treat `_connector is not None` as "deployed"
    inner = [n.id for n in g.nodes.values() if n.has_await() and any(isinstance(c.func, ast.Attribute) and c.func.attr == "deploy" for c in n.calls())]
    ctx.ob("R2", "FutureConnector.deploy awaits the inner connector's deploy()", bool(inner), func=f, node=f.node, instance="future.deploy:inner-deploy")
    for a in assigns:
        ctx.ob("R2", "FutureConnector.deploy: `_connector` is published only after the inner deploy() completed",
               bool(inner) and g.dominates(inner, a), func=f, node=g.nodes[a].ast, instance="future.deploy:publish-after-deploy",
               message="`self._connector` is set before the inner connector's deploy() has completed: concurrent requests see "
                       "`_connector is not None`, skip the deploy_event wait and are served by a connector that is not deployed "
                       "(and succeed even if the deployment then fails)",
               witness=g.describe(g.path(g.entry, [a], avoid=inner) or []))


def _leads_to_raise_only(g, s) -> bool:
    return g.exit not in g.reach([s], kinds=NORMAL)


def _first_raiser(g, w):
    for a, b in zip(w, w[1:]):
        if any(k == "exc" and x == b for x, k in g.succ[a]) and g.nodes[a].kind not in ("dispatch", "finally", "handler"):
            return a
    return w[-2] if len(w) > 1 else w[0]


def _in_wait_branch(g, n, tests, absent=None) -> bool:
    """n is only reachable through the `already registered` edge of the claim test."""
    for t in tests:
        ak = (absent or {}).get(t, "t")
        false_succ = [b for b, k in g.succ[t] if k in ("t", "f") and k != ak]
        true_succ = [b for b, k in g.succ[t] if k == ak]
        in_false = any(n.id == b or n.id in g.reach([b], avoid=[t]) for b in false_succ)
        in_true = any(n.id == b or n.id in g.reach([b], avoid=[t]) for b in true_succ)
        if in_false and not in_true:
            return True
    return False


def r3(ctx):
    p = ctx.prog
    f = p.func(f"{MGR}._deploy")
    g = f.cfg
    waits = [n for n in g.nodes.values() if any(
        isinstance(c.func, ast.Attribute) and c.func.attr == "wait" and "events_map" in unparse(c.func.value) for c in n.calls())]
    ctx.require(bool(waits), "C26.R3: waiting branch not found in _deploy")
    for wn in waits:
        # after the wait: every path to exit passes a test of deployments_map membership whose true/false branch raises
        chk = [n for n in g.nodes.values() if n.kind == "test" and _absent_edge(n.ast, "self.deployments_map")]
        ok = bool(chk) and all(g.escape(wn.id, [c.id for c in chk], kinds=NORMAL) is None for _ in [0])
        raises = False
        for c in chk:
            tsucc = g.real_succ(c.id, _absent_edge(c.ast, "self.deployments_map"))
            raises = raises or any(g.nodes[b].kind == "raise_stmt" or (g.exit not in g.reach([b], include_src=True)) for b in tsucc)
        ctx.ob("R3", "_deploy: a waiter re-checks deployments_map after the wait and raises when absent", ok and raises,
               func=f, node=wn.ast, instance="_deploy:waiter",
               message="a request that waited for a failed deployment does not fail")
    f = p.func(f"{FUT}._safe_deploy_event_wait")
    g = f.cfg
    waits = [n for n in g.nodes.values() if any(
        isinstance(c.func, ast.Attribute) and c.func.attr == "wait" for c in n.calls())]
    chk = [n for n in g.nodes.values() if n.kind == "test" and _none_edge(n.ast)]
    ok = bool(waits) and bool(chk) and g.escape(waits[0].id, [c.id for c in chk]) is None
    raises = any(g.nodes[b].kind == "raise_stmt" for c in chk for b in g.real_succ(c.id, _none_edge(c.ast)))
    ctx.ob("R3", "_safe_deploy_event_wait raises when the connector is missing after the wait", ok and raises,
           func=f, node=f.node, instance="future:waiter")
    # failure path of FutureConnector.deploy leaves _connector None
    f = p.func(f"{FUT}.deploy")
    for h in [n for n in f.body_nodes() if isinstance(n, ast.ExceptHandler)]:
        reraises = any(isinstance(x, ast.Raise) for x in h.body)
        ctx.ob("R3", "FutureConnector.deploy re-raises the deployment failure", reraises, func=f, node=h,
               instance="future.deploy:reraise")


def r4(ctx):
    p = ctx.prog
    f = p.func(f"{MGR}.undeploy")
    g = f.cfg
    und = [n for n in g.nodes.values() if any(
        isinstance(c.func, ast.Attribute) and c.func.attr == "undeploy" and unparse(c.func.value) != "self" for c in n.calls())]
    ctx.require(len(und) == 1, "C26.R4: connector.undeploy call not found")
    from ..facts import atoms as _atoms4, expand_test as _expand4

    def _empty_edge(t):
        """edge kind of test t on which `dependency_graph[deployment_name]` is known to be empty (any spelling, through temporaries)"""
        e = _expand4(f, t.ast)
        for kind in ("t", "f"):
            for a, v in _atoms4(e, kind == "t"):
                txt = unparse(a)
                if "dependency_graph[deployment_name]" not in txt:
                    continue
                core = txt.replace("self.dependency_graph[deployment_name]", "D")
                if (v and core in ("len(D) == 0", "0 == len(D)", "len(D) < 1", "len(D) <= 0", "D == set()")) or \
                        ((not v) and core in ("D", "len(D)", "len(D) > 0", "len(D) >= 1", "len(D) != 0", "0 < len(D)")):
                    return kind
        return None

    guards = [n for n in g.nodes.values() if n.kind == "test" and n.ast is not None and _empty_edge(n)]
    ok = bool(guards) and any(
        g.dominates(t.id, und[0].id) and und[0].id in g.reach([b for b, k in g.succ[t.id] if k == _empty_edge(t)], include_src=True)
        and und[0].id not in g.reach([b for b, k in g.succ[t.id] if k in ("t", "f") and k != _empty_edge(t)], avoid=[t.id], include_src=True)
        for t in guards)
    ctx.ob("R4", "connector.undeploy only when the dependency set is empty", ok, func=f, node=und[0].ast,
           instance="undeploy:guard", message="the connector is undeployed while other deployments still depend on it")
    dels = [n for n in g.nodes.values() if n.kind == "stmt" and isinstance(n.ast, ast.Delete)
            and any(m in unparse(n.ast) for m in ("self.deployments_map[", "self.config_map["))]
    okd = len(dels) >= 2 and all(g.dominates(d.id, und[0].id) for d in dels)
    ctx.ob("R4", "map entries are deleted before the undeploy await", okd, func=f, node=und[0].ast, instance="undeploy:del-before-await",
           message="deployments_map/config_map entries survive across the undeploy await: a concurrent deploy would reuse a dying connector")
    first = [n for n in g.nodes.values() if n.kind == "test" and "deployments_map" in n.text()]
    wait = [n for n in g.nodes.values() if any(
        isinstance(c.func, ast.Attribute) and c.func.attr == "wait" and "events_map" in unparse(c.func.value) for c in n.calls())]
    ctx.ob("R4", "undeploy waits for a pending deployment before undeploying", bool(wait) and g.dominates(wait[0].id, und[0].id),
           func=f, node=f.node, instance="undeploy:wait")
    # a deployment is withdrawn from the dependency sets of the others only once it has really been undeployed
    others = [n for n in g.nodes.values() if any(
        isinstance(c.func, ast.Attribute) and c.func.attr in ("discard", "remove") and unparse(c.args[0]) == "deployment_name"
        and "dependency_graph[deployment_name]" not in unparse(c.func.value) for c in n.calls() if c.args)]
    ctx.require(bool(others), "C26.R4: removal of the deployment from the other dependency sets not found")
    for o in others:
        okp = any(g.dominates(t.id, o.id) and o.id in g.reach(g.real_succ(t.id, _empty_edge(t)), include_src=True)
                  and o.id not in g.reach([b for b, k in g.succ[t.id] if k in ("t", "f") and k != _empty_edge(t)], avoid=[t.id], include_src=True) for t in guards) \
            and g.dominates(und[0].id, o.id)
        ctx.ob("R4", "a deployment leaves the dependency sets of the others only after it was undeployed", okp, func=f, node=o.ast,
               instance="undeploy:withdraw-after-undeploy",
               message="a deployment that is kept alive (it still has dependants) is nevertheless removed from the dependants of the deployments it wraps: "
                       "those are undeployed while it is still live")
    # every path that wires a wrapper to its wrapped deployment records the dependency edge
    fi = p.func(f"{MGR}._inner_deploy")
    gi = fi.cfg
    adds = [n.id for n in gi.nodes.values() if any(
        isinstance(c.func, ast.Attribute) and c.func.attr == "add" and "self.dependency_graph[" in unparse(c.func.value) for c in n.calls())]
    # the statement that takes the wrapped connector out of deployments_map (the injecting return, or a temporary before it)
    def _takes_connector(n):
        if n.kind == "stmt" and not isinstance(n.ast, (ast.Assign, ast.AnnAssign)):
            return False
        for x in n.walk():
            if isinstance(x, ast.Subscript) and isinstance(x.ctx, ast.Load) and unparse(x.value) == "self.deployments_map":
                par = getattr(x, "_parent", None)
                if isinstance(par, ast.Call) and isinstance(par.func, ast.Name) and par.func.id in ("type", "isinstance"):
                    continue  # only the class of the connector is looked at
                return True
        return False

    wires = [n for n in gi.nodes.values() if n.kind in ("return", "stmt") and _takes_connector(n)]
    ctx.require(bool(wires), "C26.R4: the read of the wrapped connector from deployments_map was not found in _inner_deploy")
    for wnode in wires:
        okw = bool(adds) and gi.dominates(adds, wnode.id)
        wit = gi.path(gi.entry, [wnode.id], avoid=adds) if not okw else None
        ctx.ob("R4", "a wrapper is recorded as a dependant of the deployment it wraps on every path", okw, func=fi, node=wnode.ast,
               instance="_inner_deploy:dependency-edge",
               message="a wrapper can be wired to an already registered wrapped deployment without being added to its dependency set: undeploying the "
                       "first user tears the wrapped deployment down under the still-live wrapper", witness=gi.describe(wit) if wit else [])
    f = p.func(f"{MGR}.undeploy_all")
    loops = [n for n in f.body_nodes() if isinstance(n, ast.For)]
    ok = bool(loops) and all(
        isinstance(l.iter, ast.Call) and isinstance(l.iter.func, ast.Name) and l.iter.func.id in ("dict", "list", "tuple", "set")
        for l in loops if "deployments_map" in unparse(l.iter))
    ctx.ob("R4", "undeploy_all iterates a snapshot of deployments_map", ok, func=f, node=f.node, instance="undeploy_all:snapshot")


def r5(ctx):
    """A wrapper takes the wrapped connector only after that deployment completed: every read of
    deployments_map[<name>] in _inner_deploy is dominated by the wait on its event or by the awaited _deploy."""
    p = ctx.prog
    f = p.func(f"{MGR}._inner_deploy")
    g = f.cfg
    reads = [n for n in g.nodes.values() if any(
        isinstance(x, ast.Subscript) and isinstance(x.ctx, ast.Load) and unparse(x.value) == "self.deployments_map" for x in n.walk())]
    ctx.require(bool(reads), "C26.R5: _inner_deploy no longer reads deployments_map")
    done = [n.id for n in g.nodes.values() if n.has_await() and any(
        (isinstance(c.func, ast.Attribute) and c.func.attr == "wait" and "events_map" in unparse(c.func.value))
        or (isinstance(c.func, ast.Attribute) and unparse(c.func) == "self._deploy") for c in n.calls())]
    for r in reads:
        ok = bool(done) and g.dominates(done, r.id)
        w = g.path(g.entry, [r.id], avoid=done) if not ok else None
        ctx.ob("R5", f"`{r.text(60)}`: the wrapped connector is used only after its deployment completed", ok, func=f, node=r.ast,
               instance=f"_inner_deploy:read-after-complete:{r.text(50)}",
               message="the wrapped deployment is taken from deployments_map without waiting for its deployment event: the connector is registered "
                       "there *before* it is deployed, so a concurrent wrapper is deployed on top of a deployment that is still starting",
               witness=g.describe(w) if w else [])
    # the event is set only after the connector was deployed (not right after it was registered)
    d = p.func(f"{MGR}._deploy")
    gd = d.cfg
    dep = [n.id for n in gd.nodes.values() if n.has_await() and any(isinstance(c.func, ast.Attribute) and c.func.attr == "deploy" and unparse(c.func.value) != "self" for c in n.calls())]
    reg = [n for n in gd.nodes.values() if n.kind == "stmt" and isinstance(n.ast, ast.Assign) and unparse(n.ast.targets[0]).startswith("self.deployments_map[")]
    sets = [n for n in gd.nodes.values() if _is_set_call(n, "self.events_map[")]
    if (not dep or not reg) and sets:
        # the creation of the connector (registration + eager deploy) was moved into a private helper awaited by _deploy
        for n in gd.nodes.values():
            for c in n.calls():
                if n.has_await() and isinstance(c.func, ast.Attribute) and isinstance(c.func.value, ast.Name) and c.func.value.id == "self" and c.func.attr.startswith("_"):
                    for q in p.resolve_call(d, c, fanout=False):
                        h = p.functions.get(q)
                        if h is None or h is d:
                            continue
                        gh = h.cfg
                        hdep = [m.id for m in gh.nodes.values() if m.has_await() and any(isinstance(x.func, ast.Attribute) and x.func.attr == "deploy" and unparse(x.func.value) != "self" for x in m.calls())]
                        hreg = [m for m in gh.nodes.values() if m.kind == "stmt" and isinstance(m.ast, ast.Assign) and unparse(m.ast.targets[0]).startswith("self.deployments_map[")]
                        hsets = [m for m in gh.nodes.values() if _is_set_call(m, "self.events_map[")]
                        if hdep and hreg:
                            ctx.ob("R5", f"{h.name} (creates the connector for _deploy) does not release the waiters itself", not hsets, func=h, node=h.node,
                                   instance="_deploy:helper-no-set", message=f"{h.name} sets the deployment event before _deploy knows the deployment completed")
                            early = next((pth for s_ in sets for pth in [gd.path(gd.entry, [s_.id], avoid=[n.id], kinds=NORMAL)] if pth), None)
                            ctx.ob("R5", "the deployment event is set only after connector.deploy() returned", early is None, func=d, node=n.ast,
                                   instance="_deploy:set-after-deploy", message=f"waiters are released before `{n.text(60)}` (which deploys the connector) has completed",
                                   witness=gd.describe(early) if early else [])
                            return
    ctx.require(bool(dep) and bool(reg) and bool(sets), "C26.R5: deploy / registration / event nodes not found in _deploy")
    # on the eager path: no set() reachable from the registration without passing connector.deploy(), except on failure routes
    eager_reg = [r for r in reg if any(d_ in gd.reach([r.id]) for d_ in dep)]
    for r in eager_reg:
        early = None
        for s_ in sets:
            # a set() that is reached before the deploy on a route that goes on to deploy (lazy deployments register and
            # release at once by design: their FutureConnector deploys on first use)
            pth = gd.path(r.id, [s_.id], avoid=dep, kinds=NORMAL)
            if pth and any(d_ in gd.reach([s_.id], kinds=NORMAL) for d_ in dep):
                early = pth
        ctx.ob("R5", "the deployment event is set only after connector.deploy() returned", early is None, func=d, node=r.ast,
               instance="_deploy:set-after-deploy", message="waiters are released before the connector finished deploying", witness=gd.describe(early) if early else [])


RULES = [("R1", r1), ("R2", r2), ("R3", r3), ("R4", r4), ("R5", r5)]
FLOORS = {"R1": 18, "R2": 5, "R3": 3, "R4": 6, "R5": 3}

_IDIOM = "if not self.deploying:\n            self.deploying = True\n            await self.deploy(self.external)"

VARIANTS = [
    V("sleep between test and claim", MFILE, f"{MGR}._deploy", "self.config_map[deployment_name] = deployment_config",
      "await asyncio.sleep(0)\n            self.config_map[deployment_name] = deployment_config", "R1", control=True),
    V("set() removed from failure handler", MFILE, f"{MGR}._deploy",
      "self.deployments_map.pop(deployment_name, None)\n                self.events_map[deployment_name].set()",
      "self.deployments_map.pop(deployment_name, None)", "R2", control=True),
    V("set() removed from success path", MFILE, f"{MGR}._deploy",
      "raise\n            self.events_map[deployment_name].set()", "raise", "R2"),
    V("_inner_deploy moved out of the protected region (S4 revert)", MFILE, f"{MGR}._deploy",
      "try:\n                deployment_config = await self._inner_deploy(connector_type=connector_type, deployment_config=deployment_config)",
      "deployment_config = await self._inner_deploy(connector_type=connector_type, deployment_config=deployment_config)\n            try:", "R2"),
    V("handler narrowed to one exception type", MFILE, f"{MGR}._deploy", "except Exception:", "except WorkflowExecutionException:", "R2"),
    V("future.deploy: constructor outside try (S4 revert)", FFILE, f"{FUT}.deploy",
      "try:\n        connector = self.type(deployment_name=self.deployment_name, config_dir=self.config_dir, transferBufferSize=self.transferBufferSize, **self.parameters)",
      "connector = self.type(deployment_name=self.deployment_name, config_dir=self.config_dir, transferBufferSize=self.transferBufferSize, **self.parameters)\n    try:", "R2"),
    V("waiter does not re-check", MFILE, f"{MGR}._deploy", "if deployment_name not in self.deployments_map:", "if False:", "R3"),
    V("future.deploy: connector published before its deploy() completed", FFILE, f"{FUT}.deploy",
      "        await connector.deploy(external)", "        self._connector = connector\n        await connector.deploy(external)", "R2"),
    V("future.deploy: publish through a temporary (benign)", FFILE, f"{FUT}.deploy",
      "    self._connector = connector\n    self.deploy_event.set()", "    deployed = connector\n    self._connector = deployed\n    self.deploy_event.set()", None),
    V("deploying flag after await", FFILE, f"{FUT}.run", "self.deploying = True\n            await self.deploy(self.external)",
      "await self.deploy(self.external)\n            self.deploying = True", "R1"),
    V("one delegating method without idiom", FFILE, f"{FUT}.get_shell",
      "if not self.deploying:\n            self.deploying = True\n            await self.deploy(self.external)\n        else:\n            await self._safe_deploy_event_wait()",
      "await self.deploy(self.external)", "R1"),
    V("one delegating method without None test", FFILE, f"{FUT}.get_stream_reader",
      "if self._connector is None:\n        if not self.deploying:\n            self.deploying = True\n            await self.deploy(self.external)\n        else:\n            await self._safe_deploy_event_wait()\n    ",
      "", "R1"),
    V("future.deploy: set() removed from handler", FFILE, f"{FUT}.deploy", "self._connector = None\n        self.deploy_event.set()", "self._connector = None", "R2"),
    V("future.deploy: handler swallows", FFILE, f"{FUT}.deploy", "self.deploy_event.set()\n        raise", "self.deploy_event.set()", "R3"),
    V("_safe wait does not raise", FFILE, f"{FUT}._safe_deploy_event_wait", "if self._connector is None:", "if False:", "R3"),
    V("undeploy guard removed", MFILE, f"{MGR}.undeploy", "if len(self.dependency_graph[deployment_name]) == 0:", "if True:", "R4", control=True),
    V("withdraw from other dependency sets even when kept alive (S16 revert)", MFILE, f"{MGR}.undeploy",
      "            for name, deps in list(((k, v) for k, v in self.dependency_graph.items() if k != deployment_name)):\n                deps.discard(deployment_name)\n                if len(deps) == 0:\n                    await self.undeploy(name)",
      "        for name, deps in list(((k, v) for k, v in self.dependency_graph.items() if k != deployment_name)):\n            deps.discard(deployment_name)\n            if len(deps) == 0:\n                await self.undeploy(name)", "R4"),
    V("dependency edge recorded only when the wrapper triggers the deployment", MFILE, f"{MGR}._inner_deploy",
      "            await self._deploy(inner_config)\n", "            await self._deploy(inner_config)\n            self.dependency_graph[deployment_name].add(deployment_config.name)\n", None),
    V("dependency edge dropped", MFILE, f"{MGR}._inner_deploy", "self.dependency_graph[deployment_name].add(deployment_config.name)", "pass", "R4"),
    V("delete after await", MFILE, f"{MGR}.undeploy", "del self.deployments_map[deployment_name]\n            ", "", "R4"),
    V("undeploy_all iterates live map", MFILE, f"{MGR}.undeploy_all", "dict(self.deployments_map)", "self.deployments_map", "R4"),
    V("wait only when not yet registered (S15 revert)", MFILE, f"{MGR}._inner_deploy",
      "await self.events_map[deployment_name].wait()", "if deployment_name not in self.deployments_map:\n                await self.events_map[deployment_name].wait()", "R5", control=True),
    V("event set right after registration", MFILE, f"{MGR}._deploy",
      "await connector.deploy(deployment_config.external)", "self.events_map[deployment_name].set()\n                    await connector.deploy(deployment_config.external)", "R5"),
    # benign
    V("rename local", MFILE, f"{MGR}._deploy", "connector_type", "ctype", None, count=6),
    V("logging added", MFILE, f"{MGR}.undeploy", "self.events_map[deployment_name].clear()", "logger.debug('x')\n            self.events_map[deployment_name].clear()", None),
]
