"""C16 Recovered runs produce the same outputs as failure-free runs.

Clause decided: every job phase is routed to recovery and the recovery workflow is assembled in
the required order.  Equality of outputs needs execution and is undecided.

R1 phase routing: every definition of `ScheduleStep._schedule`, `TransferStep._run_transfer`,
   `ExecuteStep._execute_command` and `RollbackFailureManager._do_handle_failure` (overrides in
   subclasses included) is decorated with `core.recovery.recoverable` and takes a Job; every call
   site goes through the decorated attribute (awaited, passes the job, never `__wrapped__`); the
   work of the phase (`Scheduler.schedule`, `TransferStep.transfer`, `Command.execute`,
   `_recover`) is invoked only from inside a decorated function.  Nec.: an undecorated phase or a
   phase call placed outside turns a job failure into a step failure - no recovery at all.
R2 wrapper shape of `recoverable`: the decorator returns the nested wrapper; the wrapper awaits
   `func(*args, **kwargs)`; CancelledError / KeyboardInterrupt / other BaseExceptions and every
   `UnrecoverableWorkflowException` leave without `recover`; every other `Exception` reaches
   `await failure_manager.recover(job, step, e)` (job/step picked by isinstance on Job/Step, e the
   caught exception); normal completion never calls recover; a failure of recover propagates; a ValueError of
   the look-ups is raised only where the dominating tests leave one look-up variable (a local defined by an
   isinstance selection on Job / Step) None - nested fallbacks, flat guard clauses over a chained search and
   truthiness tests alike.  A look-up extracted into a function counts when every return of the (single) resolved
   callee is None or a value selected by `isinstance(.., <parameter>)` and the call site binds that parameter to
   Job / Step (refactoring B20-1; a returned local is read through its reaching plain assignments and walrus bindings,
   B32-1); `x = None; for a in ..: if isinstance(a, Step): x = a` counts through the facts
   dominating the assignment.
R3 assembly order in `_recover` (CFG dominance, helpers extracted from `_recover` are followed):
   build_graph < create_graph_mapper < lock acquisition < _synchronize_workflows <
   _populate_workflow < _inject_tokens < restore of every step (loop / gather over `<wf>.steps`,
   no skip/break) < save < executor.run; all stages work on the one workflow object obtained from
   `WorkflowBuilder.load_workflow`; the provenance search starts from the failed job's inputs, its
   job token and the connector tokens (generators filtered by port class; a list assembled by an extracted
   helper is read through the helper's return expressions, the failed job being the parameter bound to it; a list
   assembled by mutation - `xs = list(..); xs.extend(<generator>); xs.append(..)`, `+=` - is read through what it is
   fed with, provided the feeding statement dominates the build_graph call or lies in a loop completed before it;
   an appended element takes its port-class filter from the dominating tests - refactoring B20-2);
   `_recover` raises only
   under an emptiness test; the retry delay is slept only when configured.
R4 stateful steps restore their state: ScatterStep / LoopCombinatorStep / DefaultTransformer define a
   non-trivial `restore` (LoopCombinatorStep forwards to `combinator.restore`, LoopCombinator
   rebuilds `iteration_map`: every store `self.iteration_map[K] = V` of `LoopCombinator.restore` takes K from the
   first member (prefix tag) and the new counter V from the second member (tag of the last completed iteration)
   of the (prefix, iteration) pairs in `from_tags` - def-use through loop / comprehension targets over
   `.values()` / `.items()`, `pair[i]`, `from_tags[k][i]`, local aliases; reads of the map itself do not count
   (seeded change C16b-2: a counter parsed from the prefix re-numbers the resumed iterations);
   ScatterStep installs a FilterTokenPort); `restore` is given the
   *unavailable* tokens while `_inject_tokens` injects the *available* ones (the selection is a comprehension
   filter or the dominating test of the `append` of the equivalent loop; conditional expression or if statement;
   `mapper.token_availability` / `mapper.port_tokens` read directly or through a local bound once to that attribute);
   `_inject_tokens`
   installs a PROPAGATE rule towards the failed step's original output port and a TERMINATE rule on
   the recovery port, both keyed by the failed job's tag, always together and exactly for the
   inter-workflow ports bound to the failed step's outputs (facts of the dominating tests); every
   other inter-workflow port gets a PROPAGATE|TERMINATE rule on itself keyed by all its tags; the
   duplicate-tag guard raises only on duplicates.
R5 (added) population of the recovery workflow: `_populate_workflow` loads every selected step id and,
   unconditionally, the failed step itself, and re-creates every plain port (and only those) as an
   InterWorkflowPort / InterWorkflowJobPort (job ports) of the same name.  The class handed to `create_port` is read
   leaf by leaf: branches of a conditional expression, or the assignments of a local reaching the call, each with the
   facts of the tests dominating it / it must pass to arrive (`if t: c = A else: c = B`, `c = B; if t: c = A` -
   refactoring B20-6); every leaf must be the inter-workflow class matching what is known about `isinstance(port, JobPort)`.
R6 (added) hygiene of the plumbing functions: every coroutine-producing call is awaited or scheduled;
   every name / `self.<attr>` they use is bound somewhere (whole-repo validated: 0 hits on today's tree).

R7 (added, seeded change C16/3) a failure below the retry limit is retried: the guards of
   `RollbackFailureManager._update_request` are tabulated over (max_retries in {None,1,2,3}) x (version in 1..5)
   (the CFG walk of C17.R1, shared through `_util_D`); for every valuation with `max_retries is None` (no limit
   configured: the constructor default) or `version < max_retries` the function can return normally, i.e. the
   rollback is not refused.  C17.R1 states the converse (nothing is permitted beyond the limit); a guard
   that refuses a permitted retry keeps C17 and breaks C16: the run aborts although no limit was exceeded.
   Atoms outside the (version, max_retries) vocabulary are existential here (some valuation must let the
   retry through), so that a stricter but satisfiable guard stays silent.
R8 (added, seeded change C16/1) primitive tokens synthesised by a step are recoverable: `Token.is_available`
   of the base class is exactly the `recoverable` flag (checked) - a plain `Token` has no data location the
   rollback could probe.  Every construction of exactly `core.workflow.Token` (subclasses decide
   availability themselves: FileToken by data locations, ListToken by its elements, JobToken never - a job is
   always re-scheduled) that is (a) written in a method of a `Step` subclass (class table) or (b) reached from
   the `token` argument of a `_persist_token` call site (whole-program call index; locals and the return
   expressions of the resolved callees are followed, 2 levels) must bind `recoverable` to something that is
   not statically false (omitted = the default of `Token.__init__`).  Otherwise the value - which sits in the
   database - counts as lost: the provenance search walks past it, the producing step joins the recovery
   workflow while its other outputs are still available, and e.g. `ScatterStep.restore` filters every element
   (the recovered run gathers an empty list).  Exempt, with reason: null markers `Token(None)` (skip /
   default placeholders: nothing was computed, 3 sites today); a flag forwarded from a parameter or computed
   (`self._is_recoverable(job)`) is the caller's / the configuration's decision.
R9 (added, seeded change C16/_mut/2) the first-iteration decision of `LoopCombinatorStep.restore`: the smallest missing
   output of the loop is the first iteration of the loop (its parent, the loop input, has a tag of a different depth: 0
   for 0.0) or an intermediate one (parent 0.k, same depth).  The two tags whose depths are compared are found through
   the comparison itself (`len(T.split('.'))`, `T.count('.')`, equal constant offsets; locals assigned once, walrus
   and one-expression helpers are inlined, so temporaries / `_tag_depth(t)` / `_same_depth(a, b)` read alike).  Over
   the finite domain depth(parent) {<, =, >} depth(token) every branch fact (dominating tests, conditional
   expressions, guard clauses, De Morgan / negated forms) is evaluated three-valued; (a) every site where the token's
   own tag joins a collection (set / list display, add / append / update argument, conditional-expression branch,
   one of several assignments of a local) must be reachable exactly under {<, >}; (b) every site consuming a compared
   tag shortened by one level (`'.'.join(T.split('.')[:-1])`, `T.rsplit('.', 1)[0]`, `T.rpartition('.')[0]`; a local
   assigned once stands for its loads) must be reachable exactly under {=}.  `!=` turned into `>` / `<` / `>=` / `==`
   or a dropped test fail (a) or (b): the shortened parent of a first iteration is '' (compare_tags raises inside
   `_recover`, after the rollback bookkeeping) or a wrong loop prefix.  No test of the two depths at all while a tag
   is shortened is reported under (b); neither construct present is an analysis error (vanished anchor).

Not armed (see DESIGN section 7): the sort of injected tokens by tag *string* in `_inject_tokens`.
Not decided by R9: that a parent is never *deeper* than the token is an invariant of tag generation, so `<` instead of
`!=` would behave alike today; R9 demands the inequality the property states (both < and >) and reports `<`.
"""

from __future__ import annotations

import ast
import itertools

from ..cfg import ALL, NORMAL
from ..dataflow import defs_of, origins, reaching_defs
from ..facts import expand_test
from ..model import ancestors, enclosing_stmt, parent, unparse, walk_no_nested
from ..selftest import V
from ._util_D import (
    FM,
    FM_FILE,
    RETRY_ENVS,
    REC,
    REC_FILE,
    RFM,
    STEP_FILE,
    UTILS,
    bind_args,
    callers_of,
    check_awaited,
    check_defined,
    exc_ancestors,
    expr_facts,
    effective_test,
    first_handler,
    funcs_mentioning,
    guard_free_atoms,
    guard_walk,
    has_fact,
    helper_views,
    implies_empty,
    implied,
    is_awaited,
    is_max,
    is_version,
    is_version_increment,
    lock_sites,
    membership_fact,
    mentions,
    param_default,
    param_of_type,
    param_truth_domain,
    path_facts,
    rcall,
    region,
    resolves_to,
    retry_allowed,
    stage_calls,
    strip,
)

STEP = "streamflow.workflow.step"
CORE_WF = "streamflow.core.workflow"
JOB = f"{CORE_WF}.Job"
STEP_CLS = f"{CORE_WF}.Step"
DECORATOR = f"{REC}.recoverable"
COMB_FILE = "streamflow/workflow/combinator.py"
TRANSF_FILE = "streamflow/cwl/transformer.py"

META = {
    "explanation": (
        "Class-table and CFG rules on the recovery plumbing: (R1) the three job phases and the failure handler are "
        "decorated with `recoverable` in every override, are only invoked through the decorated attribute, and the "
        "phase work is only reachable from inside a decorated function (whole-program who-may-call); (R2) the handler "
        "table of the wrapper is evaluated for representative exception classes through the static class hierarchy "
        "and CFG must-pass-through of `recover`; (R3) dominance chain of the nine assembly stages of `_recover`, loop "
        "coverage of `restore`, one workflow object through all stages; (R4) overrides of `restore`, polarity of the "
        "availability filters, boundary rules of `_inject_tokens`; (R7) finite-domain tabulation of the guards of "
        "`_update_request` over (max_retries, version): every valuation below the limit, and every one without a limit, "
        "can return normally (the converse of C17.R1); (R8) every construction of a plain `Token` in a Step subclass or "
        "reached from the `token` argument of a `_persist_token` call site binds `recoverable` to something not statically "
        "false, since `Token.is_available` is that flag (null markers `Token(None)` exempt; a flag forwarded from a parameter "
        "is checked at the emitting call site); (R9) the branch facts of `LoopCombinatorStep.restore` are evaluated over the three "
        "possible relations between the depth of the parent tag and the depth of the token's tag: the token's own tag is restored (first "
        "iteration) exactly when the depths differ, the shortened parent tag (intermediate iteration) exactly when they are equal. "
        "Decides necessary structural conditions only."
    ),
    "undecided": "equality of workflow outputs between recovered and failure-free runs (needs execution)",
    "assumptions": [
        "asyncio.CancelledError, KeyboardInterrupt, SystemExit derive from BaseException only",
        "plugin failure managers / steps loaded through streamflow.ext are outside the parsed program",
    ],
}

# (class, phase method, (class, method) doing the phase's work)
PHASES = [
    (f"{STEP}.ScheduleStep", "_schedule", ("streamflow.core.scheduling.Scheduler", "schedule")),
    (f"{STEP}.TransferStep", "_run_transfer", (f"{STEP}.TransferStep", "transfer")),
    (f"{STEP}.ExecuteStep", "_execute_command", (f"{CORE_WF}.Command", "execute")),
    (RFM, "_do_handle_failure", (RFM, "_recover")),
]


def _is_recoverable(prog, f) -> bool:
    return any(prog.resolve_expr(f.module, d) == DECORATOR for d in f.decorators)


def _inside_recoverable(prog, f) -> bool:
    g = f
    while g is not None:
        if _is_recoverable(prog, g):
            return True
        g = g.outer
    return False


# --------------------------------------------------------------------------- R1


def r1(ctx):
    p = ctx.prog
    p.func(DECORATOR)  # anchor
    # nobody bypasses the wrapper
    bypassed = set()
    for f in funcs_mentioning(p, "__wrapped__"):
        for n in f.body_nodes():
            if isinstance(n, ast.Attribute) and n.attr == "__wrapped__" and isinstance(n.value, ast.Attribute) and any(
                n.value.attr == meth for _, meth, _ in PHASES
            ):
                bypassed.add(n.value.attr)
                ctx.ob("R1", "phase invoked through __wrapped__", False, func=f, node=n, instance=f"bypass:{n.value.attr}",
                       message=f"{f.qualname} bypasses the recoverable wrapper via `{unparse(n)}`")
    for cq, meth, (wcq, wmeth) in PHASES:
        p.cls(cq)
        defs = p.overrides(cq, meth)
        ctx.require(bool(defs), f"C16.R1: phase method {cq}.{meth} not found")
        for f in defs:
            job_param = param_of_type(p, f, JOB)
            has_step = (f.cls is not None and p.is_subclass(f.cls.qualname, STEP_CLS)) or param_of_type(p, f, STEP_CLS)
            ok = _is_recoverable(p, f) and f.is_async and job_param is not None and bool(has_step)
            ctx.ob(
                "R1",
                f"{f.qualname} is an async @recoverable function taking a Job and a Step",
                ok,
                func=f,
                node=f.node,
                instance=f"decorated:{meth}",
                message=f"{f.qualname}: phase `{meth}` is not routed to recovery "
                f"(decorated={_is_recoverable(p, f)}, async={f.is_async}, job parameter={job_param}, step={bool(has_step)})",
            )
            # call sites of this definition
            sites = {id(c): (g, c) for g, c in callers_of(p, [f.qualname])}
            if f is defs[0] and meth not in bypassed:
                ctx.require(bool(sites), f"C16.R1: no call site of {f.qualname} found")
            for g, c in sites.values():
                b = bind_args(f.node, c) or {}
                passes_job = job_param in b or any(isinstance(a, ast.Starred) for a in c.args) or any(k.arg is None for k in c.keywords)
                direct = isinstance(c.func, ast.Attribute) and c.func.attr == meth
                ctx.ob(
                    "R1",
                    f"{g.qualname} invokes {meth} through the decorated attribute, awaited, with the job",
                    direct and is_awaited(c) and passes_job,
                    func=g,
                    node=c,
                    instance=f"call:{meth}:{'direct' if direct else unparse(c.func)}",
                    message=f"{g.qualname}: `{unparse(c)[:90]}` does not go through the recoverable wrapper "
                    f"(direct={direct}, awaited={is_awaited(c)}, job passed={passes_job})",
                )
        # phase work only inside a decorated function
        work = p.overrides(wcq, wmeth)
        ctx.require(bool(work), f"C16.R1: {wcq}.{wmeth} not found")
        wsites = {id(c): (g, c) for g, c in callers_of(p, [w.qualname for w in work])}
        ctx.require(bool(wsites), f"C16.R1: no call of {wcq}.{wmeth} found")
        for g, c in wsites.values():
            ctx.ob(
                "R1",
                f"{wmeth}() is invoked from inside a @recoverable function",
                _inside_recoverable(p, g),
                func=g,
                node=c,
                instance=f"work:{wmeth}",
                message=f"{g.qualname} calls `{unparse(c.func)}` outside any @recoverable function: a failure of this "
                f"phase is not routed to the failure manager",
            )


# --------------------------------------------------------------------------- R2

NO_RECOVER = ["CancelledError", "KeyboardInterrupt", "SystemExit", "UnrecoverableWorkflowException", "FailureHandlingException", "WorkflowDefinitionException"]
RECOVER = ["Exception", "WorkflowException", "WorkflowExecutionException", "ValueError"]


def _wrapper(ctx):
    p = ctx.prog
    dec = p.func(DECORATOR)
    ctx.require(bool(dec.params), "C16.R2: `recoverable` takes no function parameter")
    fparam = dec.params[0]
    rets = [n for n in dec.body_nodes() if isinstance(n, ast.Return)]
    ctx.require(bool(rets), "C16.R2: `recoverable` has no return statement")
    wrappers = []
    bad = None
    for r in rets:
        q = f"{dec.qualname}.<locals>.{r.value.id}" if isinstance(r.value, ast.Name) else None
        if q and q in p.functions:
            wrappers.append(p.functions[q])
        else:
            bad = r
    if not wrappers:
        # still analyse the nested function that invokes the wrapped one
        wrappers = [
            f for q, f in p.functions.items()
            if q.startswith(dec.qualname + ".<locals>.") and f.outer is dec
            and any(isinstance(c.func, ast.Name) and c.func.id == fparam for c in f.calls())
        ]
    return dec, fparam, wrappers, bad


def r2(ctx):
    dec, fparam, wrappers, bad = _wrapper(ctx)
    ctx.ob("R2", "`recoverable` returns its nested wrapper on every return", bad is None, func=dec,
           node=bad or dec.node, instance="returns-wrapper",
           message=f"`recoverable` returns `{unparse(bad.value) if bad is not None and bad.value is not None else None}`: "
           "decorated phases run without failure handling")
    ctx.require(bool(wrappers), "C16.R2: no nested wrapper function is returned by `recoverable`")
    for w in {id(x): x for x in wrappers}.values():
        _check_wrapper(ctx, w, fparam)


def _none_fact(e, v):
    """(variable, it is None / falsy) when the fact `e evaluates to v` speaks about a local: `x is None`,
    `(x := ..) is not None`, `None == x`, bare `x` / `(x := ..)` (truthiness: a Job / Step object is truthy)."""

    def var(x):
        if isinstance(x, ast.NamedExpr):
            return x.target.id
        return x.id if isinstance(x, ast.Name) else None

    if isinstance(e, ast.Compare) and len(e.ops) == 1 and isinstance(e.ops[0], (ast.Is, ast.IsNot, ast.Eq, ast.NotEq)):
        for x, c in ((e.left, e.comparators[0]), (e.comparators[0], e.left)):
            if isinstance(c, ast.Constant) and c.value is None and var(x) is not None:
                return var(x), (v if isinstance(e.ops[0], (ast.Is, ast.Eq)) else (not v))
    if var(e) is not None:
        return var(e), (not v)
    return None, None


def _isinstance_on(p, f, n, classes, cls_params=None):
    """`n` is `isinstance(x, C)` with C one of `classes` (qualified names) - or, inside an extracted look-up helper, a
    parameter of `cls_params` (parameter name -> the class its call site passes).  Returns the class or None."""
    if not (isinstance(n, ast.Call) and isinstance(n.func, ast.Name) and n.func.id == "isinstance" and len(n.args) == 2):
        return None
    c = n.args[1]
    if cls_params and isinstance(c, ast.Name) and c.id in cls_params and all(d.kind == "param" for d in defs_of(f, c.id)):
        return cls_params[c.id]
    q = p.resolve_expr(f.module, c)
    return q if q in classes else None


def _lookup_returned(h, ret, depth: int = 3) -> list:
    """`returned_exprs(.., with_stmt=True)` that also reads through assignment expressions: a returned bare local
    whose definitions reaching the statement (flow-sensitive) are all whole plain assignments or walrus bindings
    yields the bound expressions (`if (v := next(..)) is None: v = next(..)` / `return v`, refactoring B32-1).
    Pairs (expression, node that evaluates it: a statement, or the NamedExpr)."""

    def go(e, at, d, seen):
        if isinstance(e, ast.Name) and d > 0 and e.id not in seen:
            ds = reaching_defs(h, e.id, at)
            if ds and all(x.kind in ("assign", "walrus") and x.index is None and x.value is not None and x.stmt is not None for x in ds):
                out: list = []
                for x in ds:
                    out.extend(go(x.value, x.stmt, d - 1, seen | {e.id}))
                return out
        return [(e, at)]

    return go(ret.value, ret, depth, frozenset()) if ret.value is not None else []


def _selected_classes(p, f, e, classes, depth=2, cls_params=None) -> set:
    """Classes of `classes` by which expression `e` of `f` selects an argument: an `isinstance(.., C)` test inside the
    expression (`next((a for a in args if isinstance(a, C)), None)`), or - the look-up extracted into a function
    (refactoring B20-1) - a call resolved to exactly one program function whose every return yields None or a value
    selected by `isinstance(.., <parameter>)`, the parameter being bound to C at this call site: the test sits in the
    returned expression, or it is a fact of the tests dominating the statement that evaluates the returned value
    (`for a in ..: if isinstance(a, cls): return a`; temporaries followed flow-sensitively)."""
    out = set()
    for x in ast.walk(e):
        c = _isinstance_on(p, f, x, classes, cls_params)
        if c is not None:
            out.add(c)
    if depth <= 0:
        return out
    for x in ast.walk(e):
        if not isinstance(x, ast.Call) or (isinstance(x.func, ast.Name) and x.func.id == "isinstance"):
            continue
        qs = rcall(p, f, x, fanout=False)
        h = p.functions.get(qs[0]) if len(qs) == 1 else None
        if h is None or h is f or h.is_abstract:
            continue
        b = bind_args(h.node, x, bound=h.cls is not None)
        if b is None:
            continue
        cp = {}
        for pn, a in b.items():
            q = p.resolve_expr(f.module, a) if isinstance(a, (ast.Name, ast.Attribute)) else None
            if cls_params and isinstance(a, ast.Name) and a.id in cls_params:
                q = cls_params[a.id]
            if q in classes:
                cp[pn] = q
        if not cp:
            continue
        gh = h.cfg
        sel, plain = set(), False
        for r in [n for n in gh.nodes.values() if n.kind == "return"]:
            if r.ast.value is None:
                continue
            for v, at in _lookup_returned(h, r.ast):
                v = strip(v)
                if isinstance(v, ast.Constant) and v.value is None:
                    continue
                got = _selected_classes(p, h, v, classes, depth - 1, cp)
                if not got and isinstance(v, ast.Name):
                    at_ids = gh.ids_of(at) if isinstance(at, ast.stmt) else gh.node_containing(at)
                    facts = path_facts(gh, r.id) + ([y for i in at_ids for y in path_facts(gh, i)] if at is not r.ast else [])
                    for fe, fv in facts:
                        c = _isinstance_on(p, h, fe, classes, cp)
                        if c is not None and fv is True and isinstance(fe.args[0], ast.Name) and fe.args[0].id == v.id:
                            got.add(c)
                if not got:
                    plain = True
                sel |= got
        if sel and not plain:
            out |= sel
    return out


def _is_lookup_var(p, w, name, classes=(JOB, STEP_CLS)) -> bool:
    """Every definition of local `name` of the wrapper selects an argument by isinstance on Job / Step: the test is
    part of the assigned expression, sits in an extracted look-up function (see `_selected_classes`), or dominates
    the assignment of a bare candidate (`step = None` / `for a in ..: if isinstance(a, Step): step = a`; the `None`
    initialisation selects nothing and is neutral)."""
    ds = defs_of(w, name)
    g = w.cfg
    n_sel = 0
    for d in ds:
        if d.value is None:
            return False
        v = strip(d.value)
        if d.kind == "assign" and isinstance(v, ast.Constant) and v.value is None:
            continue
        if _selected_classes(p, w, d.value, classes):
            n_sel += 1
            continue
        if d.kind == "assign" and d.index is None and isinstance(v, ast.Name) and d.stmt is not None:
            facts = [x for i in g.ids_of(d.stmt) for x in path_facts(g, i)]
            if any(fv is True and _isinstance_on(p, w, fe, classes) is not None and isinstance(fe.args[0], ast.Name) and fe.args[0].id == v.id for fe, fv in facts):
                n_sel += 1
                continue
        return False
    return n_sel > 0


def _check_wrapper(ctx, w, fparam):
    p = ctx.prog
    g = w.cfg
    ctx.require(w.is_async, "C16.R2: the wrapper is not a coroutine function")
    calls = [c for c in w.calls() if isinstance(c.func, ast.Name) and c.func.id == fparam]
    ctx.require(len(calls) == 1, f"C16.R2: expected exactly one call of the wrapped function in {w.qualname}, found {len(calls)}")
    call = calls[0]
    va, kw = w.node.args.vararg, w.node.args.kwarg
    forwards = (
        va is not None and kw is not None
        and any(isinstance(a, ast.Starred) and isinstance(a.value, ast.Name) and a.value.id == va.arg for a in call.args)
        and any(k.arg is None and isinstance(k.value, ast.Name) and k.value.id == kw.arg for k in call.keywords)
        and len(call.args) == 1 and len(call.keywords) == 1
    )
    ctx.ob("R2", "wrapper awaits func(*args, **kwargs)", is_awaited(call) and forwards, func=w, node=call, instance="forward",
           message=f"the wrapped phase is invoked as `{unparse(parent(call) if is_awaited(call) else call)}`")
    # the job / step look-ups: the ValueError only when one of the look-ups found nothing.  The facts of the
    # dominating tests are grouped by the look-up variable they speak about (a local whose every definition
    # selects by isinstance on Job / Step): the raise is justified by a variable that every such fact leaves
    # None; what is known about the *other* look-up (e.g. `step` was found, flat guard clauses) is irrelevant.
    for n in g.nodes.values():
        if n.kind == "raise_stmt" and not any(isinstance(a, ast.ExceptHandler) for a in ancestors(n.ast)):
            if n.id in g.reach(g.node_containing(call), kinds=ALL):
                continue  # raised after the wrapped call: not a look-up guard
            by_var: dict[str, list[bool]] = {}
            for e, v in path_facts(g, n.id):
                var, is_none = _none_fact(e, v)
                if var is not None and _is_lookup_var(p, w, var):
                    by_var.setdefault(var, []).append(is_none)
            missing = sorted(k for k, vs in by_var.items() if all(vs))
            ctx.ob("R2", "the wrapper rejects a call only when no Job / Step argument was found", bool(missing), func=w, node=n.ast,
                   instance=f"lookup-guard:{unparse(n.ast)[:50]}",
                   message="the Job/Step look-up of the wrapper raises (or falls back) although an argument was found: every decorated phase fails")
    tr = None
    child = call
    for a in ancestors(call):
        if isinstance(a, ast.Try) and any(child is s or any(child is x for x in ast.walk(s)) for s in a.body):
            tr = a
            break
    ctx.require(tr is not None, "C16.R2: the call of the wrapped function is not inside a try statement")
    cids = g.node_containing(call)
    ctx.require(bool(cids), "C16.R2: CFG node of the wrapped call not found")
    recs = [c for c in w.calls() if isinstance(c.func, ast.Attribute) and c.func.attr == "recover"
            and resolves_to(p, w, c, [f"{REC}.FailureManager.recover"])]
    rec_ids = [i for c in recs for i in g.node_containing(c)]
    explicit = lambda n: n.kind == "raise_stmt"  # noqa: E731

    # exceptions that must leave without recovery
    for name in NO_RECOVER:
        h = first_handler(p, tr, name)
        if h is None:
            exc_ancestors(p, name)  # (validates the class name) - no handler at all: it propagates; the RECOVER rows below report a missing catch-all
            ctx.ob("R2", f"{name} propagates (no handler)", True, func=w, node=tr, instance=f"norecover:{name}", trivial=True)
            continue
        hid = g.ids_of(h)
        reg = g.reach(hid, kinds=NORMAL, include_src=True)
        swallowed = g.exit in reg
        recovers = any(i in reg for i in rec_ids)
        ctx.ob("R2", f"{name} is re-raised without calling recover", not swallowed and not recovers, func=w, node=h,
               instance=f"norecover:{name}",
               message=f"{name} caught by `except {unparse(h.type) if h.type else ''}` is "
               + ("handed to failure_manager.recover" if recovers else "swallowed (the phase looks successful)"),
               witness=g.describe(g.path(hid[0], [g.exit] + rec_ids, kinds=NORMAL) or []))
    # exceptions that must be recovered
    rec_handlers = {}
    for name in RECOVER:
        h = first_handler(p, tr, name)
        if h is None:
            ctx.ob("R2", f"{name} is routed to failure_manager.recover", False, func=w, node=tr, instance=f"recover:{name}",
                   message=f"no except clause of the wrapper catches {name}: the failure is never recovered")
            continue
        hid = g.ids_of(h)
        esc = g.escape(hid[0], rec_ids, targets=[g.exit, g.raise_], kinds=ALL, exc_from=explicit) if rec_ids else [hid[0]]
        ctx.ob("R2", f"{name} is routed to failure_manager.recover on every path", esc is None, func=w, node=h,
               instance=f"recover:{name}",
               message=f"{name} can leave the wrapper without failure_manager.recover being called",
               witness=g.describe(esc or []))
        rec_handlers[id(h)] = h
    ctx.require(bool(recs), "C16.R2: the wrapper never calls failure_manager.recover")
    fm_recover = p.func(f"{REC}.FailureManager.recover")
    for c in recs:
        b = bind_args(fm_recover.node, c) or {}
        h = next((a for a in ancestors(c) if isinstance(a, ast.ExceptHandler) and a in tr.handlers), None)

        def picked_by(name_expr, cls_q):
            return isinstance(name_expr, ast.Name) and _is_lookup_var(p, w, name_expr.id, (cls_q,))

        ok_job = picked_by(b.get("job"), JOB)
        ok_step = picked_by(b.get("step"), STEP_CLS)
        e = b.get("exception")
        ok_exc = h is not None and isinstance(e, ast.Name) and e.id == h.name
        ctx.ob("R2", "recover(job, step, e) receives the Job, the Step and the caught exception", ok_job and ok_step and ok_exc and is_awaited(c),
               func=w, node=c, instance="recover:args",
               message=f"`{unparse(c)}`: job is a Job={ok_job}, step is a Step={ok_step}, exception is the caught one={ok_exc}, awaited={is_awaited(c)}")
        # normal completion of the phase never reaches recover
        rid = g.node_containing(c)
        reach_n = g.reach(cids, kinds=NORMAL)
        ctx.ob("R2", "normal completion of the phase does not call recover", not any(i in reach_n for i in rid), func=w, node=c,
               instance="recover:only-on-failure", message="failure_manager.recover is reached on the normal path")
        # failure of recover propagates
        leak = None
        for i in rid:
            for b_ in [x for x, k in g.succ[i] if k == "exc"]:
                if b_ == g.raise_:
                    continue
                pth = g.path(b_, [g.exit], kinds=ALL)
                if pth is not None:
                    leak = [i, *pth]
        ctx.ob("R2", "a failure of recover propagates to the caller", leak is None, func=w, node=c, instance="recover:propagates",
               message="an exception raised by failure_manager.recover is swallowed: the step continues as if the job had succeeded",
               witness=g.describe(leak or []))
        # successful recovery returns normally
        ctx.ob("R2", "a successful recover lets the phase return normally", any(g.exit in g.reach([i], kinds=NORMAL) for i in rid),
               func=w, node=c, instance="recover:returns", message="after a successful recovery the wrapper still raises")


# --------------------------------------------------------------------------- R3


STAGES = [
    ("build_graph", [f"{UTILS}.ProvenanceGraph.build_graph"], False),
    ("create_graph_mapper", [f"{UTILS}.create_graph_mapper"], False),
    ("lock acquisition", None, False),
    ("_synchronize_workflows", [f"{RFM}._synchronize_workflows"], False),
    ("_populate_workflow", [f"{FM}._populate_workflow"], False),
    ("_inject_tokens", [f"{FM}._inject_tokens"], False),
    ("restore", [f"{STEP_CLS}.restore"], True),
    ("save", [f"{CORE_WF}.Workflow.save"], False),
    ("executor.run", ["streamflow.workflow.executor.StreamFlowExecutor.run"], False),
]


def _stage_sites(p, f, spec, depth=2):
    label, names, fallback = spec
    memo = getattr(p, "_c16_sites", None)
    if memo is None:
        memo = p._c16_sites = {}
    key = (f.qualname, label, depth)
    if key not in memo:
        memo[key] = lock_sites(p, f, depth) if names is None else stage_calls(p, f, names, attr_fallback=fallback, depth=depth)
    return memo[key]


def _ids(g, sites):
    return sorted({i for c, _ in sites for i in g.node_containing(c)})


def _pair_order(p, f, sa, sb, depth=2):
    """None when stage `sa` precedes stage `sb` on every path of `f` (helpers followed), else
    (message, witness, ast node)."""
    g = f.cfg
    A, B = _stage_sites(p, f, sa, depth), _stage_sites(p, f, sb, depth)
    if not A or not B:
        return None
    shared = [(c, h) for c, h in A if h is not None and any(c is c2 for c2, _ in B)]
    for c, h in shared:
        r = _pair_order(p, h, sa, sb, depth - 1) if depth > 0 else None
        if r is not None:
            return (f"inside {h.name}: {r[0]}", r[1], c)
    B2 = [(c, h) for c, h in B if not any(c is c2 for c2, _ in shared)]
    ia, ib = _ids(g, A), _ids(g, B2)
    if not ib:
        return None

    def loops_of(sites):
        return {id(a): a for c, _ in sites for a in ancestors(c) if isinstance(a, (ast.For, ast.AsyncFor, ast.While))}

    # a stage performed in a loop (possibly zero iterations) is represented by the loop head
    lb_ = loops_of(B2)
    heads = [i for k, lp in loops_of(A).items() if k not in lb_ for i in g.ids_of(lp.test if isinstance(lp, ast.While) else lp)]
    dom = list(ia) + heads
    bad = [b for b in ib if not g.dominates(dom, b)]
    if bad:
        return (f"`{sb[0]}` can run before / without `{sa[0]}`", g.describe(g.path(g.entry, bad[:1], avoid=dom) or []), g.nodes[bad[0]].ast)
    after_b = g.reach(ib)
    again = [a for a in ia if a in after_b and a not in ib]
    if again:
        return (f"`{sa[0]}` runs (again) after `{sb[0]}`", g.describe(g.path(ib[0], again[:1]) or g.path(ib[-1], again[:1]) or []), g.nodes[again[0]].ast)
    return None


def _direct_sites(p, f, spec, depth=2, binding=None):
    """Direct call sites of a stage, descending into helpers: [(function containing the call, call, binding)]
    where binding maps the helper's parameter names to the caller's argument expressions (one level)."""
    out = []
    for c, h in _stage_sites(p, f, spec, depth):
        if h is None:
            out.append((f, c, binding))
        elif depth > 0:
            b = bind_args(h.node, c, bound=(h.cls is not None)) or {}
            out += _direct_sites(p, h, spec, depth - 1, binding=(f, b) if binding is None else None)
    return out


_FEEDERS = {"append": (0, True), "add": (0, True), "appendleft": (0, True), "insert": (1, True), "extend": (0, False), "update": (0, False)}


def _accumulated(f, e, use, limit=8):
    """[(fed expression, it is one element (append / add / insert) rather than a collection (extend / update / +=),
    CFG node ids of the feeding statement)] for the collections expression `e` of `f` is assembled from by mutation
    (refactoring B20-2: a list display of starred generators written as `xs = list(..); xs.extend(gen); ..`): the
    locals mentioned by `e` (plain assignments and the fed expressions themselves followed).  Only feeds that certainly
    happened when `use` is evaluated count: the feeding statement dominates the use, or - the loop form of a generator -
    it lies in a loop that is complete before the use (the loop head dominates the use, the use is outside)."""
    g = f.cfg
    uids = g.node_containing(use)
    out, names, todo = [], set(), [e]
    while todo:
        x = todo.pop()
        for n in [x, *ast.walk(x)]:
            if not (isinstance(n, ast.Name) and isinstance(n.ctx, ast.Load)) or n.id in names or len(names) >= limit:
                continue
            ds = defs_of(f, n.id)
            if not ds or any(d.kind not in ("assign", "walrus", "aug") for d in ds):
                continue
            names.add(n.id)
            cands = [(d.value, False, d.stmt) for d in ds if d.kind == "aug" and d.value is not None]
            for c in f.calls():
                if isinstance(c.func, ast.Attribute) and c.func.attr in _FEEDERS and isinstance(c.func.value, ast.Name) and c.func.value.id == n.id:
                    i, single = _FEEDERS[c.func.attr]
                    if len(c.args) > i and not c.keywords:
                        cands.append((c.args[i], single, c))
            for d in ds:
                if d.kind in ("assign", "walrus") and d.value is not None:
                    todo.append(d.value)
            for v, single, at in cands:
                ids = (g.ids_of(at) if isinstance(at, ast.stmt) else []) or g.node_containing(at)
                if not ids or not uids:
                    continue
                sure = all(g.dominates(ids, u) for u in uids)
                if not sure:
                    loops = [a for a in ancestors(at) if isinstance(a, (ast.For, ast.AsyncFor))]
                    if loops and not any(a is loops[-1] for a in ancestors(use)):
                        heads = g.ids_of(loops[-1])
                        sure = bool(heads) and all(g.dominates(heads, u) for u in uids)
                if sure:
                    out.append((v, single, ids))
                    todo.append(v)
    return out


def _test_views(f, t, barrier=()):
    """[the condition of CFG test node `t` as written, the same condition with every local temporary replaced by the
    expression it was assigned] - the second only when each such local has exactly one reaching definition (a plain,
    un-awaited assignment, see facts.expand_test) and no node of `barrier` (the assembly stages, which change what the
    defining expression would evaluate to) can run between that definition and the test: `k = len(wf.steps)` taken
    before the workflow is populated says nothing about the workflow that is tested afterwards."""
    g = f.cfg
    views = [t.ast]
    names = {}
    for x in ast.walk(t.ast):
        if isinstance(x, ast.Name) and isinstance(x.ctx, ast.Load) and x.id not in names:
            names[x.id] = x
    changed = False
    for name, x in names.items():
        try:
            ds = reaching_defs(f, name, x)
        except Exception:  # noqa: BLE001
            continue
        if not (len(ds) == 1 and ds[0].kind == "assign" and ds[0].index is None and ds[0].value is not None and ds[0].stmt is not None):
            continue
        if any(isinstance(y, (ast.Await, ast.Yield, ast.YieldFrom)) for y in ast.walk(ds[0].value)):
            continue
        dids = g.ids_of(ds[0].stmt) or g.node_containing(ds[0].stmt)
        if not dids or not g.dominates(dids, t.id):
            return views
        after = g.reach(dids, avoid=[t.id])
        if any(b in after and b not in dids and t.id in g.reach([b]) for b in barrier):
            return views
        changed = True
    if changed:
        views.append(expand_test(f, t.ast))
    return views


def r3(ctx):
    p = ctx.prog
    f = p.func(f"{RFM}._recover")
    g = f.cfg
    sites = {spec[0]: _stage_sites(p, f, spec) for spec in STAGES}
    for spec in STAGES:
        label = spec[0]
        ss = sites[label]
        aw = all(is_awaited(c) or any(isinstance(a, ast.Await) for a in ancestors(c)) for c, _ in ss if isinstance(c, ast.Call))
        ctx.ob("R3", f"_recover performs `{label}` (awaited)", bool(ss) and aw, func=f, node=(ss[0][0] if ss else f.node),
               instance=f"stage:{label}", message=f"_recover has no (awaited) `{label}` stage")
    present = [spec for spec in STAGES if sites[spec[0]]]
    for sa, sb in zip(present, present[1:]):
        r = _pair_order(p, f, sa, sb)
        ctx.ob("R3", f"`{sa[0]}` precedes `{sb[0]}` on every path", r is None, func=f, node=(r[2] if r else sites[sb[0]][0][0]),
               instance=f"order:{sa[0]}<{sb[0]}", message=(r[0] if r else ""), witness=(r[1] if r else []))
    spec_of = {s[0]: s for s in STAGES}
    # the provenance search starts from everything the failed job consumed
    fjob = param_of_type(p, f, JOB)
    ctx.require(fjob is not None, "C16.R3: _recover has no Job parameter")
    bg = p.func(f"{UTILS}.ProvenanceGraph.build_graph")
    for h, c, bnd in _direct_sites(p, f, spec_of["build_graph"]):
        b = bind_args(bg.node, c) or {}
        e = b.get("inputs")
        who = fjob if h is f else None
        if who is None:
            ctx.require(False, "C16.R3: build_graph is called from a helper: cannot identify the failed job's inputs")
        # the argument as written, and - when the list is assembled by an extracted helper - the helper's return
        # expressions with the failed job translated to the parameter that receives it
        views = helper_views(p, h, e, {"job": who}) if e is not None else []
        # .. and the pieces a list assembled by mutation is fed with (`xs.extend(<generator>)`, `xs.append(..)`, `+=`)
        feeds = _accumulated(h, e, c) if e is not None else []
        for fe, _single, _ids in feeds:
            views += helper_views(p, h, fe, {"job": who})

        def _inputs_of(hf, ex, wj):
            return wj is not None and mentions(
                hf, ex, lambda n: isinstance(n, ast.Attribute) and n.attr == "inputs" and isinstance(n.value, ast.Name) and n.value.id == wj)

        def _job_token_of(hf, ex, wj):
            return wj is not None and mentions(
                hf, ex, lambda n: isinstance(n, ast.Call) and resolves_to(p, hf, n, ["streamflow.workflow.utils.get_job_token"], attr_fallback=False)
                and any(isinstance(x, ast.Attribute) and x.attr == "name" and isinstance(x.value, ast.Name) and x.value.id == wj for a in n.args for x in [a, *ast.walk(a)]))

        has_inputs = any(_inputs_of(hf, ex, roles.get("job")) for hf, ex, roles in views)
        has_job = any(_job_token_of(hf, ex, roles.get("job")) for hf, ex, roles in views)

        # the extra tokens come from connector ports / job ports only
        def _wanted(hf, elt):
            elt = strip(elt)
            if isinstance(elt, ast.Subscript) and isinstance(elt.value, ast.Attribute) and elt.value.attr == "token_list":
                return "streamflow.workflow.port.ConnectorPort"
            if isinstance(elt, ast.Call) and resolves_to(p, hf, elt, ["streamflow.workflow.utils.get_job_token"], attr_fallback=False):
                return "streamflow.workflow.port.JobPort"
            return None

        def _port_class_known(hf, facts, want):
            return any(v is True and isinstance(x, ast.Call) and isinstance(x.func, ast.Name) and x.func.id == "isinstance" and len(x.args) == 2
                       and p.resolve_expr(hf.module, x.args[1]) == want for x, v in facts)

        filt_ok = True
        for hf, ex, _roles in views:
            for o in origins(hf, ex):
                for gen in [x for x in ast.walk(o) if isinstance(x, (ast.GeneratorExp, ast.ListComp))]:
                    want = _wanted(hf, gen.elt)
                    if want is not None:
                        filt_ok = filt_ok and _port_class_known(hf, [y for cond in gen.generators[0].ifs for y in implied(cond, True)], want)
        # a single element fed by `xs.append(<elt>)`: the filter is what the dominating tests establish there
        for fe, single, ids in feeds:
            want = _wanted(h, fe) if single else None
            if want is not None:
                filt_ok = filt_ok and _port_class_known(h, [y for i in ids for y in path_facts(h.cfg, i)], want)
        has_inputs = has_inputs and filt_ok
        ctx.ob("R3", "build_graph starts from the failed job's input tokens and its job token", has_inputs and has_job, func=h, node=c, instance="build_graph:inputs",
               message=f"the provenance search does not start from failed_job.inputs (found={has_inputs}) and the job token (found={has_job}): lost inputs are not regenerated")
    # _recover gives up only when there is nothing to recover
    stage_ids = {i for spec in STAGES for c, _h in sites[spec[0]] for i in g.node_containing(c)}
    for n in g.nodes.values():
        if n.kind != "raise_stmt":
            continue
        empty = False
        for t_ in g.nodes.values():
            if t_.kind == "test" and t_.ast is not None and t_.id != n.id and g.dominates(t_.id, n.id):
                for k, tr in (("t", True), ("f", False)):
                    if n.id in region(g, t_.id, k) and n.id not in region(g, t_.id, "f" if k == "t" else "t"):
                        # the test as written and with its operands read through their reaching definitions
                        # (`k = len(wf.steps); if k == 0` / `e = mapper.dag_tokens.empty(); if e`)
                        for view in _test_views(f, t_, stage_ids):
                            for e, v in implied(view, tr):
                                if isinstance(e, ast.Call) and isinstance(e.func, ast.Attribute) and e.func.attr == "empty" and v is True:
                                    empty = True
                            if implies_empty(p, f, view, tr, lambda x: isinstance(x, ast.Attribute) and x.attr in ("steps", "dag_tokens")):
                                empty = True
        ctx.ob("R3", "_recover aborts only when the token graph / the recovery workflow is empty", empty, func=f, node=n.ast,
               instance=f"abort-guard:{unparse(n.ast.exc.func) if isinstance(n.ast.exc, ast.Call) else 'raise'}:{sum(1 for m in g.nodes.values() if m.kind == 'raise_stmt' and m.id < n.id)}",
               message=f"`{unparse(n.ast)[:80]}` is reached for a non-empty graph / workflow: every recovery is aborted")
    # the optional retry delay is awaited only when one is configured (the default is None)
    dh = p.func(f"{RFM}._do_handle_failure")
    gd = dh.cfg
    for c in dh.calls():
        if rcall(p, dh, c) == ["asyncio.sleep"] and c.args and mentions(dh, c.args[0], lambda n: isinstance(n, ast.Attribute) and n.attr == "retry_delay", depth=1):
            facts = [x for i in gd.node_containing(c) for x in path_facts(gd, i)]
            guarded = False
            for e, v in facts:
                if isinstance(e, ast.Compare) and len(e.ops) == 1 and isinstance(e.comparators[0], ast.Constant) and e.comparators[0].value is None and isinstance(
                        e.left, ast.Attribute) and e.left.attr == "retry_delay":
                    guarded = guarded or (isinstance(e.ops[0], ast.IsNot) and v) or (isinstance(e.ops[0], ast.Is) and not v)
                if isinstance(e, ast.Attribute) and e.attr == "retry_delay" and v is True:
                    guarded = True
            ctx.ob("R3", "the retry delay is awaited only when retry_delay is configured", guarded and is_awaited(c), func=dh, node=c, instance="delay-guard",
                   message="`asyncio.sleep(self.retry_delay)` is reached with retry_delay None (the default): every failure handling raises TypeError")
    # restore covers every step of the recovery workflow
    wf_exprs = []  # (label, function, expr, binding)
    for h, c, bnd in _direct_sites(p, f, spec_of["restore"]):
        gh = h.cfg
        loop = next((a for a in ancestors(c) if isinstance(a, (ast.For, ast.AsyncFor))), None)
        comp = next((a for a in ancestors(c) if isinstance(a, (ast.GeneratorExp, ast.ListComp))), None)
        ok, msg = True, ""
        if comp is not None and (loop is None or any(a is loop for a in ancestors(comp))):
            # `await asyncio.gather(*(step.restore(..) for step in wf.steps.values()))`
            gen = comp.generators[0]
            base = next((x.value for x in [strip(gen.iter), *ast.walk(strip(gen.iter))] if isinstance(x, ast.Attribute) and x.attr == "steps"), None)
            recv = c.func.value if isinstance(c.func, ast.Attribute) else None
            tn = {n.id for n in ast.walk(gen.target) if isinstance(n, ast.Name)}
            awaited_all = any(isinstance(a, ast.Await) for a in ancestors(comp))
            if base is None or len(comp.generators) != 1 or gen.ifs or not (isinstance(recv, ast.Name) and recv.id in tn) or not awaited_all:
                ok, msg = False, f"`{unparse(comp)[:80]}` does not await restore for every step of the recovery workflow"
            else:
                wf_exprs.append(("restore loop", h, base, bnd))
        elif loop is None:
            ok, msg = False, "restore is not called in a loop over the steps"
        else:
            it = strip(loop.iter)
            base = None
            for x in [it, *ast.walk(it)]:
                if isinstance(x, ast.Attribute) and x.attr == "steps":
                    base = x.value
            recv = c.func.value if isinstance(c.func, ast.Attribute) else None
            tnames = {n.id for n in ast.walk(loop.target) if isinstance(n, ast.Name)}
            if base is None:
                ok, msg = False, f"the loop iterates `{unparse(loop.iter)}`, not the steps of the recovery workflow"
            elif not (isinstance(recv, ast.Name) and recv.id in tnames):
                ok, msg = False, f"restore is called on `{unparse(recv)}`, not on the loop variable"
            else:
                wf_exprs.append(("restore loop", h, base, bnd))
                iid = gh.ids_of(loop)
                rid = gh.node_containing(c)
                body = [b for i in iid for b in [x for x, k in gh.succ[i] if k == "t"]]
                skip = next((pth for b in body if b not in rid for pth in [gh.path(b, iid, avoid=rid)] if pth), None)
                after = [x for i in iid for x, k in gh.succ[i] if k == "f"]
                brk = next((pth for b in body for pth in [gh.path(b, after, avoid=iid)] if pth and after), None)
                if skip:
                    ok, msg = False, "an iteration can skip restore: " + " -> ".join(gh.describe(skip)[:4])
                elif brk:
                    ok, msg = False, "the loop can be left before every step is restored: " + " -> ".join(gh.describe(brk)[:4])
        ctx.ob("R3", "restore is awaited for every step of the recovery workflow", ok, func=h, node=c, instance="restore:coverage",
               message=msg)

    # one workflow object through all stages
    def arg_of(label, callee_q, pname, bound):
        for h, c, bnd in _direct_sites(p, f, spec_of[label]):
            b = bind_args(p.func(callee_q).node, c, bound=bound) or {}
            if pname in b:
                wf_exprs.append((label, h, b[pname], bnd))

    arg_of("_synchronize_workflows", f"{RFM}._synchronize_workflows", "workflow", True)
    arg_of("_populate_workflow", f"{FM}._populate_workflow", "workflow", False)
    arg_of("_inject_tokens", f"{FM}._inject_tokens", "workflow", False)
    for h, c, bnd in _direct_sites(p, f, spec_of["save"]):
        if isinstance(c.func, ast.Attribute):
            wf_exprs.append(("save", h, c.func.value, bnd))
    for h, c, bnd in _direct_sites(p, f, spec_of["executor.run"]):
        for o in origins(h, c.func.value) if isinstance(c.func, ast.Attribute) else []:
            o = strip(o)
            if isinstance(o, ast.Call) and o.args:
                wf_exprs.append(("executor", h, o.args[0], bnd))
            elif isinstance(o, ast.Call) and o.keywords:
                wf_exprs.append(("executor", h, o.keywords[0].value, bnd))
    ctx.require(len(wf_exprs) >= 4, "C16.R3: could not identify the workflow operand of the assembly stages")

    def loaded(h, e, bnd, depth=2):
        for o in origins(h, e):
            o = strip(o)
            if isinstance(o, ast.Call) and resolves_to(p, h, o, ["streamflow.persistence.loading_context.WorkflowBuilder.load_workflow"]):
                return True
            if isinstance(o, ast.Name) and bnd is not None and o.id in bnd[1] and depth > 0:
                if loaded(bnd[0], bnd[1][o.id], None, depth - 1):
                    return True
        return False

    for label, h, e, bnd in wf_exprs:
        ctx.ob("R3", f"`{label}` operates on the workflow loaded by WorkflowBuilder.load_workflow", loaded(h, e, bnd), func=h, node=e,
               instance=f"same-workflow:{label}",
               message=f"`{label}` uses `{unparse(e)}`, which is not the freshly loaded recovery workflow")


# --------------------------------------------------------------------------- R4

STATEFUL = [f"{STEP}.ScatterStep", f"{STEP}.LoopCombinatorStep", "streamflow.cwl.transformer.DefaultTransformer"]


def _trivial_body(fn) -> bool:
    for s in fn.node.body:
        if isinstance(s, ast.Expr) and isinstance(s.value, ast.Constant):
            continue
        if isinstance(s, ast.Pass):
            continue
        if isinstance(s, ast.Return) and (s.value is None or (isinstance(s.value, ast.Constant) and s.value.value is None)):
            continue
        return False
    return True


def _availability_polarity(f, root, _seen=None) -> list[tuple[ast.AST, bool | None]]:
    """For every comprehension filter below `root` that reads `<x>.token_availability[...]`:
    (filter expr, value of the availability entry forced by a passing filter)."""
    out = []
    for n in [root, *ast.walk(root)]:
        if isinstance(n, ast.comprehension):
            for cond in n.ifs:
                subs = [x for x in [cond, *ast.walk(cond)] if _is_avail(x, f)]
                for s in subs:
                    forced = [v for e, v in implied(cond, True) if e is s]
                    out.append((cond, forced[0] if forced else None))
    # the same selection written as a loop: a list / set local mentioned below `root` that is filled by
    # `<local>.append(..)` / `.add(..)`; the facts of the tests dominating the feeding call are the filter
    # (an unguarded feed selects nothing: value None)
    seen = _seen if _seen is not None else set()
    for n in [root, *ast.walk(root)]:
        if not (isinstance(n, ast.Name) and isinstance(n.ctx, ast.Load)) or n.id in seen:
            continue
        seen.add(n.id)
        for c, facts in _feeds(f, n.id):
            forced = [v for e, v in facts if _is_avail(e, f)]
            out.append((c, forced[0] if forced else None))
        for d in defs_of(f, n.id):
            if d.kind == "assign" and d.index is None and d.value is not None and seen is not None and len(seen) < 12:
                out += _availability_polarity(f, d.value, seen)
    return out


def _selection_roots(p, f, arg):
    """[(function, expression)] the expressions that build `arg`: its origins in `f`, and - when an origin is a plain
    (un-awaited) call of a synchronous helper of this code base whose every exit returns a value - the origins of the
    helper's returned expressions, read in the helper's own scope (inlining bound: one call)."""
    out = []
    for o in origins(f, arg):
        h = None
        if isinstance(o, ast.Call) and not isinstance(parent(o), ast.Await):
            qs = p.resolve_call(f, o, fanout=False)
            if len(qs) == 1 and p.has(qs[0]):
                try:
                    h = p.func(qs[0])
                except Exception:  # noqa: BLE001
                    h = None
        if h is not None and isinstance(h.node, ast.FunctionDef) and not h.decorators:
            rets = [n for n in h.body_nodes() if isinstance(n, ast.Return)]
            if rets and all(r.value is not None for r in rets):
                for r in rets:
                    out += [(h, x) for x in origins(h, r.value)]
                continue
        out.append((f, o))
    return out


def _denotes_attr(f, x, attr: str) -> bool:
    """`x` reads attribute `attr` of some object: `<obj>.<attr>` itself, or a local of `f` whose every definition is a
    plain whole assignment of such an attribute read (`port_tokens = mapper.port_tokens`: the attribute chain bound
    to a local - the same mapping object as long as the attribute is not rebound in between)."""
    x = strip(x)
    if isinstance(x, ast.Attribute):
        return x.attr == attr
    if f is not None and isinstance(x, ast.Name) and isinstance(x.ctx, ast.Load):
        ds = defs_of(f, x.id)
        return bool(ds) and all(
            d.kind in ("assign", "walrus") and d.index is None and d.value is not None
            and isinstance(strip(d.value), ast.Attribute) and strip(d.value).attr == attr for d in ds)
    return False


def _is_avail(x, f=None) -> bool:
    return isinstance(x, ast.Subscript) and _denotes_attr(f, x.value, "token_availability")


def _feeds(f, name):
    """[(call, facts)] for every `<name>.append(x)` / `.add(x)` / `.insert(i, x)` of the function: the facts are
    those of the tests that dominate the call (one outcome only)."""
    g = f.cfg
    out = []
    for c in f.calls():
        if isinstance(c.func, ast.Attribute) and c.func.attr in ("append", "add", "insert", "appendleft") and isinstance(c.func.value, ast.Name) \
                and c.func.value.id == name and c.args:
            out.append((c, [x for i in g.node_containing(c) for x in path_facts(g, i)]))
    return out

# ---- LoopCombinator.restore: which member of the (prefix, iteration) pair feeds the key / the counter


def _target_path(t: ast.AST, name: str, path: tuple = ()):
    """Unpacking path of `name` inside assignment / loop target `t` (() = bound as a whole), None when not bound."""
    if isinstance(t, ast.Name):
        return path if t.id == name else None
    if isinstance(t, (ast.Tuple, ast.List)):
        for i, e in enumerate(t.elts):
            if isinstance(e, ast.Starred):
                continue
            r = _target_path(e, name, path + (i,))
            if r is not None:
                return r
    return None


_SEQ_WRAP = ("list", "tuple", "sorted", "reversed", "iter", "set", "frozenset")


def _pair_member(f, e: ast.AST, param: str, seen: frozenset = frozenset()):
    """What `e` denotes relative to the mapping parameter `param` (name -> pair of tags): 'pair' one of its values,
    0 / 1 the first / second member of a value, None anything else.  Loop / comprehension targets over
    `param.values()` / `param.items()` (nested unpacking), `param[k]` / `param.get(k)`, constant subscripts of a pair
    and plain local aliases are followed."""
    e = strip(e)
    if isinstance(e, ast.Subscript):
        if isinstance(e.value, ast.Name) and e.value.id == param:
            return "pair"
        if _pair_member(f, e.value, param, seen) == "pair":
            i = strip(e.slice)
            if isinstance(i, ast.UnaryOp) and isinstance(i.op, ast.USub) and isinstance(i.operand, ast.Constant) and i.operand.value in (1, 2):
                return 2 - i.operand.value
            if isinstance(i, ast.Constant) and i.value in (0, 1) and not isinstance(i.value, bool):
                return i.value
        return None
    if isinstance(e, ast.Call) and isinstance(e.func, ast.Attribute) and e.func.attr == "get" and isinstance(e.func.value, ast.Name) and e.func.value.id == param:
        return "pair"
    if not isinstance(e, ast.Name) or e.id in seen or e.id == param:
        return None
    kinds = []
    for d in defs_of(f, e.id):
        if d.kind in ("for", "comp") and d.stmt is not None:
            path = _target_path(d.stmt.target, e.id)
            its = [strip(o) for o in origins(f, d.value)]
            while its and all(isinstance(o, ast.Call) and isinstance(o.func, ast.Name) and o.func.id in _SEQ_WRAP and len(o.args) == 1 and not any(
                    k.arg != "reverse" for k in o.keywords) for o in its):
                its = [strip(o.args[0]) for o in its]
            k = None
            for o in its:
                via = o.func.attr if isinstance(o, ast.Call) and isinstance(o.func, ast.Attribute) and isinstance(o.func.value, ast.Name) and o.func.value.id == param else None
                if via == "items" and path is not None and path[:1] == (1,):
                    path_ = path[1:]
                elif via == "values" and path is not None:
                    path_ = path
                else:
                    path_ = None
                k = None if path_ is None else ("pair" if path_ == () else (path_[0] if len(path_) == 1 and path_[0] in (0, 1) else None))
            kinds.append(k)
        elif d.kind in ("assign", "walrus") and d.value is not None:
            if d.kind == "assign" and d.index is not None:
                tg = [t for t in getattr(d.stmt, "targets", [getattr(d.stmt, "target", None)]) if t is not None]
                path = next((r for t in tg for r in [_target_path(t, e.id)] if r is not None), None)
                whole = _pair_member(f, d.value, param, seen | {e.id})
                kinds.append(path[0] if whole == "pair" and path is not None and len(path) == 1 and path[0] in (0, 1) else None)
            else:
                kinds.append(_pair_member(f, d.value, param, seen | {e.id}))
        else:
            kinds.append(None)
    return kinds[0] if kinds and all(k == kinds[0] for k in kinds) else None


def _pair_deps(f, e: ast.AST, param: str, skip, depth: int = 4, seen: frozenset = frozenset()) -> set:
    """Members (0 / 1 / 'pair' = a whole pair, not indexed) of the values of `param` that expression `e` is computed
    from; sub-expressions accepted by `skip` (reads of the map being restored) do not count; plain locals are
    followed through their assignments."""
    out: set = set()
    if skip(e):
        return out
    k = _pair_member(f, e, param)
    if k is not None:
        return {k}
    if isinstance(e, ast.Name):
        if depth > 0 and e.id not in seen:
            for d in defs_of(f, e.id):
                if d.kind in ("assign", "walrus", "aug") and d.value is not None:
                    out |= _pair_deps(f, d.value, param, skip, depth - 1, seen | {e.id})
        return out
    for c in ast.iter_child_nodes(e):
        out |= _pair_deps(f, c, param, skip, depth, seen)
    return out


def r4(ctx):
    p = ctx.prog
    for cq in STATEFUL:
        c = p.cls(cq)
        ctx.require(p.is_subclass(cq, STEP_CLS), f"C16.R4: {cq} is no longer a Step")
        m = c.methods.get("restore")
        ctx.ob("R4", f"{c.name} overrides restore with a non-trivial body", m is not None and not _trivial_body(m),
               qualname=cq, func=m, node=(m.node if m else c.node), instance=f"override:{c.name}",
               message=f"{c.name} keeps run-time state but inherits the no-op restore: a recovered run resumes from a wrong state")
    # LoopCombinatorStep.restore forwards to the combinator
    f = p.func(f"{STEP}.LoopCombinatorStep.restore") if "restore" in p.cls(f"{STEP}.LoopCombinatorStep").methods else None
    if f is None:
        ctx.ob("R4", "LoopCombinatorStep.restore awaits combinator.restore on every normal path", False, qualname=f"{STEP}.LoopCombinatorStep",
               instance="loop:forward", message="LoopCombinatorStep has no restore of its own")
    else:
        g = f.cfg
        cs = [c for c in f.calls() if isinstance(c.func, ast.Attribute) and c.func.attr == "restore"
              and isinstance(c.func.value, ast.Attribute) and c.func.value.attr == "combinator"]
        ids = [i for c in cs for i in g.node_containing(c)]
        esc = g.escape(g.entry, ids) if ids else [g.entry]
        ctx.ob("R4", "LoopCombinatorStep.restore awaits combinator.restore on every normal path", esc is None and all(is_awaited(c) for c in cs),
               func=f, node=f.node, instance="loop:forward", message="the loop combinator's iteration counters are not restored",
               witness=g.describe(esc or []))
    lc = p.cls("streamflow.workflow.combinator.LoopCombinator")
    m = lc.methods.get("restore")
    writes = m is not None and any(
        isinstance(n, (ast.Assign, ast.AugAssign)) and any(
            isinstance(t, ast.Subscript) and unparse(t.value) == "self.iteration_map"
            for t in (n.targets if isinstance(n, ast.Assign) else [n.target]))
        for n in m.body_nodes())
    ctx.ob("R4", "LoopCombinator.restore rebuilds iteration_map", bool(writes), qualname=lc.qualname, func=m,
           node=(m.node if m else lc.node), instance="loop:iteration_map",
           message="LoopCombinator.restore does not write iteration_map: resumed iterations are re-numbered from 0")
    # the restored counter of a prefix is the last component of the *iteration* tag of the (prefix, iteration) pair
    if m is not None and writes:
        ctx.require(len(m.params) >= 2, "C16.R4: LoopCombinator.restore lost its from_tags parameter")
        ftp = m.params[1]

        def map_read(x):  # the value already recorded (`self.iteration_map.get(k, d)` -> only d counts, `self.iteration_map[k]`)
            return isinstance(x, ast.Subscript) and unparse(x.value) == "self.iteration_map"

        def fresh(x):
            """Sub-expressions of a stored value that do not come from the map itself."""
            if map_read(x):
                return []
            if isinstance(x, ast.Call) and isinstance(x.func, ast.Attribute) and unparse(x.func.value) == "self.iteration_map":
                return [y for a in x.args[1:] for y in fresh(a)] + [y for k in x.keywords for y in fresh(k.value)]
            return [x]

        stores = []  # (statement, key expression, value expression)
        for n in m.body_nodes():
            if isinstance(n, (ast.Assign, ast.AugAssign)):
                for t in (n.targets if isinstance(n, ast.Assign) else [n.target]):
                    if isinstance(t, ast.Subscript) and unparse(t.value) == "self.iteration_map":
                        stores.append((n, t.slice, n.value))
        for n, key, val in stores:
            kd = _pair_deps(m, key, ftp, lambda x: False)
            vd: set = set()
            todo, leaves = [val], []
            while todo:
                x = todo.pop()
                fr = fresh(x)
                if fr == [x]:
                    # descend: a map read may sit deeper (max(self.iteration_map.get(k, d), d))
                    if any(map_read(y) or (isinstance(y, ast.Call) and isinstance(y.func, ast.Attribute) and unparse(y.func.value) == "self.iteration_map")
                           for y in ast.walk(x) if y is not x):
                        todo.extend(ast.iter_child_nodes(x))
                    else:
                        leaves.append(x)
                else:
                    todo.extend(fr)
            for x in leaves:
                vd |= _pair_deps(m, x, ftp, lambda y: False)
            key_ok = 0 in kd or "pair" in kd or (1 in kd and mentions(m, key, lambda y: isinstance(y, ast.Slice), depth=3))
            val_ok = 1 in vd or "pair" in vd
            comp = sorted({unparse(o)[:70] for x in leaves for o in origins(m, x)})
            src = {0: "the prefix tag (first member)", 1: "the iteration tag (second member)", "pair": "the whole pair"}
            ctx.ob("R4", "LoopCombinator.restore: the counter restored for a prefix is taken from the iteration tag of the (prefix, iteration) pair, the key from the prefix",
                   key_ok and val_ok, func=m, node=n, instance="loop:iteration-source",
                   message=f"`{unparse(n)[:110]}`: the key `{unparse(key)}` is computed from {sorted(src[k] for k in kd) or 'nothing of from_tags'}, "
                   f"the restored counter `{'`, `'.join(comp)}` from {sorted(src[k] for k in vd) or 'nothing of from_tags'} - the counter of a resumed loop must be the last component of the "
                   "tag of the last completed iteration (second member), recorded under the prefix (first member); otherwise resumed iterations are re-numbered "
                   "and collide with the iterations already executed")
    # ScatterStep.restore installs a filtering port
    sc = p.cls(f"{STEP}.ScatterStep").methods.get("restore")
    if sc is None:
        ctx.ob("R4", "ScatterStep.restore replaces its output port by a FilterTokenPort with a filter", False, qualname=f"{STEP}.ScatterStep",
               instance="scatter:filter", message="ScatterStep has no restore of its own")
    else:
        ok = False
        for n in sc.body_nodes():
            if isinstance(n, ast.Assign) and any(isinstance(t, ast.Subscript) and unparse(t.value).endswith("workflow.ports") for t in n.targets):
                v = strip(n.value)
                if isinstance(v, ast.Call) and resolves_to(p, sc, v, ["streamflow.workflow.port.FilterTokenPort"]):
                    b = bind_args(p.func("streamflow.workflow.port.FilterTokenPort.__init__").node, v) or {}
                    ok = "filter_function" in b and not (isinstance(b["filter_function"], ast.Constant))
        ctx.ob("R4", "ScatterStep.restore replaces its output port by a FilterTokenPort with a filter", ok, func=sc, node=sc.node,
               instance="scatter:filter", message="a restored scatter re-emits every element, also those whose results are still available")
    # polarity of the availability filters
    f = p.func(f"{RFM}._recover")
    step_restore = p.func(f"{STEP_CLS}.restore")
    found = False
    for c in f.calls():
        if isinstance(c.func, ast.Attribute) and c.func.attr == "restore" and resolves_to(p, f, c, [f"{STEP_CLS}.restore"]):
            b = bind_args(step_restore.node, c) or {}
            arg = b.get("on_tokens")
            pol = []
            roots = _selection_roots(p, f, arg) if arg is not None else []
            for hf, o in roots:
                pol += _availability_polarity(hf, o)
            found = True
            ok = bool(pol) and all(v is False for _, v in pol)
            for hf, o in roots:
                for sub in [x for x in ast.walk(o) if isinstance(x, ast.Subscript) and _denotes_attr(hf, x.value, "port_tokens")]:
                    known = membership_fact(expr_facts(sub), lambda e: unparse(e) == unparse(sub.slice),
                                            lambda e, hf=hf: mentions(hf, e, lambda k: _denotes_attr(hf, k, "port_tokens"), depth=0))
                    ok = ok and known is True  # an unmapped port has no entry: `port_tokens[name]` would raise KeyError
            ctx.ob("R4", "restore receives exactly the unavailable output tokens", ok, func=f, node=c, instance="restore:unavailable",
                   message="the on_tokens argument of restore is not filtered by `not token_availability[...]`: "
                   + ("no availability filter" if not pol else "filter keeps available tokens"))
    if not found:
        ctx.ob("R4", "restore receives exactly the unavailable output tokens", False, func=f, node=f.node, instance="restore:unavailable",
               message="_recover never calls Step.restore")
    f = p.func(f"{FM}._inject_tokens")
    g = f.cfg
    puts = [c for c in f.calls() if isinstance(c.func, ast.Attribute) and c.func.attr == "put" and resolves_to(p, f, c, [f"{CORE_WF}.Port.put"])]
    if not puts:
        ctx.ob("R4", "_inject_tokens injects exactly the available tokens", False, func=f, node=f.node, instance="inject:available",
               message="_inject_tokens never puts a token into a port of the recovery workflow")
    for c in puts:
        loop = next((a for a in ancestors(c) if isinstance(a, ast.For)), None)
        pol = []
        if loop is not None:
            for o in origins(f, loop.iter):
                pol += _availability_polarity(f, o)
        ok = bool(pol) and all(v is True for _, v in pol)
        ctx.ob("R4", "_inject_tokens injects exactly the available tokens", ok, func=f, node=c, instance="inject:available",
               message="injected tokens are not filtered by `token_availability[...]`: lost data would be injected as if present")
    # boundary rules
    add_inter = p.func("streamflow.workflow.port.InterWorkflowPort.add_inter_port")
    fstep = param_of_type(p, f, STEP_CLS)
    fjob = param_of_type(p, f, JOB)
    wfp = param_of_type(p, f, f"{CORE_WF}.Workflow")
    ctx.require(bool(fstep and fjob and wfp), "C16.R4: _inject_tokens lost its Job/Step/Workflow parameters")
    rules = []
    for c in f.calls():
        if isinstance(c.func, ast.Attribute) and c.func.attr == "add_inter_port":
            b = bind_args(add_inter.node, c) or {}
            rules.append((c, b))
    ctx.require(len(rules) >= 2, "C16.R4: boundary rules (add_inter_port) not found in _inject_tokens")

    def action(b):
        e = b.get("boundary_action")
        outs = [strip(o) for o in origins(f, e)] if e is not None else []
        if len(outs) == 1 and isinstance(outs[0], ast.Attribute) and p.resolve_expr(f.module, outs[0].value) == "streamflow.workflow.port.BoundaryAction":
            return outs[0].attr
        return None

    def job_tag(b):
        e = b.get("boundary_tags")
        for o in origins(f, e) if e is not None else []:
            o = strip(o)
            if isinstance(o, (ast.List, ast.Tuple)) and len(o.elts) == 1:
                t = strip(o.elts[0])
                if isinstance(t, ast.Call) and resolves_to(p, f, t, ["streamflow.core.utils.get_tag"]) and t.args and mentions(
                    f, t.args[0], lambda n: isinstance(n, ast.Attribute) and n.attr == "inputs" and isinstance(n.value, ast.Name) and n.value.id == fjob):
                    return True
        return False

    def to_original(b):
        e = b.get("port")
        return e is not None and mentions(f, e, lambda n: isinstance(n, ast.Call) and isinstance(n.func, ast.Attribute)
                                          and n.func.attr == "get_output_port" and isinstance(n.func.value, ast.Name) and n.func.value.id == fstep)

    def on_recovery_wf(c):
        return mentions(f, c.func.value, lambda n: isinstance(n, ast.Attribute) and n.attr == "ports" and isinstance(n.value, ast.Name) and n.value.id == wfp)

    prop = [(c, b) for c, b in rules if action(b) == "PROPAGATE" and to_original(b)]
    term = [(c, b) for c, b in rules if action(b) == "TERMINATE" and not to_original(b)]
    okp = len(prop) == 1 and job_tag(prop[0][1]) and on_recovery_wf(prop[0][0])
    ctx.ob("R4", "_inject_tokens propagates the recovered outputs to the failed step's original port, keyed by the failed job's tag",
           okp, func=f, node=(prop[0][0] if prop else f.node), instance="boundary:propagate",
           message="no `add_inter_port(port=failed_step.get_output_port(..), boundary_tags=[get_tag(failed_job.inputs.values())], "
           "boundary_action=PROPAGATE)` on the recovery workflow's port: the original workflow never receives the recovered outputs")
    okt = len(term) == 1 and job_tag(term[0][1]) and on_recovery_wf(term[0][0]) and mentions(
        f, term[0][1].get("port"), lambda n: isinstance(n, ast.Attribute) and n.attr == "ports" and isinstance(n.value, ast.Name) and n.value.id == wfp)
    ctx.ob("R4", "_inject_tokens terminates the recovery port once the failed job's tag is produced", okt, func=f,
           node=(term[0][0] if term else f.node), instance="boundary:terminate",
           message="no TERMINATE rule keyed by the failed job's tag on the recovery workflow's own port: the recovery workflow re-runs beyond the failed job")
    together = False
    if prop and term:
        a = g.node_containing(prop[0][0])
        b_ = g.node_containing(term[0][0])
        together = bool(a and b_) and (
            (g.dominates(a, b_[0]) and g.escape(a[0], b_) is None) or (g.dominates(b_, a[0]) and g.escape(b_[0], a) is None))
    ctx.ob("R4", "PROPAGATE and TERMINATE rules are always installed together", together, func=f, node=(prop or term or [(f.node,)])[0][0],
           instance="boundary:together", message="one of the two boundary rules is missing or can be installed without the other")

    # which ports get which rule: facts established by the dominating tests
    def is_iw_test(e):
        return isinstance(e, ast.Call) and isinstance(e.func, ast.Name) and e.func.id == "isinstance" and len(e.args) == 2 and p.resolve_expr(
            f.module, e.args[1]) == "streamflow.workflow.port.InterWorkflowPort"

    def out_ports(e):  # an expression denoting the workflow ports bound to the failed step's outputs
        return mentions(f, e, lambda n: isinstance(n, ast.Attribute) and n.attr == "output_ports" and isinstance(n.value, ast.Name) and n.value.id == fstep)

    def port_name(e):
        return (isinstance(e, ast.Attribute) and e.attr == "name") or isinstance(e, ast.Name)

    for label, lst in (("propagate", prop), ("terminate", term)):
        if not lst:
            _blocked(ctx, "R4", f"the {label} rule is installed exactly for the failed step's output ports", f)
            continue
        facts = [x for i in g.node_containing(lst[0][0]) for x in path_facts(g, i)]
        iw = has_fact(facts, is_iw_test, True)
        mem = membership_fact(facts, port_name, out_ports)
        ctx.ob("R4", f"the {label} rule is installed exactly for the failed step's output ports (inter-workflow ports)", iw and mem is True, func=f, node=lst[0][0],
               instance=f"boundary:{label}:where",
               message=f"the {label} rule is not guarded by `isinstance(port, InterWorkflowPort)` (={iw}) and `port.name in <failed step's output ports>` (={mem})")
    # every other mapped port forwards its tokens and terminates once all its tags arrived
    others = []
    for c, b in rules:
        e = b.get("boundary_action")
        outs = [strip(o) for o in origins(f, e)] if e is not None else []
        both = len(outs) == 1 and isinstance(outs[0], ast.BinOp) and isinstance(outs[0].op, ast.BitOr) and {
            x.attr for x in (outs[0].left, outs[0].right) if isinstance(x, ast.Attribute)} == {"PROPAGATE", "TERMINATE"}
        if both:
            others.append((c, b))
    oko, msg = False, "no `add_inter_port(port=<the port itself>, boundary_tags=<tags of the port's tokens>, PROPAGATE | TERMINATE)` for the other ports"
    for c, b in others:
        facts = [x for i in g.node_containing(c) for x in path_facts(g, i)]
        self_port = b.get("port") is not None and unparse(strip(b["port"])) == unparse(strip(c.func.value))
        tags = b.get("boundary_tags")
        all_tags = tags is not None and mentions(f, tags, lambda n: _denotes_attr(f, n, "port_tokens"), depth=1) and mentions(
            f, tags, lambda n: isinstance(n, ast.Attribute) and n.attr == "tag", depth=1) and not any(
            isinstance(x, ast.comprehension) and x.ifs for o in origins(f, tags) for x in ast.walk(o))
        where = has_fact(facts, is_iw_test, True) and membership_fact(facts, port_name, out_ports) is False
        oko = self_port and all_tags and where
        msg = f"`{unparse(c)[:90]}`: on the port itself={self_port}, keyed by all tags of the port={all_tags}, only for inter-workflow ports that are not outputs of the failed step={where}"
    ctx.ob("R4", "every other inter-workflow port forwards and terminates once all of its recorded tags arrived", oko, func=f,
           node=(others[0][0] if others else f.node), instance="boundary:others", message=msg)
    # token_list is built from the mapped tokens of the port / the duplicate-tag guard aborts only on duplicates
    comp_ok = None
    # sites where the available tokens of a port are selected: a comprehension filtered by token_availability, or the
    # feeding call of the equivalent loop (`<list>.append(..)` under a token_availability test); what is known there
    # comes from the enclosing conditional expressions *and* from the dominating if statements (CFG)
    sel_sites = [parent(n) for n in f.body_nodes() if isinstance(n, ast.comprehension) and any(_is_avail(x, f) for cond in n.ifs for x in ast.walk(cond))]
    sel_sites += [c for c in f.calls() if isinstance(c.func, ast.Attribute) and c.func.attr in ("append", "add", "insert", "appendleft") and c.args
                  and any(_is_avail(e, f) for i in g.node_containing(c) for e, _v in path_facts(g, i))]
    for comp in sel_sites:
        facts = expr_facts(comp) + [x for a in ancestors(comp) if isinstance(a, ast.Call) for x in expr_facts(a)]
        facts += [x for i in g.node_containing(comp) for x in path_facts(g, i)]
        m_ = membership_fact(facts, lambda e: isinstance(e, ast.Name), lambda e: mentions(f, e, lambda k: _denotes_attr(f, k, "port_tokens"), depth=0))
        comp_ok = m_ is not False if comp_ok is None else (comp_ok and m_ is not False)
    ctx.ob("R4", "mapped ports inject their available tokens (the conditional around the token list is not inverted)", bool(comp_ok), func=f, node=f.node,
           instance="inject:mapped", message="the token list is built only for ports that are NOT in mapper.port_tokens: nothing is injected")
    for n in g.nodes.values():
        if n.kind != "raise_stmt":
            continue
        facts = path_facts(g, n.id)
        dup = None
        for e, v in facts:
            if isinstance(e, ast.Compare) and len(e.ops) == 1 and all(
                    isinstance(strip(x), ast.Call) and isinstance(strip(x).func, ast.Name) and strip(x).func.id == "len" for x in (e.left, e.comparators[0])):
                dup = (isinstance(e.ops[0], ast.NotEq) and v) or (isinstance(e.ops[0], ast.Eq) and not v)
        ctx.ob("R4", "_inject_tokens aborts only when a port holds two tokens with one tag", dup is True, func=f, node=n.ast, instance="inject:dup-guard",
               message="the duplicate-tag guard of _inject_tokens raises when the tags are distinct (or unconditionally): every recovery fails")


# --------------------------------------------------------------------------- R5


def _survival_facts(g, dids, kills, uids):
    """Facts a definition (CFG nodes `dids`) carries to a use (`uids`) because of what lies in between: a test that
    every path from the definition to the use avoiding the other definitions (`kills`) must evaluate, and which lets
    the definition through on one outcome only (`x = A; if t: x = B; use(x)`: A arrives with `t` false)."""
    out = []
    kills = set(kills) - set(dids) - set(uids)
    live = g.reach(dids, avoid=kills, include_src=True)
    for t in g.nodes.values():
        if t.kind != "test" or t.ast is None or t.id not in live or t.id in dids or t.id in uids:
            continue
        if any(g.path(d, uids, avoid=kills | {t.id}) is not None for d in dids):
            continue  # the test can be bypassed
        can = {}
        for k in ("t", "f"):
            ss = [b for b in succ_ids(g, t.id, k) if b not in kills]
            can[k] = any(b in uids or g.path(b, uids, avoid=kills | {t.id}) is not None for b in ss)
        if can["t"] != can["f"]:
            out += implied(t.ast, can["t"])
    return out


def succ_ids(g, nid, kind):
    return [b for b, k in g.succ[nid] if k == kind]


def _valued_leaves(f, e, at, facts, depth=3, seen=frozenset()):
    """[(leaf expression, facts known where it is evaluated)] for expression `e` evaluated at `at` (an AST node of
    `f`, where `facts` hold): the branches of conditional expressions (with the outcome of their tests) and, for a
    bare local, its plain whole assignments reaching `at` (flow-sensitive), each with the facts of the tests that
    dominate the assignment and of those the assignment must pass to arrive - `x = A if t else B`,
    `if t: x = A else: x = B` and `x = B; if t: x = A` read alike."""
    e = strip(e)
    if isinstance(e, ast.IfExp):
        return (_valued_leaves(f, e.body, at, facts + implied(e.test, True), depth, seen)
                + _valued_leaves(f, e.orelse, at, facts + implied(e.test, False), depth, seen))
    if isinstance(e, ast.Name) and depth > 0 and e.id not in seen:
        ds = reaching_defs(f, e.id, at)
        if ds and all(d.kind in ("assign", "walrus") and d.index is None and d.value is not None and d.stmt is not None for d in ds):
            g = f.cfg

            def nodes(d):
                return g.node_containing(d.stmt) if d.kind == "walrus" else (g.ids_of(d.stmt) or g.node_containing(d.stmt))

            uids = (g.ids_of(at) if isinstance(at, ast.stmt) else []) or g.node_containing(at)
            every = [(d, nodes(d)) for d in defs_of(f, e.id) if d.stmt is not None and d.kind in ("assign", "walrus", "for", "with")]
            out = []
            for d in ds:
                ids = nodes(d)
                df = [x for i in ids for x in path_facts(g, i)] + (expr_facts(d.stmt) if d.kind == "walrus" else [])
                if len(ds) > 1 and ids and uids:
                    df += _survival_facts(g, ids, {i for d2, i2 in every if d2.stmt is not d.stmt for i in i2}, uids)
                out += _valued_leaves(f, d.value, d.stmt if d.kind != "walrus" else d.value, df, depth - 1, seen | {e.id})
            return out
    return [(e, facts)]


def r5(ctx):
    """_populate_workflow: every selected step and the failed step itself are loaded into the recovery
    workflow, and every plain port is replaced by an inter-workflow port (later recoveries attach to it)."""
    p = ctx.prog
    f = p.func(f"{FM}._populate_workflow")
    g = f.cfg
    loader = "streamflow.persistence.loading_context.WorkflowBuilder.load_step"
    loads = [c for c in f.calls() if isinstance(c.func, ast.Attribute) and c.func.attr == "load_step" and resolves_to(p, f, c, [loader, "streamflow.persistence.loading_context.DefaultDatabaseLoadingContext.load_step"])]
    fstep = param_of_type(p, f, STEP_CLS)
    ids_param = next((a for a in f.params if a == "step_ids"), None) or (f.params[1] if len(f.params) > 1 else None)
    ctx.require(fstep is not None and ids_param is not None, "C16.R5: _populate_workflow lost its parameters")
    all_ids = own = None
    for c in loads:
        a0 = c.args[0] if c.args else (c.keywords[0].value if c.keywords else None)
        if a0 is None:
            continue
        if isinstance(strip(a0), ast.Attribute) and strip(a0).attr == "persistent_id" and isinstance(strip(a0).value, ast.Name) and strip(a0).value.id == fstep:
            own = c
            continue
        loop = next((a for a in ancestors(c) if isinstance(a, (ast.GeneratorExp, ast.ListComp, ast.For, ast.AsyncFor))), None)
        if loop is not None and isinstance(a0, ast.Name):
            if isinstance(loop, (ast.For, ast.AsyncFor)):
                it, tg, ifs = loop.iter, loop.target, []
            else:
                it, tg, ifs = loop.generators[0].iter, loop.generators[0].target, loop.generators[0].ifs
            if isinstance(tg, ast.Name) and tg.id == a0.id and not ifs and isinstance(strip(it), ast.Name) and strip(it).id == ids_param:
                all_ids = c
    aw = lambda c: c is not None and (is_awaited(c) or any(isinstance(a, ast.Await) for a in ancestors(c)))  # noqa: E731
    ctx.ob("R5", "every selected step id is loaded into the recovery workflow", all_ids is not None and aw(all_ids) and g.escape(g.entry, g.node_containing(all_ids)) is None,
           func=f, node=(all_ids or f.node), instance="populate:steps", message="not every element of `step_ids` is passed to workflow_builder.load_step (awaited)")
    ctx.ob("R5", "the failed step itself is loaded into the recovery workflow", own is not None and aw(own) and g.escape(g.entry, g.node_containing(own)) is None,
           func=f, node=(own or f.node), instance="populate:failed-step",
           message="`await workflow_builder.load_step(failed_step.persistent_id)` is missing or conditional: the recovery workflow does not contain the job to re-run")
    wfp = param_of_type(p, f, f"{CORE_WF}.Workflow")
    creates = [c for c in f.calls() if isinstance(c.func, ast.Attribute) and c.func.attr == "create_port" and isinstance(c.func.value, ast.Name) and c.func.value.id == wfp]
    ok = False
    for c in creates:
        loop = next((a for a in ancestors(c) if isinstance(a, ast.For)), None)
        if loop is None or not mentions(f, loop.iter, lambda n: isinstance(n, ast.Attribute) and n.attr == "ports" and isinstance(n.value, ast.Name) and n.value.id == wfp, depth=1):
            continue
        b = bind_args(p.func(f"{CORE_WF}.Workflow.create_port").node, c) or {}
        cls_e, name_e = b.get("cls"), b.get("name")
        same_name = name_e is not None and isinstance(loop.target, ast.Name) and mentions(
            f, name_e, lambda n: isinstance(n, ast.Attribute) and n.attr == "name" and isinstance(n.value, ast.Name) and n.value.id == loop.target.id, depth=0)
        # only ports that are not yet connector / inter-workflow ports; job ports stay job ports
        facts = [x for i in g.node_containing(c) for x in path_facts(g, i)]

        def special(e):
            if not (isinstance(e, ast.Call) and isinstance(e.func, ast.Name) and e.func.id == "isinstance" and len(e.args) == 2):
                return False
            names = {p.resolve_expr(f.module, x) for x in (e.args[1].elts if isinstance(e.args[1], ast.Tuple) else [e.args[1]])}
            return {"streamflow.workflow.port.InterWorkflowPort", "streamflow.workflow.port.ConnectorPort"} <= names

        plain_only = has_fact(facts, special, False)
        # the class handed to create_port, case by case: every leaf of the class expression (branches of a conditional
        # expression; the definitions of a local reaching the call - refactoring B20-6: `if isinstance(port, JobPort):
        # cls = A else: cls = B`) with the facts known where the leaf is evaluated.  Job ports become job ports.
        kind_ok = True
        leaves = _valued_leaves(f, cls_e, c, facts) if cls_e is not None else []
        classes = set()
        for leaf, lf in leaves:
            q = p.resolve_expr(f.module, leaf) if isinstance(leaf, (ast.Name, ast.Attribute)) else None
            classes.add(q)
            if len(leaves) > 1 or q == "streamflow.workflow.port.InterWorkflowJobPort":
                jt = [v for e, v in lf if isinstance(e, ast.Call) and isinstance(e.func, ast.Name) and e.func.id == "isinstance"
                      and len(e.args) == 2 and p.resolve_expr(f.module, e.args[1]) == "streamflow.workflow.port.JobPort"]
                kind_ok = kind_ok and bool(jt) and ((jt[0] is True) == (q == "streamflow.workflow.port.InterWorkflowJobPort"))
        classes = {"streamflow.workflow.port.InterWorkflowPort", "streamflow.workflow.port.InterWorkflowJobPort"} if classes == {
            "streamflow.workflow.port.InterWorkflowPort", "streamflow.workflow.port.InterWorkflowJobPort"} else set()
        ok = ok or ({"streamflow.workflow.port.InterWorkflowPort", "streamflow.workflow.port.InterWorkflowJobPort"} <= classes and same_name and plain_only and kind_ok)
    ctx.ob("R5", "plain ports of the recovery workflow are replaced by inter-workflow ports of the same name", ok, func=f, node=(creates[0] if creates else f.node),
           instance="populate:ports", message="ports of the recovery workflow are not re-created as InterWorkflowPort / InterWorkflowJobPort: boundary rules cannot be attached")


# --------------------------------------------------------------------------- R6


def r6(ctx):
    """No coroutine of the recovery plumbing is created without being awaited / scheduled."""
    p = ctx.prog
    dec, fparam, wrappers, _ = _wrapper(ctx)
    names = [w.qualname for w in wrappers]
    for cq, meth, _w in PHASES:
        for d in p.overrides(cq, meth):
            names.append(d.qualname)
            names += sorted({g.qualname for g, _ in callers_of(p, [d.qualname])})
    names += [f"{RFM}._recover", f"{FM}._inject_tokens", f"{FM}._populate_workflow", f"{RFM}.recover"]
    for cq in STATEFUL:
        if "restore" in p.cls(cq).methods:
            names.append(f"{cq}.restore")
    seen = []
    for n in names:
        if n not in seen:
            seen.append(n)
    check_awaited(ctx, "R6", seen)
    check_defined(ctx, "R6", [n for n in seen if n.startswith((FM, REC))], classes=[RFM])


# --------------------------------------------------------------------------- R7


def r7(ctx):
    """A job that failed fewer times than the retry limit (or with no limit configured) is rolled back again:
    for every permitted valuation of (max_retries, version) `_update_request` can return normally."""
    p = ctx.prog
    upd = p.func(f"{RFM}._update_request")
    g = upd.cfg
    tests = [n for n in g.nodes.values() if n.kind == "test" and n.ast is not None
             and mentions(upd, n.ast, lambda x: is_version(upd, x) or is_max(upd, x))]
    gnode = tests[0].ast if tests else upd.node
    free: dict = {}
    for n in tests:
        guard_free_atoms(upd, effective_test(upd, n.ast), free)
    keys = sorted(free, key=lambda k: unparse(free[k]))
    if len(keys) > 6:
        valuations = [{}]  # too many unknowns: such tests branch both ways
    else:
        doms = [sorted(param_truth_domain(p, upd, k[1])) if k[0] == "param" else [False, True] for k in keys]
        valuations = [dict(zip(keys, bits)) for bits in itertools.product(*doms)]
    refused = None
    n_allowed = 0
    for env0 in RETRY_ENVS:
        if not retry_allowed(env0):
            continue
        n_allowed += 1
        passes, why = False, None
        for fv in valuations:
            reach, crash = guard_walk(upd, dict(env0, free=fv))
            if crash is not None:
                why = why or f"the guard raises TypeError on `{crash}`"
            elif g.exit in reach:
                passes = True
                break
        if not passes and refused is None:
            refused = (env0, why or "every path raises")
    ctx.require(n_allowed > 0, "C16.R7: no permitted (max_retries, version) valuation in the table")
    unlimited = refused is not None and refused[0]["max"] is None
    ctx.ob("R7", "a failure below the retry limit (or without a configured limit) is rolled back again", refused is None, func=upd, node=gnode,
           instance="guard:permits",
           message=(f"_update_request refuses the rollback for max_retries={refused[0]['max']}, version={refused[0]['version']} ({refused[1]}): "
                    + ("with no retry limit configured (max_retries=None, the default = unlimited) the first failure of any job aborts the run"
                       if unlimited else "a job that failed fewer times than the limit is not re-executed and the run aborts")) if refused else "")
    # the permitted branch is the counting one (the retry proceeds through the increment, it does not merely fall through)
    incs = [i for n in g.nodes.values() if n.kind == "stmt" and is_version_increment(n.ast) for i in [n.id]]
    ctx.ob("R7", "_update_request has a counting branch", bool(incs), func=upd, node=gnode, instance="guard:increment",
           message="_update_request never increments `version`: no branch of the guard stands for a permitted retry")
    # `max_retries` left out of the configuration means "no limit": the constructor default is None
    init = p.func(f"{RFM}.__init__")
    if "max_retries" in init.params:
        d = param_default(init.node, "max_retries")
        ok = d is None or (isinstance(d, ast.Constant) and (d.value is None or (isinstance(d.value, int) and not isinstance(d.value, bool) and d.value >= 1)))
        ctx.ob("R7", "the default retry limit is None (unlimited) or a positive integer", ok, func=init, node=init.node, instance="limit:default",
               message=f"RollbackFailureManager.__init__ defaults max_retries to `{unparse(d) if d is not None else ''}`: without configuration no failure is ever retried")


# --------------------------------------------------------------------------- R8

TOKEN = f"{CORE_WF}.Token"
BASE_STEP = f"{STEP}.BaseStep"


def _owner_cls(f):
    h = f
    while h is not None:
        if h.cls is not None:
            return h.cls
        h = h.outer
    return None


def _token_constructions(p, f):
    return [c for c in f.calls() if isinstance(c.func, (ast.Name, ast.Attribute)) and (unparse(c.func).rpartition(".")[2] == "Token")
            and rcall(p, f, c, fanout=False) == [TOKEN]]


def _collect_synth(p, f, e, depth, out, seen, via=None):
    """Constructions of exactly `Token` the expression `e` of `f` may denote / contain: locals are replaced by
    their assignments, calls of program functions by their return expressions (`depth` levels).
    out: id(construction) -> (function, construction, [(caller, call) through which `function` was entered])."""
    for o in origins(f, e) or [e]:
        for x in [o, *ast.walk(o)]:
            if not isinstance(x, ast.Call):
                continue
            qs = rcall(p, f, x)
            if qs == [TOKEN]:
                ent = out.setdefault(id(x), (f, x, []))
                if via is not None and not any(v[1] is via[1] for v in ent[2]):
                    ent[2].append(via)
            elif depth > 0:
                for q in qs:
                    h = p.functions.get(q)
                    if h is None or (q, id(x)) in seen or h.is_abstract:
                        continue
                    seen.add((q, id(x)))
                    for r in h.body_nodes():
                        if isinstance(r, ast.Return) and r.value is not None:
                            _collect_synth(p, h, r.value, depth - 1, out, seen, via=(f, x))


def r8(ctx):
    """Primitive tokens a step synthesises are marked recoverable (their availability *is* that flag)."""
    p = ctx.prog
    tinit = p.func(f"{TOKEN}.__init__")
    avail = p.func(f"{TOKEN}.is_available")
    ctx.require("recoverable" in tinit.params, "C16.R8: Token.__init__ has no `recoverable` parameter")
    # premise 1: the flag given to the constructor is what `recoverable` / `_recoverable` hold
    stored = {t.attr for n in tinit.body_nodes() if isinstance(n, (ast.Assign, ast.AnnAssign)) and n.value is not None
              and all(isinstance(strip(o), ast.Name) and strip(o).id == "recoverable" for o in origins(tinit, n.value))
              for t in (n.targets if isinstance(n, ast.Assign) else [n.target])
              if isinstance(t, ast.Attribute) and isinstance(t.value, ast.Name) and t.value.id == tinit.params[0]}
    ctx.ob("R8", "Token.__init__ stores its `recoverable` argument", bool(stored), func=tinit, node=tinit.node, instance="premise:stored",
           message="Token.__init__ no longer stores the `recoverable` argument: every primitive token looks lost (or available) to the rollback")
    # premise 2: availability of a primitive token is that flag
    rets = [n for n in avail.body_nodes() if isinstance(n, ast.Return)]
    selfp = avail.params[0] if avail.params else "self"

    def is_flag(e):
        e = strip(e)
        return isinstance(e, ast.Attribute) and isinstance(e.value, ast.Name) and e.value.id == selfp and (e.attr in stored or e.attr == "recoverable")

    flag_is_avail = bool(rets) and all(r.value is not None and all(is_flag(o) for o in origins(avail, r.value)) for r in rets)
    ctx.ob("R8", "Token.is_available is the recoverable flag", flag_is_avail or not stored, func=avail, node=avail.node, instance="premise:is_available",
           message="Token.is_available no longer returns the `recoverable` flag: the rollback's notion of a lost primitive token (and of a lost job token, "
           "which inherits it) changed - `_inject_tokens` / `restore` partition the tokens by this answer")
    default = param_default(tinit.node, "recoverable")
    # emission sites (class table + whole-program call index)
    pt_defs = p.overrides(BASE_STEP, "_persist_token")
    ctx.require(bool(pt_defs), "C16.R8: BaseStep._persist_token not found")
    sites: dict[int, tuple] = {}
    persist = callers_of(p, [d.qualname for d in pt_defs])
    ctx.require(len(persist) >= 10, f"C16.R8: only {len(persist)} call sites of _persist_token found")
    seen: set = set()
    for f, c in persist:
        b = bind_args(pt_defs[0].node, c) or {}
        e = b.get("token")
        if e is not None:
            _collect_synth(p, f, e, 2, sites, seen)
    for f in funcs_mentioning(p, "Token("):
        oc = _owner_cls(f)
        if oc is not None and p.is_subclass(oc.qualname, STEP_CLS):
            for c in _token_constructions(p, f):
                sites.setdefault(id(c), (f, c, []))
    ctx.require(bool(sites), "C16.R8: no construction of a primitive Token found in the steps")
    ordinal: dict[str, list] = {}
    for f, c, _v in sites.values():
        ordinal.setdefault(f.qualname, []).append(c)
    for f, c, vias in sorted(sites.values(), key=lambda fc: (fc[0].qualname, fc[1].lineno, fc[1].col_offset)):
        k = sorted(ordinal[f.qualname], key=lambda x: (x.lineno, x.col_offset)).index(c)
        b = bind_args(tinit.node, c)
        what = f"{f.qualname}: the primitive token #{k + 1} it builds is recoverable"
        if b is None:
            ctx.ob("R8", what + " (arguments forwarded with * / **: the caller decides)", True, func=f, node=c, trivial=True)
            continue
        val = b.get("value")
        flag = b.get("recoverable", default)
        flags = [strip(o) for o in origins(f, flag)] if flag is not None else []
        static_false = flag is None or any(isinstance(o, ast.Constant) and not o.value for o in flags)
        null_marker = val is not None and all(isinstance(strip(o), ast.Constant) and strip(o).value is None for o in origins(f, val))
        if static_false and null_marker:
            ctx.ob("R8", what + " (exempt: `Token(None)` null marker - skip / default placeholder, nothing was computed)", True, func=f, node=c, trivial=True)
            ctx.observe(f"C16.R8: {f.qualname} builds the null marker `{unparse(c)[:60]}` without recoverable=True (exempt)")
            continue
        ctx.ob("R8", what, not static_false, func=f, node=c, instance=f"synth:{k + 1}",
               message=f"{f.qualname} builds `{unparse(c)[:90]}` with recoverable "
               + ("omitted (default " + (unparse(default) if default is not None else "missing") + ")" if "recoverable" not in b else f"= `{unparse(flag)}`")
               + ": a primitive token has no data location, `Token.is_available` is this flag, so after a failure the rollback takes the value for lost "
               "although it is in the database; the producing step is re-run while its other outputs are still available "
               "(ScatterStep.restore then filters every element: the recovered run gathers an empty list)")
        # the flag is a parameter of the builder: the emitting caller decides - it must not rely on a false default
        pnames = {o.id for o in flags if isinstance(o, ast.Name) and o.id in f.params and all(d.kind == "param" for d in defs_of(f, o.id))}
        if not static_false and flags and len(pnames) == 1 and all(isinstance(o, ast.Name) and o.id in pnames for o in flags):
            pn = next(iter(pnames))
            for g_, x in vias:
                b2 = bind_args(f.node, x, bound=f.cls is not None)
                if b2 is None:
                    continue
                e2 = b2.get(pn, param_default(f.node, pn))
                f2 = [strip(o) for o in origins(g_, e2)] if e2 is not None else []
                bad = e2 is None or any(isinstance(o, ast.Constant) and not o.value for o in f2)
                ctx.ob("R8", f"{g_.qualname}: the token it obtains from {f.name}() is built recoverable", not bad, func=g_, node=x, instance=f"synth-via:{f.name}",
                       message=f"{g_.qualname} emits the token built by `{unparse(x)[:80]}` with `{pn}` "
                       + (f"= `{unparse(e2)}`" if pn in b2 and e2 is not None else f"left at its default `{unparse(e2) if e2 is not None else None}`")
                       + f": {f.name} builds primitive tokens with that flag, so the emitted value counts as lost after a failure although it is in the database")


def _blocked(ctx, rule, what, func):
    ctx.ob(rule, what + " (not evaluated: the construct is missing, see the finding of this rule)", True, func=func, node=func.node, trivial=True)


# --------------------------------------------------------------------------- R9

_RELS = ("<", "=", ">")
_FLIP_REL = {"<": ">", "=": "=", ">": "<"}
_COLLECT = {"add", "append", "update", "union", "extend", "insert"}


def _reparse(e):
    return ast.parse(unparse(e), mode="eval").body


def _single_return(fn):
    """The returned expression of a function whose body is (docstring +) one `return <expr>`; None otherwise."""
    body = [s for s in fn.node.body if not (isinstance(s, ast.Expr) and isinstance(s.value, ast.Constant))]
    if len(body) == 1 and isinstance(body[0], ast.Return) and body[0].value is not None and not fn.is_async:
        return body[0].value
    return None


def _inlined(p, f, e, depth=3):
    """A re-parsed copy of `e` in which every local of `f` with exactly one plain (whole) assignment is replaced by
    the assigned expression, a walrus by its value and a call of a one-expression helper (module function, or method
    of the own class through `self.` / `cls.`) by the helper's returned expression over the arguments - so that
    temporaries, aliases and extracted predicates read like the expression written in place.  Chains of locals are
    followed to their end (the text of a tag must not depend on where the chain was entered), `depth` bounds the
    nesting of inlined helper calls."""

    def sub(node, f_, d, seen, env):
        class T(ast.NodeTransformer):
            def visit_NamedExpr(self, n):
                return self.visit(n.value)

            def visit_Lambda(self, n):
                return n

            def visit_Name(self, n):
                if not isinstance(n.ctx, ast.Load):
                    return n
                if env is not None:
                    return _reparse(env[n.id]) if n.id in env else n
                if n.id not in seen and len(seen) < 24:
                    ds = defs_of(f_, n.id)
                    if len(ds) == 1 and ds[0].kind in ("assign", "walrus") and ds[0].index is None and ds[0].value is not None:
                        return sub(_reparse(ds[0].value), f_, d, seen | {n.id}, None)
                return n

            def visit_Call(self, n):
                n = self.generic_visit(n)
                if d <= 0 or any(isinstance(a, ast.Starred) for a in n.args) or any(k.arg is None for k in n.keywords):
                    return n
                callee = None
                if isinstance(n.func, ast.Name):
                    q = p.resolve_expr(f_.module, n.func)
                    callee = p.functions.get(q) if q else None
                elif (isinstance(n.func, ast.Attribute) and isinstance(n.func.value, ast.Name) and n.func.value.id in ("self", "cls")
                      and f_.cls is not None):
                    callee = p.resolve_method(f_.cls.qualname, n.func.attr)
                ret = _single_return(callee) if callee is not None else None
                if ret is None:
                    return n
                b = bind_args(callee.node, n, bound=not isinstance(n.func, ast.Name))
                names = {x.id for x in ast.walk(ret) if isinstance(x, ast.Name)}
                if b is None or not all(a in b for a in callee.params if a in names and a not in ("self", "cls")):
                    return n
                return sub(_reparse(ret), callee, d - 1, seen, {**{a: a_ for a, a_ in b.items()}})

        return T().visit(node)

    return sub(_reparse(e), f, depth, frozenset(), None)


def _is_dot(x):
    return isinstance(x, ast.Constant) and x.value == "."


def _depth_term(x):
    """(tag text, offset) when the (inlined) expression denotes depth(tag) + offset: `len(T.split('.'))`,
    `T.count('.')` (depth - 1), either plus / minus an integer constant."""
    if isinstance(x, ast.BinOp) and isinstance(x.op, (ast.Add, ast.Sub)):
        for a, b in ((x.left, x.right), (x.right, x.left)):
            if isinstance(b, ast.Constant) and isinstance(b.value, int) and not isinstance(b.value, bool) and (a is x.left or isinstance(x.op, ast.Add)):
                t = _depth_term(a)
                if t is not None:
                    return t[0], t[1] + (b.value if isinstance(x.op, ast.Add) else -b.value)
        return None
    if (isinstance(x, ast.Call) and isinstance(x.func, ast.Name) and x.func.id == "len" and len(x.args) == 1 and not x.keywords):
        a = x.args[0]
        if (isinstance(a, ast.Call) and isinstance(a.func, ast.Attribute) and a.func.attr == "split" and len(a.args) == 1 and _is_dot(a.args[0])
                and not a.keywords):
            return unparse(a.func.value), 0
        return None
    if (isinstance(x, ast.Call) and isinstance(x.func, ast.Attribute) and x.func.attr == "count" and len(x.args) == 1 and _is_dot(x.args[0])
            and not x.keywords):
        return unparse(x.func.value), -1
    return None


def _depth_compare(x):
    """(tag A, tag B, op) for `depth(A) op depth(B)` over two different tags with equal offsets; None otherwise."""
    if isinstance(x, ast.Compare) and len(x.ops) == 1:
        a, b = _depth_term(x.left), _depth_term(x.comparators[0])
        if a is not None and b is not None and a[0] != b[0] and a[1] == b[1]:
            return a[0], b[0], x.ops[0]
    return None


def _rel_eval(x, rel, first):
    """Three-valued value of the (inlined) test `x` when depth(first) `rel` depth(other tag); None = not determined."""
    if isinstance(x, ast.UnaryOp) and isinstance(x.op, ast.Not):
        v = _rel_eval(x.operand, rel, first)
        return None if v is None else not v
    if isinstance(x, ast.BoolOp):
        vs = [_rel_eval(v, rel, first) for v in x.values]
        if isinstance(x.op, ast.And):
            return False if any(v is False for v in vs) else (True if all(v is True for v in vs) else None)
        return True if any(v is True for v in vs) else (False if all(v is False for v in vs) else None)
    dc = _depth_compare(x)
    if dc is not None:
        r = rel if dc[0] == first else _FLIP_REL[rel]
        op = dc[2]
        table = {ast.Eq: "=", ast.NotEq: "<>", ast.Lt: "<", ast.LtE: "<=", ast.Gt: ">", ast.GtE: ">="}
        return (r in table[type(op)]) if type(op) in table else None
    return None


def _prefix_base(x):
    """Tag text T when `x` is `T.split('.')[:-1]`, `T.rsplit('.', 1)[0]` or `T.rpartition('.')[0]` (the tag one level up)."""
    if not isinstance(x, ast.Subscript) or not isinstance(x.value, ast.Call) or not isinstance(x.value.func, ast.Attribute):
        return None
    c, s = x.value, x.slice
    minus1 = lambda y: (isinstance(y, ast.UnaryOp) and isinstance(y.op, ast.USub) and isinstance(y.operand, ast.Constant) and y.operand.value == 1) or (  # noqa: E731
        isinstance(y, ast.Constant) and y.value == -1)
    if c.func.attr == "split" and len(c.args) == 1 and _is_dot(c.args[0]) and isinstance(s, ast.Slice) and s.lower is None and s.step is None and s.upper is not None and minus1(s.upper):
        return unparse(c.func.value)
    zero = isinstance(s, ast.Constant) and s.value == 0
    if c.func.attr == "rsplit" and len(c.args) == 2 and _is_dot(c.args[0]) and isinstance(c.args[1], ast.Constant) and c.args[1].value == 1 and zero:
        return unparse(c.func.value)
    if c.func.attr == "rpartition" and len(c.args) == 1 and _is_dot(c.args[0]) and zero:
        return unparse(c.func.value)
    return None


def r9(ctx):
    """LoopCombinatorStep.restore: first iteration <=> the parent tag and the token tag have different depths."""
    p = ctx.prog
    f = p.cls(f"{STEP}.LoopCombinatorStep").methods.get("restore")
    what_first = "LoopCombinatorStep.restore resumes from the first iteration (the token's own tag joins the restored tags) exactly when the depths of the parent tag and of the token tag differ"
    what_inter = "LoopCombinatorStep.restore resumes from an intermediate iteration (the parent tag shortened by one level joins the restored tags) exactly when the parent tag and the token tag have the same depth"
    if f is None:
        ctx.ob("R9", what_first, False, qualname=f"{STEP}.LoopCombinatorStep", instance="loop:first-iteration", message="LoopCombinatorStep has no restore of its own")
        return
    g = f.cfg
    inl: dict[int, ast.AST] = {}

    def inlined(e):
        if id(e) not in inl:
            inl[id(e)] = _inlined(p, f, e)
        return inl[id(e)]

    body = list(walk_no_nested(f.node))
    # the depth comparison(s): which two tags are compared (comparisons written in place, tests that are a temporary or a helper call)
    pairs = set()
    for n in body:
        cands = [n] if isinstance(n, ast.Compare) else ([n.test] if isinstance(n, (ast.If, ast.IfExp, ast.While)) else [])
        for c in cands:
            for y in ast.walk(inlined(c)):
                dc = _depth_compare(y)
                if dc is not None:
                    pairs.add(frozenset(dc[:2]))
    if not pairs:
        # no test of the two depths at all: whatever shortens a tag by one level does so for first iterations too
        shortened = [n for n in body if isinstance(n, ast.Subscript) and _prefix_base(n) is not None]
        ctx.require(bool(shortened), "C16.R9: LoopCombinatorStep.restore neither compares the depths of two tags nor shortens a tag by one level: the construct is not recognised")
        for n in shortened:
            ctx.ob("R9", what_inter, False, func=f, node=n, instance="loop:intermediate-iteration",
                   message=f"`{unparse(enclosing_stmt(n))[:100]}` shortens a tag by one level (restart from an intermediate iteration) but no test in restore compares the depth of the "
                   "parent tag with the depth of the token's tag (`len(parent_tag.split('.')) != len(token.tag.split('.'))`, temporaries and one-expression helpers are followed): "
                   "a token of the first iteration (0.0, parent 0) is taken for an intermediate one and the loop counters are rebuilt from the tags {'0', ''}")
        return
    ctx.require(len(pairs) == 1, f"C16.R9: LoopCombinatorStep.restore compares the depths of {len(pairs)} pairs of tags (one expected: "
                "`len(parent_tag.split('.'))` against `len(token.tag.split('.'))`, temporaries and one-expression helpers are followed)")
    first, other = sorted(next(iter(pairs)))

    def site_facts(e):
        st = e if isinstance(e, ast.stmt) else None
        ids = (g.ids_of(st) if st is not None else []) or g.node_containing(e)
        return [x for i in ids for x in path_facts(g, i)] + (expr_facts(e) if st is None else [])

    def reach(facts):
        """Depth relations under which all the facts can hold, and the depth tests among them."""
        ev = [(e, v, inlined(e)) for e, v in facts]
        rels = {r for r in _RELS if all(_rel_eval(x, r, first) in (None, v) for _, v, x in ev)}
        used = [f"`{unparse(e)[:90]}` is {v}" for e, v, x in ev if any(_rel_eval(x, r, first) is not None for r in _RELS)
                and not any(e is not e2 and any(e is s for s in ast.walk(e2)) for e2, _, _ in ev)]
        return rels, used

    def use_sites(e, facts, depth=2):
        """Where the value of expression `e` is consumed: `x = e` for a local assigned once stands for the loads of x."""
        st = parent(e)
        while st is not None and not isinstance(st, ast.stmt) and isinstance(st, (ast.Call, ast.Attribute, ast.Subscript, ast.Starred, ast.keyword)) and depth > 0:
            # still inside the expression computing the shortened tag ('.'.join(<e>))
            if isinstance(st, ast.Call) and not (isinstance(st.func, ast.Attribute) and st.func.attr == "join"):
                break
            e, st = st, parent(st)
        if (isinstance(st, ast.Assign) and st.value is e and len(st.targets) == 1 and isinstance(st.targets[0], ast.Name) and depth > 0
                and len(defs_of(f, st.targets[0].id)) == 1):
            name = st.targets[0].id
            out = []
            for n in body:
                if isinstance(n, ast.Name) and n.id == name and isinstance(n.ctx, ast.Load):
                    out += use_sites(n, facts + site_facts(n), depth - 1)
            return out
        return [(e, facts)]

    # intermediate iteration: the parent tag shortened by one level
    inter = []
    for n in body:
        if isinstance(n, ast.Subscript) and _prefix_base(n) is not None:
            base = _prefix_base(inlined(n))
            if base in (first, other):
                inter += [(base, s, fs) for s, fs in use_sites(n, site_facts(n))]
    ctx.require(bool(inter), "C16.R9: LoopCombinatorStep.restore no longer shortens one of the compared tags by one level (`'.'.join(parent_tag.split('.')[:-1])`): "
                "the intermediate-iteration case is not recognised")
    bases = {b for b, _, _ in inter}
    ctx.require(len(bases) == 1, "C16.R9: both compared tags are shortened in LoopCombinatorStep.restore")
    token_tag = other if bases == {first} else first
    words = {"<": "shallower than", "=": "as deep as", ">": "deeper than"}

    def say(rels):  # relative to the parent tag (the one that is shortened)
        rs = rels if bases == {first} else {_FLIP_REL[r] for r in rels}
        return ("the parent tag (the tag that the intermediate case shortens) is " + " or ".join(words[r] for r in _RELS if r in rs) + " the token's tag") if rs else "never"
    # first iteration: the token's own tag, as it is, joins a collection
    firsts = []
    for n in body:
        if not isinstance(n, (ast.Attribute, ast.Name, ast.Subscript, ast.Call)) or not isinstance(getattr(n, "ctx", ast.Load()), ast.Load):
            continue
        pa = parent(n)
        pos = (isinstance(pa, (ast.Set, ast.List, ast.Tuple)) or (isinstance(pa, ast.IfExp) and n is not pa.test)
               or (isinstance(pa, ast.Call) and n in pa.args and isinstance(pa.func, ast.Attribute) and pa.func.attr in _COLLECT)
               or (isinstance(pa, ast.Assign) and pa.value is n and len(pa.targets) == 1 and isinstance(pa.targets[0], ast.Name)
                   and len(defs_of(f, pa.targets[0].id)) > 1))
        if pos and not isinstance(enclosing_stmt(n), ast.Raise) and unparse(inlined(n)) == token_tag:
            firsts.append((n, site_facts(n)))
    ctx.require(bool(firsts), "C16.R9: LoopCombinatorStep.restore no longer adds the token's own tag to the restored tags: the first-iteration case is not recognised")
    for e, facts in firsts:
        rels, used = reach(facts)
        ctx.ob("R9", what_first, rels == {"<", ">"}, func=f, node=e, instance="loop:first-iteration",
               message=f"`{unparse(enclosing_stmt(e))[:100]}` (restart from the first iteration) is reached when "
               f"{say(rels)} [{'; '.join(used) or 'no depth test dominates it'}], not exactly when the two depths differ (shallower or deeper): the parent of a "
               "first-iteration token (tag 0 for 0.0) is shallower than the token; a first iteration taken for an intermediate one rebuilds the counters from a shortened parent tag "
               "(compare_tags fails on the empty tag / the loop resumes at a wrong iteration), an intermediate one taken for the first re-runs the whole loop")
    for base, e, facts in inter:
        rels, used = reach(facts)
        ctx.ob("R9", what_inter, rels == {"="}, func=f, node=e, instance="loop:intermediate-iteration",
               message=f"`{unparse(enclosing_stmt(e))[:100]}` (restart from an intermediate iteration: the parent tag shortened by one level) is reached when "
               f"{say(rels)} [{'; '.join(used) or 'no depth test dominates it'}], not exactly when the two depths are equal: a parent of a different depth "
               "is the input of the loop, not the previous iteration - its shortened tag is not the loop prefix (it is '' for the parent 0 of 0.0, on which compare_tags raises)")


RULES = [("R1", r1), ("R2", r2), ("R3", r3), ("R4", r4), ("R5", r5), ("R6", r6), ("R7", r7), ("R8", r8), ("R9", r9)]
FLOORS = {"R1": 13, "R2": 16, "R3": 24, "R4": 15, "R5": 3, "R6": 20, "R7": 3, "R8": 9, "R9": 2}

_W = f"{DECORATOR}.<locals>.wrapper"
_REC = f"{RFM}._recover"
_UPD = f"{RFM}._update_request"
_LCR = "streamflow.workflow.combinator.LoopCombinator.restore"

_ON_TOKENS = ("{port.name: [mapper.token_instances[token_id] for token_id in mapper.port_tokens[port.name] if not mapper.token_availability[token_id]] "
              "for port in step.get_output_ports().values() if port.name in mapper.port_tokens.keys()}")

_RESTORE_LOOP = "    for step in new_workflow.steps.values():\n        await step.restore(on_tokens=" + _ON_TOKENS + ")"
_ALIASES = "    port_tokens = mapper.port_tokens\n    token_availability = mapper.token_availability\n    token_instances = mapper.token_instances\n"
_RESTORE_LOOP_ALIASED = _RESTORE_LOOP.replace("mapper.token_instances[", "token_instances[").replace("mapper.port_tokens", "port_tokens").replace(
    "mapper.token_availability[", "token_availability[")

_STEP_LOOKUP = ("        if (step := next((arg for arg in args if isinstance(arg, Step)), None)) is None:\n"
                "            if (step := next((arg for arg in kwargs.values() if isinstance(arg, Step)), None)) is None:\n"
                "                raise ValueError('The wrapped function must take a `Step` object as argument')\n")
_PROV_INPUTS = ("*failed_job.inputs.values(), *(p.token_list[0] for p in failed_step.get_input_ports().values() if isinstance(p, ConnectorPort)), "
                "*(get_job_token(failed_job.name, p.token_list) for p in failed_step.get_input_ports().values() if isinstance(p, JobPort))")
_TOKEN_LIST = ("        token_list = sorted([mapper.token_instances[token_id] for token_id in mapper.port_tokens[port_name] if mapper.token_availability[token_id]], "
               "key=lambda x: x.tag) if port_name in mapper.port_tokens.keys() else ()\n")
_TOKEN_LIST_LOOP = ("        if %s:\n            available_tokens = []\n            for token_id in mapper.port_tokens[port_name]:\n                if %s:\n"
                    "                    available_tokens.append(mapper.token_instances[token_id])\n            token_list = sorted(available_tokens, key=lambda x: x.tag)\n"
                    "        else:\n            token_list = ()\n")

_JOB_LOOKUP = _STEP_LOOKUP.replace("step :=", "job :=").replace("Step", "Job")
_FIND_ARG = ("def _find_argument(cls: type, args: tuple, kwargs: dict):\n    for candidates in (args, kwargs.values()):\n        for arg in candidates:\n"
             "            if isinstance(arg, cls):\n                return arg\n    return None\n")
_FIND_ARG_WALRUS = ("def _find_argument(cls, args, kwargs):\n"
                    "    if (value := next((arg for arg in args if isinstance(arg, cls)), None)) is None:\n"
                    "        value = next((arg for arg in kwargs.values() if isinstance(arg, cls)), None)\n"
                    "    return value\n")
_LOOKUPS_VIA_HELPER = ("        if (step := _find_argument(Step, args, kwargs)) is None:\n            raise ValueError('The wrapped function must take a `Step` object as argument')\n"
                       "        if (job := _find_argument(Job, args, kwargs)) is None:\n            raise ValueError('The wrapped function must take a `Job` object as argument')\n")
_BUILD_GRAPH = "    await provenance.build_graph(inputs=[" + _PROV_INPUTS + "])\n"
_BUILD_GRAPH_EXTEND = ("    input_ports = list(failed_step.get_input_ports().values())\n    inputs = list(failed_job.inputs.values())\n"
                       "    inputs.extend((port.token_list[0] for port in input_ports if isinstance(port, ConnectorPort)))\n"
                       "    inputs.extend((get_job_token(failed_job.name, port.token_list) for port in input_ports if isinstance(port, JobPort)))\n"
                       "    await provenance.build_graph(inputs=inputs)\n")
_BUILD_GRAPH_LOOP = ("    inputs = [*failed_job.inputs.values()]\n    for port in failed_step.get_input_ports().values():\n        if isinstance(port, ConnectorPort):\n"
                     "            inputs.append(port.token_list[0])\n        elif isinstance(port, JobPort):\n            inputs.append(get_job_token(failed_job.name, port.token_list))\n"
                     "    await provenance.build_graph(inputs=inputs)\n")
_CREATE_PORT = ("        if not isinstance(port, (ConnectorPort, InterWorkflowJobPort, InterWorkflowPort)):\n"
                "            workflow.create_port(InterWorkflowJobPort if isinstance(port, JobPort) else InterWorkflowPort, port.name)")
_CREATE_PORT_STMT = ("        if isinstance(port, (ConnectorPort, InterWorkflowJobPort, InterWorkflowPort)):\n            continue\n        port_cls: type[Port]\n"
                     "        if isinstance(port, JobPort):\n            port_cls = %s\n        else:\n            port_cls = %s\n        workflow.create_port(port_cls, port.name)")

_LCSR = f"{STEP}.LoopCombinatorStep.restore"
_DEPTH_NE = "len(parent_tag.split('.')) != len(token.tag.split('.'))"
_DEPTH_IF = "            if " + _DEPTH_NE + ":\n"
_DEPTH_BODY = ("                tags |= {parent_tag, token.tag}\n            else:\n"
               "                tags |= {parent_tag, '.'.join(parent_tag.split('.')[:-1])}\n")
_TAG_DEPTH = "\ndef _tag_depth(tag: str) -> int:\n    return len(tag.split('.'))\n"

VARIANTS = [
    # ---- R1
    V("@recoverable removed from _run_transfer", STEP_FILE, f"{STEP}.TransferStep._run_transfer", "@recoverable\nasync def _run_transfer", "async def _run_transfer", "R1", control=True),
    V("@recoverable removed from _do_handle_failure", FM_FILE, f"{RFM}._do_handle_failure", "@recoverable\nasync def", "async def", "R1"),
    V("run loop bypasses the wrapper", STEP_FILE, f"{STEP}.ExecuteStep._run_job", "await self._execute_command(job, connectors)",
      "await self._execute_command.__wrapped__(self, job, connectors)", "R1"),
    V("subclass overrides a phase without the decorator", STEP_FILE, None, None, None, "R1",
      append="""
      class _FastTransferStep(TransferStep):
          async def _run_transfer(self, job: Job, inputs, port_name: str, token: Token) -> None:
              self.get_output_port(port_name).put(await self.transfer(job, token))
      """),
    V("scheduling performed outside the decorated phase", STEP_FILE, f"{STEP}.ScheduleStep.run", "await self._schedule(job=job)\n            status = Status.COMPLETED",
      "await self.workflow.context.scheduler.schedule(job, self.binding_config, self.hardware_requirement)\n            await self._schedule(job=job)\n            status = Status.COMPLETED", "R1"),
    # ---- R2
    V("wrapper catches BaseException", REC_FILE, DECORATOR, "except Exception as e:", "except BaseException as e:", "R2", control=True),
    V("wrapper swallows a failed recovery", REC_FILE, DECORATOR, "logger.exception(ie)\n                raise", "logger.exception(ie)", "R2"),
    V("wrapper swallows unrecoverable exceptions", REC_FILE, DECORATOR, "logger.exception(e)\n            raise\n", "logger.exception(e)\n", "R2"),
    V("unrecoverable exceptions are recovered", REC_FILE, DECORATOR, "except (asyncio.CancelledError, KeyboardInterrupt, UnrecoverableWorkflowException) as e:",
      "except (asyncio.CancelledError, KeyboardInterrupt) as e:", "R2"),
    V("decorator returns the bare function", REC_FILE, DECORATOR, "return wrapper", "return func", "R2"),
    V("recover receives (step, job)", REC_FILE, DECORATOR, "recover(job, step, e)", "recover(step, job, e)", "R2"),
    V("handler narrowed to WorkflowExecutionException", REC_FILE, DECORATOR, "except Exception as e:", "except WorkflowExecutionException as e:", "R2"),
    # ---- R3
    V("save after run", FM_FILE, _REC, "await new_workflow.save(new_workflow.context.database)\n    executor = StreamFlowExecutor(new_workflow)\n    await executor.run()",
      "executor = StreamFlowExecutor(new_workflow)\n    await executor.run()\n    await new_workflow.save(new_workflow.context.database)", "R3", control=True),
    V("executor runs the original workflow", FM_FILE, _REC, "StreamFlowExecutor(new_workflow)", "StreamFlowExecutor(workflow)", "R3"),
    V("restore loop removed", FM_FILE, _REC, "for step in new_workflow.steps.values():\n        await step.restore(", "for step in new_workflow.steps.values():\n        logger.debug(", "R3"),
    V("restore only for the first step", FM_FILE, _REC, "if port.name in mapper.port_tokens.keys()})\n", "if port.name in mapper.port_tokens.keys()})\n        break\n", "R3"),
    V("tokens injected before the workflow is populated", FM_FILE, _REC,
      "        await self._synchronize_workflows(", "        await _inject_tokens(failed_job=failed_job, failed_step=failed_step, mapper=mapper, workflow=new_workflow)\n        await self._synchronize_workflows(", "R3"),
    # ---- R4
    V("restore receives the available tokens", FM_FILE, _REC, "if not mapper.token_availability[token_id]", "if mapper.token_availability[token_id]", "R4", control=True),
    V("unavailable tokens are injected", FM_FILE, f"{FM}._inject_tokens", "if mapper.token_availability[token_id]]", "]", "R4"),
    V("first boundary rule terminates instead of propagating", FM_FILE, f"{FM}._inject_tokens",
      "boundary_tags=[get_tag(failed_job.inputs.values())], boundary_action=BoundaryAction.PROPAGATE", "boundary_tags=[get_tag(failed_job.inputs.values())], boundary_action=BoundaryAction.TERMINATE", "R4"),
    V("terminate rule keyed by all port tags", FM_FILE, f"{FM}._inject_tokens",
      "port=workflow.ports[port.name], boundary_tags=[get_tag(failed_job.inputs.values())]", "port=workflow.ports[port.name], boundary_tags=[t.tag for t in token_list]", "R4"),
    V("LoopCombinatorStep.restore forgets the combinator", STEP_FILE, f"{STEP}.LoopCombinatorStep.restore", "await self.combinator.restore(from_tags)", "pass", "R4"),
    V("ScatterStep inherits the no-op restore", STEP_FILE, f"{STEP}.ScatterStep", "async def restore(self, on_tokens", "async def _restore_unused(self, on_tokens", "R4"),
    V("LoopCombinator.restore parses the counter from the prefix tag (seeded C16b-2)", COMB_FILE, _LCR, "int(iteration.split('.')[-1])", "int(prefix.split('.')[-1])", "R4"),
    V("LoopCombinator.restore unpacks the pair in the wrong order", COMB_FILE, _LCR, "for prefix, iteration in from_tags.values():", "for iteration, prefix in from_tags.values():", "R4"),
    V("LoopCombinator.restore records the counter under the iteration tag", COMB_FILE, _LCR, "self.iteration_map[prefix] = max(", "self.iteration_map[iteration] = max(", "R4"),
    V("LoopCombinator.restore indexes the pair: counter from member 0", COMB_FILE, _LCR,
      "    for prefix, iteration in from_tags.values():\n        iteration_num = int(iteration.split('.')[-1])",
      "    for pair in from_tags.values():\n        prefix = pair[0]\n        iteration_num = int(pair[0].split('.')[-1])", "R4"),
    V("LoopCombinator.restore restores every counter to a constant", COMB_FILE, _LCR, "int(iteration.split('.')[-1])", "0", "R4"),
    V("LoopCombinator.restore is a no-op", COMB_FILE, "streamflow.workflow.combinator.LoopCombinator.restore",
      "self.iteration_map[prefix] = max(self.iteration_map.get(prefix, iteration_num), iteration_num)", "pass", "R4"),
    V("provenance search forgets the job's inputs", FM_FILE, _REC, "inputs=[*failed_job.inputs.values(), *(p.token_list[0]", "inputs=[*(p.token_list[0]", "R3"),
    V("first token of every input port joins the provenance search", FM_FILE, _REC, " if isinstance(p, ConnectorPort))", ")", "R3"),
    V("recovery aborted for non-empty graphs", FM_FILE, _REC, "if mapper.dag_tokens.empty():", "if not mapper.dag_tokens.empty():", "R3"),
    # the abort guards read through a temporary (battery kind testtemp)
    V("step count of the recovery workflow tested through a temporary", FM_FILE, _REC, "    if len(new_workflow.steps) == 0:",
      "    n_steps = len(new_workflow.steps)\n    if n_steps == 0:", None),
    V("emptiness of the token graph tested through a temporary", FM_FILE, _REC, "        if mapper.dag_tokens.empty():",
      "        no_tokens = mapper.dag_tokens.empty()\n        if no_tokens:", None),
    V("step count through a temporary, guard inverted", FM_FILE, _REC, "    if len(new_workflow.steps) == 0:",
      "    n_steps = len(new_workflow.steps)\n    if n_steps != 0:", "R3"),
    V("token-graph emptiness through a temporary, guard inverted", FM_FILE, _REC, "        if mapper.dag_tokens.empty():",
      "        no_tokens = mapper.dag_tokens.empty()\n        if not no_tokens:", "R3"),
    V("boundary rules installed on the wrong ports", FM_FILE, f"{FM}._inject_tokens", "if port.name in workflow_output_ports.keys():", "if port.name not in workflow_output_ports.keys():", "R4"),
    V("inner ports never terminate", FM_FILE, f"{FM}._inject_tokens", "boundary_action=BoundaryAction.PROPAGATE | BoundaryAction.TERMINATE)", "boundary_action=BoundaryAction.PROPAGATE)", "R4"),
    V("gather of the step loads not awaited", FM_FILE, f"{FM}._populate_workflow", "    await asyncio.gather(", "    asyncio.gather(", "R6"),
    V("local needed later is dropped", FM_FILE, f"{FM}._inject_tokens", "        port = workflow.ports[port_name]\n", "", "R6"),
    # ---- R5
    V("connector ports are re-created instead of plain ports", FM_FILE, f"{FM}._populate_workflow", "if not isinstance(port, (ConnectorPort, InterWorkflowJobPort, InterWorkflowPort)):",
      "if isinstance(port, (ConnectorPort, InterWorkflowJobPort, InterWorkflowPort)):", "R5"),
    V("job ports and data ports swapped", FM_FILE, f"{FM}._populate_workflow", "InterWorkflowJobPort if isinstance(port, JobPort) else InterWorkflowPort", "InterWorkflowPort if isinstance(port, JobPort) else InterWorkflowJobPort", "R5"),
    V("failed step not loaded", FM_FILE, f"{FM}._populate_workflow", "    await workflow_builder.load_step(failed_step.persistent_id)\n", "", "R5"),
    V("only the first selected step is loaded", FM_FILE, f"{FM}._populate_workflow", "for step_id in step_ids))", "for step_id in list(step_ids)[:1]))", "R5"),
    # ---- R7 (seeded change C16/3): a permitted retry must not be refused
    V("unset retry limit treated as limit 0 (truthiness test)", FM_FILE, _UPD, "self.max_retries is None or retry_request.version < self.max_retries",
      "self.max_retries and retry_request.version < self.max_retries", "R7", control=True),
    V("retry only when a limit is configured", FM_FILE, _UPD, "self.max_retries is None or retry_request.version < self.max_retries",
      "self.max_retries is not None and retry_request.version < self.max_retries", "R7"),
    V("unlimited case dropped from the guard", FM_FILE, _UPD, "if self.max_retries is None or retry_request.version < self.max_retries:",
      "if retry_request.version < self.max_retries:", "R7"),
    V("last permitted retry refused (off by one)", FM_FILE, _UPD, "retry_request.version < self.max_retries", "retry_request.version + 1 < self.max_retries", "R7"),
    V("inverted early raise also hits the unlimited case", FM_FILE, _UPD,
      "    if self.max_retries is None or retry_request.version < self.max_retries:\n        retry_request.version += 1",
      "    if self.max_retries is None or retry_request.version >= self.max_retries:\n        raise FailureHandlingException('exhausted')\n    if True:\n        retry_request.version += 1", "R7"),
    V("default retry limit 0", FM_FILE, f"{RFM}.__init__", "max_retries: int | None=None", "max_retries: int | None=0", "R7"),
    # ---- R8 (seeded change C16/1): synthesised primitive tokens are recoverable
    V("scatter size token no longer marked recoverable", STEP_FILE, f"{STEP}.ScatterStep._scatter", "Token(len(token.value), tag=token.tag, recoverable=True)",
      "Token(len(token.value), tag=token.tag)", "R8", control=True),
    V("forced gather size token not recoverable", STEP_FILE, f"{STEP}.GatherStep.run", "Token(value=len(self.token_map[key]), tag=key, recoverable=True)",
      "Token(value=len(self.token_map[key]), tag=key)", "R8"),
    V("connector token explicitly not recoverable", STEP_FILE, f"{STEP}.DeployStep.run", "Token(value=self.deployment_config.name, recoverable=True), port=self.get_output_port(), input_token_ids=[]",
      "Token(value=self.deployment_config.name, recoverable=False), port=self.get_output_port(), input_token_ids=[]", "R8"),
    V("size token flag through a false local", STEP_FILE, f"{STEP}.ScatterStep._scatter",
      "        size_port = self.get_size_port()\n        size_port.put(await self._persist_token(token=Token(len(token.value), tag=token.tag, recoverable=True)",
      "        size_port = self.get_size_port()\n        keep = False\n        size_port.put(await self._persist_token(token=Token(len(token.value), tag=token.tag, recoverable=keep)", "R8"),
    V("transformer result token not recoverable", TRANSF_FILE, "streamflow.cwl.transformer.CartesianProductSizeTransformer.transform",
      "Token(value, tag=tag, recoverable=True)", "Token(value, tag=tag)", "R8"),
    V("input injector relies on build_token's false default", "streamflow/cwl/step.py", "streamflow.cwl.step.CWLInputInjectorStep.process_input",
      "streamflow_context=self.workflow.context, recoverable=True)", "streamflow_context=self.workflow.context)", "R8"),
    V("new step emits a counter token without the flag", STEP_FILE, None, None, None, "R8", append="""
      class _CountStep(BaseStep):
          async def run(self) -> None:
              token = await self.get_input_port().get(self.name)
              out = self.get_output_port()
              out.put(await self._persist_token(token=Token(len(token.value), tag=token.tag), port=out, input_token_ids=get_entity_ids([token])))
              await self.terminate(Status.COMPLETED)
      """),
    V("Token.is_available ignores the flag", "streamflow/core/workflow.py", f"{TOKEN}.is_available", "return self._recoverable", "return True", "R8"),
    # ---- benign
    V("guard through a boolean temporary", FM_FILE, _UPD, "    if self.max_retries is None or retry_request.version < self.max_retries:",
      "    allowed = self.max_retries is None or retry_request.version < self.max_retries\n    if allowed:", None),
    V("limit through a temporary, operands swapped", FM_FILE, _UPD, "    if self.max_retries is None or retry_request.version < self.max_retries:",
      "    limit = self.max_retries\n    if limit is None or limit > retry_request.version:", None),
    V("inverted guard with early raise", FM_FILE, _UPD,
      "    if self.max_retries is None or retry_request.version < self.max_retries:\n        retry_request.version += 1",
      "    if self.max_retries is not None and retry_request.version >= self.max_retries:\n        raise FailureHandlingException('exhausted')\n    if True:\n        retry_request.version += 1", None),
    V("falsy-or formulation of the unlimited case", FM_FILE, _UPD, "self.max_retries is None or retry_request.version < self.max_retries",
      "not self.max_retries or retry_request.version < self.max_retries", None),
    V("stricter but satisfiable extra conjunct", FM_FILE, _UPD, "    if self.max_retries is None or retry_request.version < self.max_retries:",
      "    if job_name in self._retry_requests and (self.max_retries is None or retry_request.version < self.max_retries):", None),
    V("size token through a local and a true flag local", STEP_FILE, f"{STEP}.ScatterStep._scatter",
      "        size_port.put(await self._persist_token(token=Token(len(token.value), tag=token.tag, recoverable=True)",
      "        keep = True\n        size_token = Token(len(token.value), tag=token.tag, recoverable=keep)\n        size_port.put(await self._persist_token(token=size_token", None),
    V("size token with positional arguments", STEP_FILE, f"{STEP}.ScatterStep._scatter", "Token(len(token.value), tag=token.tag, recoverable=True)",
      "Token(len(token.value), token.tag, True)", None),
    V("new step emits a null marker and a retagged input", STEP_FILE, None, None, None, None, append="""
      class _SkipStep(BaseStep):
          async def run(self) -> None:
              token = await self.get_input_port().get(self.name)
              out = self.get_output_port()
              out.put(await self._persist_token(token=Token(value=None, tag=token.tag), port=out, input_token_ids=get_entity_ids([token])))
              out.put(await self._persist_token(token=token.retag(token.tag + '.0'), port=out, input_token_ids=get_entity_ids([token])))
              await self.terminate(Status.COMPLETED)
      """),
    V("restore through gather", FM_FILE, _REC,
      "    for step in new_workflow.steps.values():\n        await step.restore(on_tokens=" + _ON_TOKENS + ")",
      "    await asyncio.gather(*(asyncio.create_task(step.restore(on_tokens=" + _ON_TOKENS + ")) for step in new_workflow.steps.values()))", None),
    V("rename the recovery workflow local", FM_FILE, _REC, "new_workflow", "recovery_wf", None, count=9),
    V("LoopCombinator.restore: pair unpacked in the body", COMB_FILE, _LCR, "    for prefix, iteration in from_tags.values():\n",
      "    for pair in from_tags.values():\n        prefix, iteration = pair\n", None),
    V("LoopCombinator.restore: pair indexed", COMB_FILE, _LCR, "    for prefix, iteration in from_tags.values():\n        iteration_num = int(iteration.split('.')[-1])",
      "    for pair in from_tags.values():\n        prefix = pair[0]\n        last = pair[-1]\n        iteration_num = int(last.rsplit('.', 1)[-1])", None),
    V("LoopCombinator.restore: iterates the items", COMB_FILE, _LCR, "    for prefix, iteration in from_tags.values():\n",
      "    for _port, (prefix, iteration) in from_tags.items():\n", None),
    V("LoopCombinator.restore: iterates the keys", COMB_FILE, _LCR, "    for prefix, iteration in from_tags.values():\n",
      "    for port_name in from_tags:\n        prefix = from_tags[port_name][0]\n        iteration = from_tags[port_name][1]\n", None),
    V("LoopCombinator.restore: counter without temporaries, explicit comparison", COMB_FILE, _LCR,
      "        iteration_num = int(iteration.split('.')[-1])\n        self.iteration_map[prefix] = max(self.iteration_map.get(prefix, iteration_num), iteration_num)",
      "        if prefix not in self.iteration_map or self.iteration_map[prefix] < int(iteration.split('.')[-1]):\n            self.iteration_map[prefix] = int(iteration.split('.')[-1])", None),
    V("executor built through a temporary", FM_FILE, _REC, "executor = StreamFlowExecutor(new_workflow)", "wf = new_workflow\n    executor = StreamFlowExecutor(wf)", None),
    V("rename the wrapper and add logging", REC_FILE, DECORATOR, "wrapper", "_recovering", None, count=2),
    V("independent statements reordered in _recover", FM_FILE, _REC,
      "new_workflow = await workflow_builder.load_workflow(workflow.persistent_id)\n    provenance = ProvenanceGraph(workflow.context)",
      "provenance = ProvenanceGraph(workflow.context)\n    new_workflow = await workflow_builder.load_workflow(workflow.persistent_id)", None),
    V("execution stage extracted into a helper", FM_FILE, f"{RFM}",
      "        await new_workflow.save(new_workflow.context.database)\n        executor = StreamFlowExecutor(new_workflow)\n        await executor.run()\n",
      "        await self._execute(new_workflow)\n\n    async def _execute(self, wf: Workflow) -> None:\n        await wf.save(wf.context.database)\n        executor = StreamFlowExecutor(wf)\n        await executor.run()\n", None),
    V("keyword call of the phase", STEP_FILE, f"{STEP}.ExecuteStep._run_job", "await self._execute_command(job, connectors)", "await self._execute_command(job=job, connectors=connectors)", None),
    # ---- refactorings B3-1 / B3-3 / B3-6 (benign) and their breaking counterparts
    V("step look-up over itertools.chain(args, kwargs.values()) with a flat guard", REC_FILE, DECORATOR, _STEP_LOOKUP,
      "        if (step := next((arg for arg in itertools.chain(args, kwargs.values()) if isinstance(arg, Step)), None)) is None:\n"
      "            raise ValueError('The wrapped function must take a `Step` object as argument')\n", None, append="import itertools"),
    V("look-ups as guard clauses on plain locals", REC_FILE, DECORATOR, _STEP_LOOKUP,
      "        step = next((arg for arg in (*args, *kwargs.values()) if isinstance(arg, Step)), None)\n        if not step:\n"
      "            raise ValueError('The wrapped function must take a `Step` object as argument')\n", None),
    V("flat job guard raises when a Job was found", REC_FILE, DECORATOR,
      "            if (job := next((arg for arg in kwargs.values() if isinstance(arg, Job)), None)) is None:",
      "            if (job := next((arg for arg in kwargs.values() if isinstance(arg, Job)), None)) is not None:", "R2"),
    V("flat step guard raises when a Step was found", REC_FILE, DECORATOR, _STEP_LOOKUP,
      "        if (step := next((arg for arg in (*args, *kwargs.values()) if isinstance(arg, Step)), None)) is not None:\n"
      "            raise ValueError('The wrapped function must take a `Step` object as argument')\n", "R2"),
    V("provenance inputs assembled by an extracted module-level helper", FM_FILE, _REC, "inputs=[" + _PROV_INPUTS + "]", "inputs=_provenance_inputs(failed_job, failed_step)", None,
      append="def _provenance_inputs(job: Job, step: Step):\n    return [" + _PROV_INPUTS.replace("failed_job", "job").replace("failed_step", "step") + "]\n"),
    V("extracted provenance helper forgets the job's inputs", FM_FILE, _REC, "inputs=[" + _PROV_INPUTS + "]", "inputs=_provenance_inputs(failed_job, failed_step)", "R3",
      append="def _provenance_inputs(job: Job, step: Step):\n    return [" + _PROV_INPUTS.replace("failed_job", "job").replace("failed_step", "step").replace("*job.inputs.values(), ", "") + "]\n"),
    V("extracted provenance helper receives another job", FM_FILE, _REC, "inputs=[" + _PROV_INPUTS + "]", "inputs=_provenance_inputs(failed_step)", "R3",
      append="def _provenance_inputs(step: Step):\n    job = step.workflow\n    return [" + _PROV_INPUTS.replace("failed_job", "job").replace("failed_step", "step") + "]\n"),
    V("available tokens selected by an if/else statement with a loop and a temporary list", FM_FILE, f"{FM}._inject_tokens", _TOKEN_LIST,
      _TOKEN_LIST_LOOP % ("port_name in mapper.port_tokens.keys()", "mapper.token_availability[token_id]"), None),
    V("loop form of the selection with a negated skip", FM_FILE, f"{FM}._inject_tokens", _TOKEN_LIST,
      "        token_list = ()\n        if port_name in mapper.port_tokens.keys():\n            chosen = []\n            for token_id in mapper.port_tokens[port_name]:\n"
      "                if not mapper.token_availability[token_id]:\n                    continue\n                chosen.append(mapper.token_instances[token_id])\n"
      "            token_list = sorted(chosen, key=lambda x: x.tag)\n", None),
    V("loop form injects the unavailable tokens", FM_FILE, f"{FM}._inject_tokens", _TOKEN_LIST,
      _TOKEN_LIST_LOOP % ("port_name in mapper.port_tokens.keys()", "not mapper.token_availability[token_id]"), "R4"),
    V("loop form without an availability test", FM_FILE, f"{FM}._inject_tokens", _TOKEN_LIST,
      _TOKEN_LIST_LOOP % ("port_name in mapper.port_tokens.keys()", "token_id in mapper.token_instances"), "R4"),
    V("loop form selects tokens only for unmapped ports", FM_FILE, f"{FM}._inject_tokens", _TOKEN_LIST,
      _TOKEN_LIST_LOOP % ("port_name not in mapper.port_tokens.keys()", "mapper.token_availability[token_id]"), "R4"),
    # ---- refactoring B14-2: the mapper's attribute chains bound to locals, filter(lambda) as a comprehension
    V("mapper attributes bound to locals before the restore loop", FM_FILE, _REC, _RESTORE_LOOP, _ALIASES + _RESTORE_LOOP_ALIASED, None),
    V("job tokens selected by a comprehension instead of filter(lambda)", FM_FILE, _REC,
      "job_tokens = list(filter(lambda t: isinstance(t, JobToken), mapper.token_instances.values()))",
      "job_tokens = [t for t in mapper.token_instances.values() if isinstance(t, JobToken)]", None),
    V("restore selection extracted into a module-level helper (benign round 7)", FM_FILE, _REC, _ON_TOKENS, "_sf_sel(mapper, step)", None,
      append="def _sf_sel(mapper, step):\n    return " + _ON_TOKENS + "\n"),
    V("extracted restore selection keeps the available tokens", FM_FILE, _REC, _ON_TOKENS, "_sf_sel(mapper, step)", "R4",
      append="def _sf_sel(mapper, step):\n    return " + _ON_TOKENS.replace("if not mapper.token_availability", "if mapper.token_availability") + "\n"),
    V("extracted restore selection has no availability filter", FM_FILE, _REC, _ON_TOKENS, "_sf_sel(mapper, step)", "R4",
      append="def _sf_sel(mapper, step):\n    return " + _ON_TOKENS.replace(" if not mapper.token_availability[token_id]", "") + "\n"),
    V("extracted restore selection no longer skips unmapped ports", FM_FILE, _REC, _ON_TOKENS, "_sf_sel(mapper, step)", "R4",
      append="def _sf_sel(mapper, step):\n    return " + _ON_TOKENS.replace(" if port.name in mapper.port_tokens.keys()}", "}") + "\n"),
    V("aliased availability map: restore receives the available tokens", FM_FILE, _REC, _RESTORE_LOOP,
      _ALIASES + _RESTORE_LOOP_ALIASED.replace("if not token_availability[token_id]", "if token_availability[token_id]"), "R4"),
    V("aliased maps: the local named token_availability is another mapping", FM_FILE, _REC, _RESTORE_LOOP,
      _ALIASES.replace("token_availability = mapper.token_availability", "token_availability = mapper.token_instances") + _RESTORE_LOOP_ALIASED, "R4"),
    V("aliased port_tokens: unmapped ports are no longer skipped", FM_FILE, _REC, _RESTORE_LOOP,
      _ALIASES + _RESTORE_LOOP_ALIASED.replace(" if port.name in port_tokens.keys()}", "}"), "R4"),
    V("recover called through a local alias of the manager", REC_FILE, DECORATOR, "await step.workflow.context.failure_manager.recover(job, step, e)",
      "fm = step.workflow.context.failure_manager\n                await fm.recover(job=job, step=step, exception=e)", None),
    # ---- refactoring B20-1: the duplicated look-up extracted into a module-level function
    V("Job / Step look-ups extracted into a module-level function (loop with isinstance on the class parameter)", REC_FILE, DECORATOR, _STEP_LOOKUP + _JOB_LOOKUP,
      _LOOKUPS_VIA_HELPER, None, append=_FIND_ARG),
    V("extracted look-up written with next() over a chain", REC_FILE, DECORATOR, _STEP_LOOKUP + _JOB_LOOKUP, _LOOKUPS_VIA_HELPER, None,
      append="def _find_argument(cls, args, kwargs):\n    found = next((a for a in (*args, *kwargs.values()) if isinstance(a, cls)), None)\n    return found\n"),
    V("step look-up as an inline loop over the arguments", REC_FILE, DECORATOR, _STEP_LOOKUP,
      "        step = None\n        for arg in (*args, *kwargs.values()):\n            if isinstance(arg, Step):\n                step = arg\n                break\n"
      "        if step is None:\n            raise ValueError('The wrapped function must take a `Step` object as argument')\n", None),
    V("extracted look-up: the job guard raises when a Job was found", REC_FILE, DECORATOR, _STEP_LOOKUP + _JOB_LOOKUP,
      _LOOKUPS_VIA_HELPER.replace("(job := _find_argument(Job, args, kwargs)) is None", "(job := _find_argument(Job, args, kwargs)) is not None"), "R2", append=_FIND_ARG),
    V("extracted look-up ignores the requested class", REC_FILE, DECORATOR, _STEP_LOOKUP + _JOB_LOOKUP, _LOOKUPS_VIA_HELPER, "R2",
      append=_FIND_ARG.replace("            if isinstance(arg, cls):\n                return arg\n", "            if arg is not None:\n                return arg\n")),
    V("extracted look-up is asked for a Step where the Job is needed", REC_FILE, DECORATOR, _STEP_LOOKUP + _JOB_LOOKUP,
      _LOOKUPS_VIA_HELPER.replace("_find_argument(Job, args, kwargs)", "_find_argument(Step, args, kwargs)"), "R2", append=_FIND_ARG),
    # ---- refactoring B32-1: the extracted look-up binds its result by a walrus in a test, falls back by assignment
    V("extracted look-up: walrus over the positionals, keyword fall-back assigned, local returned", REC_FILE, DECORATOR, _STEP_LOOKUP + _JOB_LOOKUP,
      _LOOKUPS_VIA_HELPER, None, append=_FIND_ARG_WALRUS),
    V("walrus look-up helper: the keyword fall-back no longer tests the class", REC_FILE, DECORATOR, _STEP_LOOKUP + _JOB_LOOKUP, _LOOKUPS_VIA_HELPER, "R2",
      append=_FIND_ARG_WALRUS.replace("(arg for arg in kwargs.values() if isinstance(arg, cls))", "(arg for arg in kwargs.values() if arg is not None)")),
    V("walrus look-up helper: the positional pick no longer tests the class", REC_FILE, DECORATOR, _STEP_LOOKUP + _JOB_LOOKUP, _LOOKUPS_VIA_HELPER, "R2",
      append=_FIND_ARG_WALRUS.replace("(arg for arg in args if isinstance(arg, cls))", "iter(args)")),
    # ---- refactoring B20-2: the provenance inputs assembled by list + extend over a bound local
    V("provenance inputs assembled by list() + extend() of the generators", FM_FILE, _REC, _BUILD_GRAPH, _BUILD_GRAPH_EXTEND, None),
    V("provenance inputs assembled by a loop with append under isinstance tests", FM_FILE, _REC, _BUILD_GRAPH, _BUILD_GRAPH_LOOP, None),
    V("extend form: the job tokens are no longer added", FM_FILE, _REC, _BUILD_GRAPH,
      _BUILD_GRAPH_EXTEND.replace("    inputs.extend((get_job_token(failed_job.name, port.token_list) for port in input_ports if isinstance(port, JobPort)))\n", ""), "R3"),
    V("extend form: the job tokens are added only when debugging", FM_FILE, _REC, _BUILD_GRAPH,
      _BUILD_GRAPH_EXTEND.replace("    inputs.extend((get_job_token(", "    if logger.isEnabledFor(logging.DEBUG):\n        inputs.extend((get_job_token("), "R3"),
    V("extend form: the job tokens are added after the search", FM_FILE, _REC, _BUILD_GRAPH,
      _BUILD_GRAPH_EXTEND.replace("    inputs.extend((get_job_token(failed_job.name, port.token_list) for port in input_ports if isinstance(port, JobPort)))\n    await provenance.build_graph(inputs=inputs)\n",
                                  "    await provenance.build_graph(inputs=inputs)\n    inputs.extend((get_job_token(failed_job.name, port.token_list) for port in input_ports if isinstance(port, JobPort)))\n"), "R3"),
    V("extend form: first token of every input port", FM_FILE, _REC, _BUILD_GRAPH, _BUILD_GRAPH_EXTEND.replace(" if isinstance(port, ConnectorPort)", ""), "R3"),
    V("loop form: first token of every non-job port", FM_FILE, _REC, _BUILD_GRAPH,
      _BUILD_GRAPH_LOOP.replace("        if isinstance(port, ConnectorPort):\n            inputs.append(port.token_list[0])\n        elif isinstance(port, JobPort):\n            inputs.append(get_job_token(failed_job.name, port.token_list))\n",
                                "        if isinstance(port, JobPort):\n            inputs.append(get_job_token(failed_job.name, port.token_list))\n        else:\n            inputs.append(port.token_list[0])\n"), "R3"),
    # ---- refactoring B20-6: the conditional expression of create_port as an if statement behind a guard clause
    V("port class chosen by an if statement after a guard-clause continue", FM_FILE, f"{FM}._populate_workflow", _CREATE_PORT,
      _CREATE_PORT_STMT % ("InterWorkflowJobPort", "InterWorkflowPort"), None),
    V("port class: default first, overridden for job ports", FM_FILE, f"{FM}._populate_workflow", _CREATE_PORT,
      "        if isinstance(port, (ConnectorPort, InterWorkflowJobPort, InterWorkflowPort)):\n            continue\n        port_cls = InterWorkflowPort\n"
      "        if isinstance(port, JobPort):\n            port_cls = InterWorkflowJobPort\n        workflow.create_port(port_cls, port.name)", None),
    V("if-statement form: job ports and data ports swapped", FM_FILE, f"{FM}._populate_workflow", _CREATE_PORT,
      _CREATE_PORT_STMT % ("InterWorkflowPort", "InterWorkflowJobPort"), "R5"),
    V("if-statement form: every port becomes a plain inter-workflow port", FM_FILE, f"{FM}._populate_workflow", _CREATE_PORT,
      _CREATE_PORT_STMT % ("InterWorkflowPort", "InterWorkflowPort"), "R5"),
    V("default-then-override form: the override is dead (tested on non-job ports)", FM_FILE, f"{FM}._populate_workflow", _CREATE_PORT,
      "        if isinstance(port, (ConnectorPort, InterWorkflowJobPort, InterWorkflowPort)):\n            continue\n        port_cls = InterWorkflowPort\n"
      "        if not isinstance(port, JobPort):\n            port_cls = InterWorkflowJobPort\n        workflow.create_port(port_cls, port.name)", "R5"),
    V("guard-clause form skips the plain ports instead of the special ones", FM_FILE, f"{FM}._populate_workflow", _CREATE_PORT,
      (_CREATE_PORT_STMT % ("InterWorkflowJobPort", "InterWorkflowPort")).replace("        if isinstance(port, (ConnectorPort,", "        if not isinstance(port, (ConnectorPort,"), "R5"),
    # ---- R9 (seeded change C16/_mut/2: `!=` of the two tag depths became `>`)
    V("restore: first iteration only when the parent tag is deeper (seeded)", STEP_FILE, _LCSR, _DEPTH_NE, _DEPTH_NE.replace("!=", ">"), "R9", control=True),
    V("restore: first iteration only when the parent tag is shallower", STEP_FILE, _LCSR, _DEPTH_NE, _DEPTH_NE.replace("!=", "<"), "R9"),
    V("restore: first iteration when the depths are equal (branches exchanged)", STEP_FILE, _LCSR, _DEPTH_NE, _DEPTH_NE.replace("!=", "=="), "R9"),
    V("restore: first iteration also when the depths are equal", STEP_FILE, _LCSR, _DEPTH_NE, _DEPTH_NE.replace("!=", ">="), "R9"),
    V("restore: the depth test is gone (always an intermediate iteration)", STEP_FILE, _LCSR, _DEPTH_IF, _DEPTH_IF.replace(_DEPTH_NE, "not tags"), "R9"),
    V("restore: temporaries, wrong direction", STEP_FILE, _LCSR, _DEPTH_IF,
      "            parent_depth = len(parent_tag.split('.'))\n            token_depth = len(token.tag.split('.'))\n            if token_depth < parent_depth:\n", "R9"),
    V("restore: conditional expression, wrong direction", STEP_FILE, _LCSR, _DEPTH_IF + _DEPTH_BODY,
      "            tags |= {parent_tag, token.tag if len(parent_tag.split('.')) > len(token.tag.split('.')) else '.'.join(parent_tag.split('.')[:-1])}\n", "R9"),
    V("restore: guard clause, wrong direction", STEP_FILE, _LCSR, _DEPTH_IF + _DEPTH_BODY,
      "            if len(parent_tag.split('.')) <= len(token.tag.split('.')):\n                from_tags[name] = sorted(tags | {parent_tag, '.'.join(parent_tag.split('.')[:-1])}, key=cmp_to_key(compare_tags))\n"
      "                continue\n            tags |= {parent_tag, token.tag}\n", "R9"),
    V("restore: depth helper, wrong direction", STEP_FILE, _LCSR, _DEPTH_NE, "_tag_depth(parent_tag) > _tag_depth(token.tag)", "R9", append=_TAG_DEPTH),
    V("restore: equality test, branches exchanged accordingly", STEP_FILE, _LCSR, _DEPTH_IF + _DEPTH_BODY,
      "            if len(parent_tag.split('.')) == len(token.tag.split('.')):\n                tags |= {parent_tag, '.'.join(parent_tag.split('.')[:-1])}\n"
      "            else:\n                tags |= {parent_tag, token.tag}\n", None),
    V("restore: negated equality, operands exchanged", STEP_FILE, _LCSR, _DEPTH_NE, "not len(token.tag.split('.')) == len(parent_tag.split('.'))", None),
    V("restore: shallower or deeper", STEP_FILE, _LCSR, _DEPTH_NE,
      "len(parent_tag.split('.')) < len(token.tag.split('.')) or len(parent_tag.split('.')) > len(token.tag.split('.'))", None),
    V("restore: temporaries for the two depths and the shortened tag", STEP_FILE, _LCSR, _DEPTH_IF + _DEPTH_BODY,
      "            parent_depth = len(parent_tag.split('.'))\n            token_tag = token.tag\n            token_depth = len(token_tag.split('.'))\n"
      "            prefix = '.'.join(parent_tag.split('.')[:-1])\n            same_depth = parent_depth == token_depth\n"
      "            if same_depth:\n                tags |= {parent_tag, prefix}\n            else:\n                tags |= {parent_tag, token_tag}\n", None),
    V("restore: dots counted instead of components split", STEP_FILE, _LCSR, _DEPTH_NE, "parent_tag.count('.') != token.tag.count('.')", None),
    V("restore: conditional expression", STEP_FILE, _LCSR, _DEPTH_IF + _DEPTH_BODY,
      "            tags |= {parent_tag, token.tag if len(parent_tag.split('.')) != len(token.tag.split('.')) else parent_tag.rsplit('.', 1)[0]}\n", None),
    V("restore: second tag chosen by assignments, then added", STEP_FILE, _LCSR, _DEPTH_IF + _DEPTH_BODY,
      "            if len(parent_tag.split('.')) != len(token.tag.split('.')):\n                second = token.tag\n            else:\n"
      "                second = '.'.join(parent_tag.split('.')[:-1])\n            tags.add(parent_tag)\n            tags.add(second)\n", None),
    V("restore: guard clause for the intermediate iteration", STEP_FILE, _LCSR, _DEPTH_IF + _DEPTH_BODY,
      "            if len(parent_tag.split('.')) == len(token.tag.split('.')):\n                from_tags[name] = sorted(tags | {parent_tag, '.'.join(parent_tag.split('.')[:-1])}, key=cmp_to_key(compare_tags))\n"
      "                continue\n            tags |= {parent_tag, token.tag}\n", None),
    V("restore: depth helper", STEP_FILE, _LCSR, _DEPTH_NE, "_tag_depth(parent_tag) != _tag_depth(token.tag)", None, append=_TAG_DEPTH),
    V("restore: same-depth predicate extracted", STEP_FILE, _LCSR, _DEPTH_NE, "not _same_depth(parent_tag, token.tag)", None,
      append="\ndef _same_depth(tag1: str, tag2: str) -> bool:\n    return len(tag1.split('.')) == len(tag2.split('.'))\n"),
]
