"""C16 Recovered runs produce the same outputs as failure-free runs.

Clause decided: every job phase is routed to recovery and the recovery workflow is assembled in
the required order.  Equality of outputs needs execution and is undecided.

R1 phase routing: every definition of `ScheduleStep._schedule`, `TransferStep._run_transfer`,
   `ExecuteStep._execute_command` and `RollbackFailureManager._do_handle_failure` (overrides in
   subclasses included) is decorated with `core.recovery.recoverable` and takes a Job; every call
   site goes through the decorated attribute (awaited, passes the job, never `__wrapped__`); the
   work of the phase (`Scheduler.schedule`, `TransferStep.transfer`, `Command.execute`,
   `_recover`) is invoked only from inside a decorated function.  Nec.: an undecorated phase or a
   phase call placed outside turns a job failure into a step failure - no recovery at all.
R2 wrapper shape of `recoverable`: the decorator returns the nested wrapper; the wrapper awaits
   `func(*args, **kwargs)`; CancelledError / KeyboardInterrupt / other BaseExceptions and every
   `UnrecoverableWorkflowException` leave without `recover`; every other `Exception` reaches
   `await failure_manager.recover(job, step, e)` (job/step picked by isinstance on Job/Step, e the
   caught exception); normal completion never calls recover; a failure of recover propagates.
R3 assembly order in `_recover` (CFG dominance): build_graph < create_graph_mapper < lock
   acquisition < _synchronize_workflows < _populate_workflow < _inject_tokens < restore of every
   step (loop over `<wf>.steps`, no skip/break) < save < executor.run; all stages work on the one
   workflow object obtained from `WorkflowBuilder.load_workflow`.
R4 stateful steps restore their state: ScatterStep / LoopCombinatorStep / DefaultTransformer define a
   non-trivial `restore` (LoopCombinatorStep forwards to `combinator.restore`, LoopCombinator
   rebuilds `iteration_map`; ScatterStep installs a FilterTokenPort); `restore` is given the
   *unavailable* tokens while `_inject_tokens` injects the *available* ones; `_inject_tokens`
   installs a PROPAGATE rule towards the failed step's original output port and a TERMINATE rule on
   the recovery port, both keyed by the failed job's tag and always installed together.

Not armed (see DESIGN section 7): the sort of injected tokens by tag *string* in `_inject_tokens`.
"""

from __future__ import annotations

import ast

from ..cfg import ALL, NORMAL
from ..dataflow import defs_of, origins
from ..model import ancestors, dotted, parent, unparse, walk_no_nested
from ..selftest import V
from ._util_D import (
    FM,
    FM_FILE,
    REC,
    REC_FILE,
    RFM,
    STEP_FILE,
    UTILS,
    bind_args,
    exc_ancestors,
    first_handler,
    implied,
    is_awaited,
    mentions,
    param_of_type,
    resolves_to,
    same_value,
    strip,
)

STEP = "streamflow.workflow.step"
CORE_WF = "streamflow.core.workflow"
JOB = f"{CORE_WF}.Job"
STEP_CLS = f"{CORE_WF}.Step"
DECORATOR = f"{REC}.recoverable"
COMB_FILE = "streamflow/workflow/combinator.py"
TRANSF_FILE = "streamflow/cwl/transformer.py"

META = {
    "explanation": (
        "Class-table and CFG rules on the recovery plumbing: (R1) the three job phases and the failure handler are "
        "decorated with `recoverable` in every override, are only invoked through the decorated attribute, and the "
        "phase work is only reachable from inside a decorated function (whole-program who-may-call); (R2) the handler "
        "table of the wrapper is evaluated for representative exception classes through the static class hierarchy "
        "and CFG must-pass-through of `recover`; (R3) dominance chain of the nine assembly stages of `_recover`, loop "
        "coverage of `restore`, one workflow object through all stages; (R4) overrides of `restore`, polarity of the "
        "availability filters, boundary rules of `_inject_tokens`. Decides necessary structural conditions only."
    ),
    "undecided": "equality of workflow outputs between recovered and failure-free runs (needs execution)",
    "assumptions": [
        "asyncio.CancelledError, KeyboardInterrupt, SystemExit derive from BaseException only",
        "plugin failure managers / steps loaded through streamflow.ext are outside the parsed program",
    ],
}

# (class, phase method, (class, method) doing the phase's work)
PHASES = [
    (f"{STEP}.ScheduleStep", "_schedule", ("streamflow.core.scheduling.Scheduler", "schedule")),
    (f"{STEP}.TransferStep", "_run_transfer", (f"{STEP}.TransferStep", "transfer")),
    (f"{STEP}.ExecuteStep", "_execute_command", (f"{CORE_WF}.Command", "execute")),
    (RFM, "_do_handle_failure", (RFM, "_recover")),
]


def _is_recoverable(prog, f) -> bool:
    return any(prog.resolve_expr(f.module, d) == DECORATOR for d in f.decorators)


def _inside_recoverable(prog, f) -> bool:
    g = f
    while g is not None:
        if _is_recoverable(prog, g):
            return True
        g = g.outer
    return False


# --------------------------------------------------------------------------- R1


def r1(ctx):
    p = ctx.prog
    p.func(DECORATOR)  # anchor
    for cq, meth, (wcq, wmeth) in PHASES:
        p.cls(cq)
        defs = p.overrides(cq, meth)
        ctx.require(bool(defs), f"C16.R1: phase method {cq}.{meth} not found")
        for f in defs:
            job_param = param_of_type(p, f, JOB)
            has_step = (f.cls is not None and p.is_subclass(f.cls.qualname, STEP_CLS)) or param_of_type(p, f, STEP_CLS)
            ok = _is_recoverable(p, f) and f.is_async and job_param is not None and bool(has_step)
            ctx.ob(
                "R1",
                f"{f.qualname} is an async @recoverable function taking a Job and a Step",
                ok,
                func=f,
                node=f.node,
                instance=f"decorated:{meth}",
                message=f"{f.qualname}: phase `{meth}` is not routed to recovery "
                f"(decorated={_is_recoverable(p, f)}, async={f.is_async}, job parameter={job_param}, step={bool(has_step)})",
            )
            # call sites of this definition
            sites = {id(c): (g, c) for g, c in p.callers(f.qualname)}
            if f is defs[0]:
                ctx.require(bool(sites), f"C16.R1: no call site of {f.qualname} found")
            for g, c in sites.values():
                b = bind_args(f.node, c) or {}
                passes_job = job_param in b or any(isinstance(a, ast.Starred) for a in c.args) or any(k.arg is None for k in c.keywords)
                direct = isinstance(c.func, ast.Attribute) and c.func.attr == meth
                ctx.ob(
                    "R1",
                    f"{g.qualname} invokes {meth} through the decorated attribute, awaited, with the job",
                    direct and is_awaited(c) and passes_job,
                    func=g,
                    node=c,
                    instance=f"call:{meth}:{'direct' if direct else unparse(c.func)}",
                    message=f"{g.qualname}: `{unparse(c)[:90]}` does not go through the recoverable wrapper "
                    f"(direct={direct}, awaited={is_awaited(c)}, job passed={passes_job})",
                )
        # phase work only inside a decorated function
        work = p.overrides(wcq, wmeth)
        ctx.require(bool(work), f"C16.R1: {wcq}.{wmeth} not found")
        wsites = {}
        for w in work:
            for g, c in p.callers(w.qualname):
                wsites[id(c)] = (g, c)
        ctx.require(bool(wsites), f"C16.R1: no call of {wcq}.{wmeth} found")
        for g, c in wsites.values():
            ctx.ob(
                "R1",
                f"{wmeth}() is invoked from inside a @recoverable function",
                _inside_recoverable(p, g),
                func=g,
                node=c,
                instance=f"work:{wmeth}",
                message=f"{g.qualname} calls `{unparse(c.func)}` outside any @recoverable function: a failure of this "
                f"phase is not routed to the failure manager",
            )
    # nobody bypasses the wrapper
    for m in p.modules.values():
        if "__wrapped__" not in m.source:
            continue
        for f in p.all_funcs():
            if f.module is not m:
                continue
            for n in f.body_nodes():
                if isinstance(n, ast.Attribute) and n.attr == "__wrapped__" and isinstance(n.value, ast.Attribute) and any(
                    n.value.attr == meth for _, meth, _ in PHASES
                ):
                    ctx.ob("R1", "phase invoked through __wrapped__", False, func=f, node=n, instance=f"bypass:{n.value.attr}",
                           message=f"{f.qualname} bypasses the recoverable wrapper via `{unparse(n)}`")


# --------------------------------------------------------------------------- R2

NO_RECOVER = ["CancelledError", "KeyboardInterrupt", "SystemExit", "UnrecoverableWorkflowException", "FailureHandlingException", "WorkflowDefinitionException"]
RECOVER = ["Exception", "WorkflowException", "WorkflowExecutionException", "ValueError"]


def _wrapper(ctx):
    p = ctx.prog
    dec = p.func(DECORATOR)
    ctx.require(bool(dec.params), "C16.R2: `recoverable` takes no function parameter")
    fparam = dec.params[0]
    rets = [n for n in dec.body_nodes() if isinstance(n, ast.Return)]
    ctx.require(bool(rets), "C16.R2: `recoverable` has no return statement")
    wrappers = []
    bad = None
    for r in rets:
        q = f"{dec.qualname}.<locals>.{r.value.id}" if isinstance(r.value, ast.Name) else None
        if q and q in p.functions:
            wrappers.append(p.functions[q])
        else:
            bad = r
    return dec, fparam, wrappers, bad


def r2(ctx):
    p = ctx.prog
    dec, fparam, wrappers, bad = _wrapper(ctx)
    ctx.ob("R2", "`recoverable` returns its nested wrapper on every return", bad is None and bool(wrappers), func=dec,
           node=bad or dec.node, instance="returns-wrapper",
           message=f"`recoverable` returns `{unparse(bad.value) if bad is not None and bad.value is not None else None}`: "
           "decorated phases run without failure handling")
    ctx.require(bool(wrappers), "C16.R2: no nested wrapper function is returned by `recoverable`")
    for w in {id(x): x for x in wrappers}.values():
        _check_wrapper(ctx, w, fparam)


def _check_wrapper(ctx, w, fparam):
    p = ctx.prog
    g = w.cfg
    ctx.require(w.is_async, "C16.R2: the wrapper is not a coroutine function")
    calls = [c for c in w.calls() if isinstance(c.func, ast.Name) and c.func.id == fparam]
    ctx.require(len(calls) == 1, f"C16.R2: expected exactly one call of the wrapped function in {w.qualname}, found {len(calls)}")
    call = calls[0]
    va, kw = w.node.args.vararg, w.node.args.kwarg
    forwards = (
        va is not None and kw is not None
        and any(isinstance(a, ast.Starred) and isinstance(a.value, ast.Name) and a.value.id == va.arg for a in call.args)
        and any(k.arg is None and isinstance(k.value, ast.Name) and k.value.id == kw.arg for k in call.keywords)
        and len(call.args) == 1 and len(call.keywords) == 1
    )
    ctx.ob("R2", "wrapper awaits func(*args, **kwargs)", is_awaited(call) and forwards, func=w, node=call, instance="forward",
           message=f"the wrapped phase is invoked as `{unparse(parent(call) if is_awaited(call) else call)}`")
    tr = None
    child = call
    for a in ancestors(call):
        if isinstance(a, ast.Try) and any(child is s or any(child is x for x in ast.walk(s)) for s in a.body):
            tr = a
            break
    ctx.require(tr is not None, "C16.R2: the call of the wrapped function is not inside a try statement")
    cids = g.node_containing(call)
    ctx.require(bool(cids), "C16.R2: CFG node of the wrapped call not found")
    recs = [c for c in w.calls() if isinstance(c.func, ast.Attribute) and c.func.attr == "recover"
            and resolves_to(p, w, c, [f"{REC}.FailureManager.recover"])]
    rec_ids = [i for c in recs for i in g.node_containing(c)]
    explicit = lambda n: n.kind == "raise_stmt"  # noqa: E731

    # exceptions that must leave without recovery
    for name in NO_RECOVER:
        h = first_handler(p, tr, name)
        if h is None:
            ok, msg = True, ""
            if "Exception" in exc_ancestors(p, name):
                ok, msg = True, ""  # no handler at all: RECOVER rows below report it
            ctx.ob("R2", f"{name} propagates (no handler)", ok, func=w, node=tr, instance=f"norecover:{name}", trivial=True)
            continue
        hid = g.ids_of(h)
        reg = g.reach(hid, kinds=NORMAL, include_src=True)
        swallowed = g.exit in reg
        recovers = any(i in reg for i in rec_ids)
        ctx.ob("R2", f"{name} is re-raised without calling recover", not swallowed and not recovers, func=w, node=h,
               instance=f"norecover:{name}",
               message=f"{name} caught by `except {unparse(h.type) if h.type else ''}` is "
               + ("handed to failure_manager.recover" if recovers else "swallowed (the phase looks successful)"),
               witness=g.describe(g.path(hid[0], [g.exit] + rec_ids, kinds=NORMAL) or []))
    # exceptions that must be recovered
    rec_handlers = {}
    for name in RECOVER:
        h = first_handler(p, tr, name)
        if h is None:
            ctx.ob("R2", f"{name} is routed to failure_manager.recover", False, func=w, node=tr, instance=f"recover:{name}",
                   message=f"no except clause of the wrapper catches {name}: the failure is never recovered")
            continue
        hid = g.ids_of(h)
        esc = g.escape(hid[0], rec_ids, targets=[g.exit, g.raise_], kinds=ALL, exc_from=explicit) if rec_ids else [hid[0]]
        ctx.ob("R2", f"{name} is routed to failure_manager.recover on every path", esc is None, func=w, node=h,
               instance=f"recover:{name}",
               message=f"{name} can leave the wrapper without failure_manager.recover being called",
               witness=g.describe(esc or []))
        rec_handlers[id(h)] = h
    ctx.require(bool(recs), "C16.R2: the wrapper never calls failure_manager.recover")
    fm_recover = p.func(f"{REC}.FailureManager.recover")
    for c in recs:
        b = bind_args(fm_recover.node, c) or {}
        h = next((a for a in ancestors(c) if isinstance(a, ast.ExceptHandler) and a in tr.handlers), None)

        def picked_by(name_expr, cls_q):
            if not isinstance(name_expr, ast.Name):
                return False
            ds = defs_of(w, name_expr.id)
            if not ds:
                return False

            def isinst(n):
                return (isinstance(n, ast.Call) and isinstance(n.func, ast.Name) and n.func.id == "isinstance" and len(n.args) == 2
                        and p.resolve_expr(w.module, n.args[1]) == cls_q)

            return all(d.value is not None and any(isinst(x) for x in ast.walk(d.value)) for d in ds)

        ok_job = picked_by(b.get("job"), JOB)
        ok_step = picked_by(b.get("step"), STEP_CLS)
        e = b.get("exception")
        ok_exc = h is not None and isinstance(e, ast.Name) and e.id == h.name
        ctx.ob("R2", "recover(job, step, e) receives the Job, the Step and the caught exception", ok_job and ok_step and ok_exc and is_awaited(c),
               func=w, node=c, instance="recover:args",
               message=f"`{unparse(c)}`: job is a Job={ok_job}, step is a Step={ok_step}, exception is the caught one={ok_exc}, awaited={is_awaited(c)}")
        # normal completion of the phase never reaches recover
        rid = g.node_containing(c)
        reach_n = g.reach(cids, kinds=NORMAL)
        ctx.ob("R2", "normal completion of the phase does not call recover", not any(i in reach_n for i in rid), func=w, node=c,
               instance="recover:only-on-failure", message="failure_manager.recover is reached on the normal path")
        # failure of recover propagates
        leak = None
        for i in rid:
            for b_ in [x for x, k in g.succ[i] if k == "exc"]:
                if b_ == g.raise_:
                    continue
                pth = g.path(b_, [g.exit], kinds=ALL)
                if pth is not None:
                    leak = [i, *pth]
        ctx.ob("R2", "a failure of recover propagates to the caller", leak is None, func=w, node=c, instance="recover:propagates",
               message="an exception raised by failure_manager.recover is swallowed: the step continues as if the job had succeeded",
               witness=g.describe(leak or []))
        # successful recovery returns normally
        ctx.ob("R2", "a successful recover lets the phase return normally", any(g.exit in g.reach([i], kinds=NORMAL) for i in rid),
               func=w, node=c, instance="recover:returns", message="after a successful recovery the wrapper still raises")


# --------------------------------------------------------------------------- R3


def _stage_nodes(ctx, f):
    """[(label, [cfg ids], [calls])] in required order."""
    p = ctx.prog
    g = f.cfg
    out = []

    def by_callee(label, names, fallback=False):
        cs = [c for c in f.calls() if resolves_to(p, f, c, names, attr_fallback=fallback)]
        out.append((label, sorted({i for c in cs for i in g.node_containing(c)}), cs))

    by_callee("build_graph", [f"{UTILS}.ProvenanceGraph.build_graph"])
    by_callee("create_graph_mapper", [f"{UTILS}.create_graph_mapper"])
    lock_ids, lock_calls = set(), []
    for n in g.nodes.values():
        for x in n.walk():
            if isinstance(x, ast.Attribute) and x.attr == "lock" and n.kind in ("stmt", "with_enter"):
                par = parent(x)
                acquiring = n.kind == "with_enter" or (
                    isinstance(par, ast.Call) and isinstance(par.func, ast.Attribute) and par.func.attr == "enter_async_context"
                ) or (isinstance(par, ast.Attribute) and par.attr == "acquire")
                if acquiring:
                    lock_ids.add(n.id)
                    lock_calls.append(par if isinstance(par, ast.Call) else x)
    out.append(("lock acquisition", sorted(lock_ids), lock_calls))
    by_callee("_synchronize_workflows", [f"{RFM}._synchronize_workflows"])
    by_callee("_populate_workflow", [f"{FM}._populate_workflow"])
    by_callee("_inject_tokens", [f"{FM}._inject_tokens"])
    by_callee("restore", [f"{STEP_CLS}.restore"], fallback=True)
    by_callee("save", [f"{CORE_WF}.Workflow.save"])
    by_callee("executor.run", ["streamflow.workflow.executor.StreamFlowExecutor.run"])
    return out


def r3(ctx):
    p = ctx.prog
    f = p.func(f"{RFM}._recover")
    g = f.cfg
    stages = _stage_nodes(ctx, f)
    for label, ids, calls in stages:
        aw = all(is_awaited(c) for c in calls if isinstance(c, ast.Call))
        ctx.ob("R3", f"_recover performs `{label}` (awaited)", bool(ids) and aw, func=f, node=(calls[0] if calls else f.node),
               instance=f"stage:{label}", message=f"_recover has no (awaited) `{label}` stage")
    present = [(l, i, cs) for l, i, cs in stages if i]

    def loops_of(calls):
        return {id(a): a for c in calls for a in ancestors(c) if isinstance(a, (ast.For, ast.AsyncFor, ast.While))}

    for (la, ia, ca), (lb, ib, cb) in zip(present, present[1:]):
        # a stage performed in a loop (possibly zero iterations) is represented by the loop head
        heads = [i for k, lp in loops_of(ca).items() if k not in loops_of(cb) for i in g.ids_of(lp.test if isinstance(lp, ast.While) else lp)]
        dom = list(ia) + heads
        bad = [b for b in ib if not g.dominates(dom, b)]
        wit = g.describe(g.path(g.entry, bad[:1], avoid=dom) or []) if bad else []
        back = None
        if not bad:
            after_b = g.reach(ib)
            again = [a for a in ia if a in after_b]
            if again:
                bad = again
                back = g.path(ib[0], again[:1]) or g.path(ib[-1], again[:1])
                wit = g.describe(back or [])
        ctx.ob("R3", f"`{la}` precedes `{lb}` on every path", not bad, func=f, node=g.nodes[(bad or ib)[0]].ast,
               instance=f"order:{la}<{lb}",
               message=(f"`{la}` runs (again) after `{lb}`" if back is not None else f"`{lb}` can run before / without `{la}`"), witness=wit)
    # restore covers every step of the recovery workflow
    restores = [c for l, _, cs in stages if l == "restore" for c in cs]
    wf_exprs = []
    for c in restores:
        loop = next((a for a in ancestors(c) if isinstance(a, (ast.For, ast.AsyncFor))), None)
        ok, msg = True, ""
        if loop is None:
            ok, msg = False, "restore is not called in a loop over the steps"
        else:
            it = strip(loop.iter)
            base = None
            for x in [it, *ast.walk(it)]:
                if isinstance(x, ast.Attribute) and x.attr == "steps":
                    base = x.value
            recv = c.func.value if isinstance(c.func, ast.Attribute) else None
            tnames = {n.id for n in ast.walk(loop.target) if isinstance(n, ast.Name)}
            if base is None:
                ok, msg = False, f"the loop iterates `{unparse(loop.iter)}`, not the steps of the recovery workflow"
            elif not (isinstance(recv, ast.Name) and recv.id in tnames):
                ok, msg = False, f"restore is called on `{unparse(recv)}`, not on the loop variable"
            else:
                wf_exprs.append(("restore loop", base))
                iid = g.ids_of(loop)
                rid = g.node_containing(c)
                body = [b for i in iid for b in [x for x, k in g.succ[i] if k == "t"]]
                skip = next((pth for b in body if b not in rid for pth in [g.path(b, iid, avoid=rid)] if pth), None)
                after = [x for i in iid for x, k in g.succ[i] if k == "f"]
                brk = next((pth for b in body for pth in [g.path(b, after, avoid=iid)] if pth and after), None)
                if skip:
                    ok, msg = False, "an iteration can skip restore: " + " -> ".join(g.describe(skip)[:4])
                elif brk:
                    ok, msg = False, "the loop can be left before every step is restored: " + " -> ".join(g.describe(brk)[:4])
        ctx.ob("R3", "restore is awaited for every step of the recovery workflow", ok, func=f, node=c, instance="restore:coverage",
               message=msg)
    # one workflow object through all stages
    def arg_of(label, callee_q, pname, bound):
        for l, _, cs in stages:
            if l == label:
                for c in cs:
                    b = bind_args(p.func(callee_q).node, c, bound=bound) or {}
                    if pname in b:
                        wf_exprs.append((label, b[pname]))

    arg_of("_synchronize_workflows", f"{RFM}._synchronize_workflows", "workflow", True)
    arg_of("_populate_workflow", f"{FM}._populate_workflow", "workflow", False)
    arg_of("_inject_tokens", f"{FM}._inject_tokens", "workflow", False)
    for l, _, cs in stages:
        if l == "save":
            wf_exprs += [("save", c.func.value) for c in cs if isinstance(c.func, ast.Attribute)]
        if l == "executor.run":
            for c in cs:
                for o in origins(f, c.func.value) if isinstance(c.func, ast.Attribute) else []:
                    o = strip(o)
                    if isinstance(o, ast.Call) and o.args:
                        wf_exprs.append(("executor", o.args[0]))
                    elif isinstance(o, ast.Call) and o.keywords:
                        wf_exprs.append(("executor", o.keywords[0].value))
    ctx.require(len(wf_exprs) >= 4, "C16.R3: could not identify the workflow operand of the assembly stages")

    def loaded(e):
        return any(
            isinstance(strip(o), ast.Call) and resolves_to(p, f, strip(o), ["streamflow.persistence.loading_context.WorkflowBuilder.load_workflow"])
            for o in origins(f, e)
        )

    for label, e in wf_exprs:
        ctx.ob("R3", f"`{label}` operates on the workflow loaded by WorkflowBuilder.load_workflow", loaded(e), func=f, node=e,
               instance=f"same-workflow:{label}",
               message=f"`{label}` uses `{unparse(e)}`, which is not the freshly loaded recovery workflow")


# --------------------------------------------------------------------------- R4

STATEFUL = [f"{STEP}.ScatterStep", f"{STEP}.LoopCombinatorStep", "streamflow.cwl.transformer.DefaultTransformer"]


def _trivial_body(fn) -> bool:
    for s in fn.node.body:
        if isinstance(s, ast.Expr) and isinstance(s.value, ast.Constant):
            continue
        if isinstance(s, ast.Pass):
            continue
        if isinstance(s, ast.Return) and (s.value is None or (isinstance(s.value, ast.Constant) and s.value.value is None)):
            continue
        return False
    return True


def _availability_polarity(f, root) -> list[tuple[ast.AST, bool | None]]:
    """For every comprehension filter below `root` that reads `<x>.token_availability[...]`:
    (filter expr, value of the availability entry forced by a passing filter)."""
    out = []
    for n in [root, *ast.walk(root)]:
        if isinstance(n, ast.comprehension):
            for cond in n.ifs:
                subs = [x for x in [cond, *ast.walk(cond)] if isinstance(x, ast.Subscript) and isinstance(x.value, ast.Attribute)
                        and x.value.attr == "token_availability"]
                for s in subs:
                    forced = [v for e, v in implied(cond, True) if e is s]
                    out.append((cond, forced[0] if forced else None))
    return out


def r4(ctx):
    p = ctx.prog
    for cq in STATEFUL:
        c = p.cls(cq)
        ctx.require(p.is_subclass(cq, STEP_CLS), f"C16.R4: {cq} is no longer a Step")
        m = c.methods.get("restore")
        ctx.ob("R4", f"{c.name} overrides restore with a non-trivial body", m is not None and not _trivial_body(m),
               qualname=cq, func=m, node=(m.node if m else c.node), instance=f"override:{c.name}",
               message=f"{c.name} keeps run-time state but inherits the no-op restore: a recovered run resumes from a wrong state")
    # LoopCombinatorStep.restore forwards to the combinator
    f = p.func(f"{STEP}.LoopCombinatorStep.restore") if "restore" in p.cls(f"{STEP}.LoopCombinatorStep").methods else None
    if f is not None:
        g = f.cfg
        cs = [c for c in f.calls() if isinstance(c.func, ast.Attribute) and c.func.attr == "restore"
              and isinstance(c.func.value, ast.Attribute) and c.func.value.attr == "combinator"]
        ids = [i for c in cs for i in g.node_containing(c)]
        esc = g.escape(g.entry, ids) if ids else [g.entry]
        ctx.ob("R4", "LoopCombinatorStep.restore awaits combinator.restore on every normal path", esc is None and all(is_awaited(c) for c in cs),
               func=f, node=f.node, instance="loop:forward", message="the loop combinator's iteration counters are not restored",
               witness=g.describe(esc or []))
    lc = p.cls("streamflow.workflow.combinator.LoopCombinator")
    m = lc.methods.get("restore")
    writes = m is not None and any(
        isinstance(n, (ast.Assign, ast.AugAssign)) and any(
            isinstance(t, ast.Subscript) and unparse(t.value) == "self.iteration_map"
            for t in (n.targets if isinstance(n, ast.Assign) else [n.target]))
        for n in m.body_nodes())
    ctx.ob("R4", "LoopCombinator.restore rebuilds iteration_map", bool(writes), qualname=lc.qualname, func=m,
           node=(m.node if m else lc.node), instance="loop:iteration_map",
           message="LoopCombinator.restore does not write iteration_map: resumed iterations are re-numbered from 0")
    # ScatterStep.restore installs a filtering port
    sc = p.cls(f"{STEP}.ScatterStep").methods.get("restore")
    if sc is not None:
        ok = False
        for n in sc.body_nodes():
            if isinstance(n, ast.Assign) and any(isinstance(t, ast.Subscript) and unparse(t.value).endswith("workflow.ports") for t in n.targets):
                v = strip(n.value)
                if isinstance(v, ast.Call) and resolves_to(p, sc, v, ["streamflow.workflow.port.FilterTokenPort"]):
                    b = bind_args(p.func("streamflow.workflow.port.FilterTokenPort.__init__").node, v) or {}
                    ok = "filter_function" in b and not (isinstance(b["filter_function"], ast.Constant))
        ctx.ob("R4", "ScatterStep.restore replaces its output port by a FilterTokenPort with a filter", ok, func=sc, node=sc.node,
               instance="scatter:filter", message="a restored scatter re-emits every element, also those whose results are still available")
    # polarity of the availability filters
    f = p.func(f"{RFM}._recover")
    step_restore = p.func(f"{STEP_CLS}.restore")
    found = False
    for c in f.calls():
        if isinstance(c.func, ast.Attribute) and c.func.attr == "restore" and resolves_to(p, f, c, [f"{STEP_CLS}.restore"]):
            b = bind_args(step_restore.node, c) or {}
            arg = b.get("on_tokens")
            pol = []
            if arg is not None:
                for o in origins(f, arg):
                    pol += _availability_polarity(f, o)
            found = True
            ok = bool(pol) and all(v is False for _, v in pol)
            ctx.ob("R4", "restore receives exactly the unavailable output tokens", ok, func=f, node=c, instance="restore:unavailable",
                   message="the on_tokens argument of restore is not filtered by `not token_availability[...]`: "
                   + ("no availability filter" if not pol else "filter keeps available tokens"))
    ctx.require(found, "C16.R4: call of Step.restore not found in _recover")
    f = p.func(f"{FM}._inject_tokens")
    g = f.cfg
    puts = [c for c in f.calls() if isinstance(c.func, ast.Attribute) and c.func.attr == "put" and resolves_to(p, f, c, [f"{CORE_WF}.Port.put"])]
    ctx.require(bool(puts), "C16.R4: _inject_tokens no longer puts tokens")
    for c in puts:
        loop = next((a for a in ancestors(c) if isinstance(a, ast.For)), None)
        pol = []
        if loop is not None:
            for o in origins(f, loop.iter):
                pol += _availability_polarity(f, o)
        ok = bool(pol) and all(v is True for _, v in pol)
        ctx.ob("R4", "_inject_tokens injects exactly the available tokens", ok, func=f, node=c, instance="inject:available",
               message="injected tokens are not filtered by `token_availability[...]`: lost data would be injected as if present")
    # boundary rules
    add_inter = p.func("streamflow.workflow.port.InterWorkflowPort.add_inter_port")
    fstep = param_of_type(p, f, STEP_CLS)
    fjob = param_of_type(p, f, JOB)
    wfp = param_of_type(p, f, f"{CORE_WF}.Workflow")
    ctx.require(bool(fstep and fjob and wfp), "C16.R4: _inject_tokens lost its Job/Step/Workflow parameters")
    rules = []
    for c in f.calls():
        if isinstance(c.func, ast.Attribute) and c.func.attr == "add_inter_port":
            b = bind_args(add_inter.node, c) or {}
            rules.append((c, b))
    ctx.require(len(rules) >= 2, "C16.R4: boundary rules (add_inter_port) not found in _inject_tokens")

    def action(b):
        e = b.get("boundary_action")
        outs = [strip(o) for o in origins(f, e)] if e is not None else []
        if len(outs) == 1 and isinstance(outs[0], ast.Attribute) and p.resolve_expr(f.module, outs[0].value) == "streamflow.workflow.port.BoundaryAction":
            return outs[0].attr
        return None

    def job_tag(b):
        e = b.get("boundary_tags")
        for o in origins(f, e) if e is not None else []:
            o = strip(o)
            if isinstance(o, (ast.List, ast.Tuple)) and len(o.elts) == 1:
                t = strip(o.elts[0])
                if isinstance(t, ast.Call) and resolves_to(p, f, t, ["streamflow.core.utils.get_tag"]) and t.args and mentions(
                    f, t.args[0], lambda n: isinstance(n, ast.Attribute) and n.attr == "inputs" and isinstance(n.value, ast.Name) and n.value.id == fjob):
                    return True
        return False

    def to_original(b):
        e = b.get("port")
        return e is not None and mentions(f, e, lambda n: isinstance(n, ast.Call) and isinstance(n.func, ast.Attribute)
                                          and n.func.attr == "get_output_port" and isinstance(n.func.value, ast.Name) and n.func.value.id == fstep)

    def on_recovery_wf(c):
        return mentions(f, c.func.value, lambda n: isinstance(n, ast.Attribute) and n.attr == "ports" and isinstance(n.value, ast.Name) and n.value.id == wfp)

    prop = [(c, b) for c, b in rules if action(b) == "PROPAGATE" and to_original(b)]
    term = [(c, b) for c, b in rules if action(b) == "TERMINATE" and not to_original(b)]
    okp = len(prop) == 1 and job_tag(prop[0][1]) and on_recovery_wf(prop[0][0])
    ctx.ob("R4", "_inject_tokens propagates the recovered outputs to the failed step's original port, keyed by the failed job's tag",
           okp, func=f, node=(prop[0][0] if prop else f.node), instance="boundary:propagate",
           message="no `add_inter_port(port=failed_step.get_output_port(..), boundary_tags=[get_tag(failed_job.inputs.values())], "
           "boundary_action=PROPAGATE)` on the recovery workflow's port: the original workflow never receives the recovered outputs")
    okt = len(term) == 1 and job_tag(term[0][1]) and on_recovery_wf(term[0][0]) and mentions(
        f, term[0][1].get("port"), lambda n: isinstance(n, ast.Attribute) and n.attr == "ports" and isinstance(n.value, ast.Name) and n.value.id == wfp)
    ctx.ob("R4", "_inject_tokens terminates the recovery port once the failed job's tag is produced", okt, func=f,
           node=(term[0][0] if term else f.node), instance="boundary:terminate",
           message="no TERMINATE rule keyed by the failed job's tag on the recovery workflow's own port: the recovery workflow re-runs beyond the failed job")
    if prop and term:
        a = g.node_containing(prop[0][0])
        b_ = g.node_containing(term[0][0])
        together = bool(a and b_) and (
            (g.dominates(a, b_[0]) and g.escape(a[0], b_) is None) or (g.dominates(b_, a[0]) and g.escape(b_[0], a) is None))
        ctx.ob("R4", "PROPAGATE and TERMINATE rules are always installed together", together, func=f, node=prop[0][0],
               instance="boundary:together", message="one of the two boundary rules can be installed without the other")


RULES = [("R1", r1), ("R2", r2), ("R3", r3), ("R4", r4)]
FLOORS = {"R1": 13, "R2": 14, "R3": 20, "R4": 11}

_W = f"{DECORATOR}.<locals>.wrapper"
_REC = f"{RFM}._recover"

VARIANTS = [
    # ---- R1
    V("@recoverable removed from _run_transfer", STEP_FILE, f"{STEP}.TransferStep._run_transfer", "@recoverable\nasync def _run_transfer", "async def _run_transfer", "R1", control=True),
    V("@recoverable removed from _schedule", STEP_FILE, f"{STEP}.ScheduleStep._schedule", "@recoverable\nasync def _schedule", "async def _schedule", "R1"),
    V("@recoverable removed from _do_handle_failure", FM_FILE, f"{RFM}._do_handle_failure", "@recoverable\nasync def", "async def", "R1"),
    V("run loop bypasses the wrapper", STEP_FILE, f"{STEP}.ExecuteStep._run_job", "await self._execute_command(job, connectors)",
      "await self._execute_command.__wrapped__(self, job, connectors)", "R1"),
    V("subclass overrides a phase without the decorator", STEP_FILE, None, None, None, "R1",
      append="""
      class _FastTransferStep(TransferStep):
          async def _run_transfer(self, job: Job, inputs, port_name: str, token: Token) -> None:
              self.get_output_port(port_name).put(await self.transfer(job, token))
      """),
    V("scheduling performed outside the decorated phase", STEP_FILE, f"{STEP}.ScheduleStep.run", "await self._schedule(job=job)\n            status = Status.COMPLETED",
      "await self.workflow.context.scheduler.schedule(job, self.binding_config, self.hardware_requirement)\n            await self._schedule(job=job)\n            status = Status.COMPLETED", "R1"),
    # ---- R2
    V("wrapper catches BaseException", REC_FILE, DECORATOR, "except Exception as e:", "except BaseException as e:", "R2", control=True),
    V("wrapper swallows a failed recovery", REC_FILE, DECORATOR, "logger.exception(ie)\n                raise", "logger.exception(ie)", "R2"),
    V("wrapper swallows unrecoverable exceptions", REC_FILE, DECORATOR, "logger.exception(e)\n            raise\n", "logger.exception(e)\n", "R2"),
    V("unrecoverable exceptions are recovered", REC_FILE, DECORATOR, "except (asyncio.CancelledError, KeyboardInterrupt, UnrecoverableWorkflowException) as e:",
      "except (asyncio.CancelledError, KeyboardInterrupt) as e:", "R2"),
    V("decorator returns the bare function", REC_FILE, DECORATOR, "return wrapper", "return func", "R2"),
    V("recover receives (step, job)", REC_FILE, DECORATOR, "recover(job, step, e)", "recover(step, job, e)", "R2"),
    V("recover not awaited", REC_FILE, DECORATOR, "await step.workflow.context.failure_manager.recover(job, step, e)", "step.workflow.context.failure_manager.recover(job, step, e)", "R2"),
    V("handler narrowed to WorkflowExecutionException", REC_FILE, DECORATOR, "except Exception as e:", "except WorkflowExecutionException as e:", "R2"),
    # ---- R3
    V("save after run", FM_FILE, _REC, "await new_workflow.save(new_workflow.context.database)\n    executor = StreamFlowExecutor(new_workflow)\n    await executor.run()",
      "executor = StreamFlowExecutor(new_workflow)\n    await executor.run()\n    await new_workflow.save(new_workflow.context.database)", "R3", control=True),
    V("executor runs the original workflow", FM_FILE, _REC, "StreamFlowExecutor(new_workflow)", "StreamFlowExecutor(workflow)", "R3"),
    V("restore loop over the original workflow", FM_FILE, _REC, "for step in new_workflow.steps.values():", "for step in workflow.steps.values():", "R3"),
    V("restore loop removed", FM_FILE, _REC, "for step in new_workflow.steps.values():\n        await step.restore(", "for step in new_workflow.steps.values():\n        logger.debug(", "R3"),
    V("restore only for the first step", FM_FILE, _REC, "if port.name in mapper.port_tokens.keys()})\n", "if port.name in mapper.port_tokens.keys()})\n        break\n", "R3"),
    V("tokens injected before the workflow is populated", FM_FILE, _REC,
      "        await self._synchronize_workflows(", "        await _inject_tokens(failed_job=failed_job, failed_step=failed_step, mapper=mapper, workflow=new_workflow)\n        await self._synchronize_workflows(", "R3"),
    V("restore after save", FM_FILE, _REC, "    if len(new_workflow.steps) == 0:", "    await new_workflow.save(new_workflow.context.database)\n    if len(new_workflow.steps) == 0:", "R3"),
    # ---- R4
    V("restore receives the available tokens", FM_FILE, _REC, "if not mapper.token_availability[token_id]", "if mapper.token_availability[token_id]", "R4", control=True),
    V("unavailable tokens are injected", FM_FILE, f"{FM}._inject_tokens", "if mapper.token_availability[token_id]]", "]", "R4"),
    V("first boundary rule terminates instead of propagating", FM_FILE, f"{FM}._inject_tokens",
      "boundary_tags=[get_tag(failed_job.inputs.values())], boundary_action=BoundaryAction.PROPAGATE", "boundary_tags=[get_tag(failed_job.inputs.values())], boundary_action=BoundaryAction.TERMINATE", "R4"),
    V("terminate rule keyed by all port tags", FM_FILE, f"{FM}._inject_tokens",
      "port=workflow.ports[port.name], boundary_tags=[get_tag(failed_job.inputs.values())]", "port=workflow.ports[port.name], boundary_tags=[t.tag for t in token_list]", "R4"),
    V("LoopCombinatorStep.restore forgets the combinator", STEP_FILE, f"{STEP}.LoopCombinatorStep.restore", "await self.combinator.restore(from_tags)", "pass", "R4"),
    V("ScatterStep inherits the no-op restore", STEP_FILE, f"{STEP}.ScatterStep", "async def restore(self, on_tokens", "async def _restore_unused(self, on_tokens", "R4"),
    V("LoopCombinator.restore is a no-op", COMB_FILE, "streamflow.workflow.combinator.LoopCombinator.restore",
      "self.iteration_map[prefix] = max(self.iteration_map.get(prefix, iteration_num), iteration_num)", "pass", "R4"),
    # ---- benign
    V("rename the recovery workflow local", FM_FILE, _REC, "new_workflow", "recovery_wf", None, count=9),
    V("executor built through a temporary", FM_FILE, _REC, "executor = StreamFlowExecutor(new_workflow)", "wf = new_workflow\n    executor = StreamFlowExecutor(wf)", None),
    V("rename the wrapper and add logging", REC_FILE, DECORATOR, "wrapper", "_recovering", None, count=2),
    V("logging before the wrapped call", REC_FILE, DECORATOR, "try:\n            await func(*args, **kwargs)", "try:\n            logger.debug('phase start')\n            await func(*args, **kwargs)", None),
    V("independent statements reordered in _recover", FM_FILE, _REC,
      "new_workflow = await workflow_builder.load_workflow(workflow.persistent_id)\n    provenance = ProvenanceGraph(workflow.context)",
      "provenance = ProvenanceGraph(workflow.context)\n    new_workflow = await workflow_builder.load_workflow(workflow.persistent_id)", None),
    V("keyword call of the phase", STEP_FILE, f"{STEP}.ExecuteStep._run_job", "await self._execute_command(job, connectors)", "await self._execute_command(job=job, connectors=connectors)", None),
    V("recover called through a local alias of the manager", REC_FILE, DECORATOR, "await step.workflow.context.failure_manager.recover(job, step, e)",
      "fm = step.workflow.context.failure_manager\n                await fm.recover(job=job, step=step, exception=e)", None),
]
