"""C13 Jobs go to the first admissible declared target.

Clauses decided (each a necessary condition of "placed on the first surviving target in declared order"):
R1 order preservation: every concrete `BindingFilter.get_targets` (enumerated through the class table;
   declared shufflers excepted) returns an order-preserving construction over its `targets` parameter --
   no set/frozenset, no sort on another key, no reversal, no `random.*`, no accumulation that is not
   target-major (an accumulation under an outer loop over anything but the targets, e.g. rule-major with a
   de-duplicating guard, keeps the same *set* but orders it by rule: seeded change 2).  (S1, the `set`
   accumulator of `MatchingBindingFilter.get_targets`, was repaired in /repo; kept as a self-test variant.)
R2 `DefaultScheduler.schedule`: the target list starts as the complete declared list, every filter of
   `binding_config.filters` is applied, in declared order, each on the result of the previous one (the
   result is neither dropped nor recomputed from the unfiltered list; no iteration of the filter loop can end
   -- break, continue, conditional -- without applying its filter: a filter is a gate, not only a chooser,
   seeded change 3), and one `_process_target` task per
   surviving target is created by ordered, complete iteration over the final list with that target.
R3 matching semantics: `MatchingRule.eval` can return a true value exactly when the deployment matched and
   (the rule has no service or the service matched) -- guard truth table folded on the CFG --, only after
   the predicate loop is exhausted, every iteration compares `match` with `str(job.inputs[port].value)`
   (on every alternative of a flow-sensitive backward value flow: temporaries such as `token = job.inputs[port]`
   are followed when they are defined on every path of the current iteration, a helper returning the cast value is
   inlined with its parameters bound to the call-site arguments, bound 2; a temporary that may carry the previous
   iteration's token, another port or the un-cast token is reported)
   and a mismatch leaves without reaching a true return; `MatchingBindingFilter.get_targets` keeps a target
   iff `any` rule evaluates true for *that* target's deployment name and service (the guard of the accumulation
   folds to the rule evaluation; `<target> not in <accumulator>` is a recognised de-duplication conjunct; any other
   conjunct/disjunct the rule cannot evaluate is reported as keep/drop depending on something else than the
   rules, not refused); an empty result raises (the emptiness test is read through its reaching definitions:
   `n = len(kept); if n == 0`, `empty = not kept; if empty` are the test itself when the temporary has one dominating
   plain definition and nothing between it and the test touches the accumulator -- a length taken before the
   accumulation is not the length of what is returned and is reported).
R4 `DefaultScheduler._process_target`: acquiring `self.wait_queue` is the first suspension point (FIFO lock
   acquisition is what turns task-creation order into target priority); `_allocate_job` is guarded by the
   `job_context.scheduled` test and followed by `scheduled = True` before any suspension (one placement).
R5 `get_binding_config` builds `BindingConfig.targets` / `.filters` by ordered, complete iteration over the
   declared `config["targets"]` / `config.get("filters")`.
R6 every declared rule reaches the rule list ("keeps a target iff SOME rule ... matches" quantifies over all the rules
   of the configuration: seeded change 1 of the second round indexed the rules by (deployment, service), so the last
   rule of a target replaced the earlier ones).  For `MatchingBindingFilter` and every subclass (class table), every
   method that assigns `self.matching_rules` is followed backwards (value flow through locals, copies, helper returns,
   adder methods): the collection is append-only -- no keyed store (`c[k] = rule`, `setdefault`, dict comprehension,
   `dict(...)`), no slice / `filter` / comprehension condition, no removal (`pop/remove/clear/del`, in any method of the
   class) --; its accumulation site (append / `+=` / extend / comprehension / yield) sits under a loop over the
   complete configured `filters`, is reached by every iteration of that loop (CFG path, not lexical nesting) and the loop
   ends by exhaustion only (no break/return; raising is not dropping); each element is a `MatchingRule(...)` whose
   deployment / predicates / service derive from the entry of the current iteration.

Not decided (R6): whether two predicates of one entry naming the same port overwrite each other in the `predicates`
   mapping (that is today's behaviour of /repo: AND over distinct ports); a set of rules is accepted as long as
   `MatchingRule` keeps identity equality (no `__eq__`/`__hash__`, not a dataclass), because then nothing collapses.

Analysis errors are deferred (`_part` / `_settle`): a rule part that cannot interpret a changed shape does not
mask the violation another part reports for the same change; without any new violation the first deferred
error is raised after the last rule (exit 2, never a silent pass).
"""

from __future__ import annotations

import ast

from ..dataflow import defs_of, origins, reaching_defs
from ..model import AnalysisError, dotted, unparse, walk_no_nested
from ..report import split_known
from ..selftest import V
from ._util_F import (
    BAD,
    ORD,
    UNK,
    OrderClassifier,
    bind_args,
    builtin,
    call_is,
    compare_pair,
    edge_succ,
    enclosing_loops,
    fold3,
    guarded_reach,
    is_none,
    may_be_truthy,
    raises_only,
    resolved,
    strip_await,
)

BF = "streamflow.core.deployment.BindingFilter"
SHUFFLERS = {"streamflow.deployment.filter.shuffle.ShuffleBindingFilter"}
MATCH_MOD = "streamflow.deployment.filter.matching"
RULE = f"{MATCH_MOD}.MatchingRule"
MBF = f"{MATCH_MOD}.MatchingBindingFilter"
SCHED = "streamflow.scheduling.scheduler.DefaultScheduler"
GBC = "streamflow.deployment.utils.get_binding_config"
MFILE = "streamflow/deployment/filter/matching.py"
SHFILE = "streamflow/deployment/filter/shuffle.py"
SFILE = "streamflow/scheduling/scheduler.py"
UFILE = "streamflow/deployment/utils.py"

META = {
    "explanation": (
        "Def-use order analysis (OrderClassifier: which constructions a returned/iterated sequence flows through, "
        "loop nesting of accumulations, helper inlining up to depth 3) on every BindingFilter.get_targets found in "
        "the class table, on DefaultScheduler.schedule and on get_binding_config; CFG guard folding over the "
        "deployment/service atoms of MatchingRule.eval (8-row truth table), dominance/must-pass-through for the "
        "predicate loop, the any()-guarded accumulation and the emptiness test of the matching filter, and "
        "suspension-freedom before the scheduler lock in _process_target; backward value flow from self.matching_rules to the "
        "configured `filters` of every MatchingBindingFilter constructor in the class table (append-only collection, no keyed "
        "store or removal, every iteration reaches the accumulation site, elements built from the current entry). "
        "Decides necessary conditions only."
    ),
    "undecided": "which target wins when capacity appears later (policy/timing); behaviour of plugin filters",
    "assumptions": [
        "asyncio.Condition/Lock acquisition is FIFO and tasks start in creation order",
        "dict/list iteration follows insertion order; set iteration does not",
        "ShuffleBindingFilter is a declared shuffler (the property quantifies over shuffle-free chains)",
    ],
}


def _norm(node: ast.AST) -> str:
    return " ".join(unparse(node).split())[:90]


# ---- deferred analysis errors ------------------------------------------------------------------
# A rule part that cannot interpret a (changed) shape must not mask the violation another part reports
# for the same change (seeded change 2: the rule-major rewrite of the matching filter is an R1 order
# violation, but R3 could not fold its new guard and the whole check ended with exit 2).  Every rule part
# therefore runs under `_part`: an AnalysisError is kept aside; after the last rule it is raised (exit 2)
# when no *new* violation is reported, and downgraded to an observation otherwise.


def _part(ctx, rid: str, fn) -> None:
    try:
        fn(ctx)
    except AnalysisError as e:
        ctx.__dict__.setdefault("_c13_deferred", []).append((rid, e))


def _settle(ctx) -> None:
    deferred = ctx.__dict__.pop("_c13_deferred", [])
    if not deferred:
        return
    _, new = split_known(ctx.findings)
    if not new:
        raise deferred[0][1]
    for rid, e in deferred:
        ctx.observe(f"C13.{rid}: part of the rule could not interpret the analysed shape (not deciding while violations are reported): {e}")


def _rule(rid: str, fn, last: bool = False):
    def run(ctx):
        _part(ctx, rid, fn)
        if last:
            _settle(ctx)

    run.__name__ = fn.__name__
    run.__doc__ = fn.__doc__
    return run


# =========================================================================== R1


def r1(ctx):
    p = ctx.prog
    p.cls(BF)
    for s in SHUFFLERS:
        ctx.require(s in p.classes, f"C13.R1: declared shuffler {s} vanished")
    impls = p.concrete_impls(BF, "get_targets")
    ctx.require(bool(impls), "C13.R1: no concrete BindingFilter.get_targets found")
    for f in impls:
        cq = f.cls.qualname
        if any(p.is_subclass(cq, s) for s in SHUFFLERS):
            ctx.ob("R1", f"{f.cls.name} is a declared shuffler (excluded by the quantifier)", True, func=f, node=f.node, trivial=True)
            continue
        ctx.require(len(f.params) >= 3, f"C13.R1: {f.qualname} lost its `targets` parameter")
        tparam = f.params[2]
        oc = OrderClassifier(p, sources=lambda g, e, _f=f, _t=tparam: g is _f and isinstance(e, ast.Name) and e.id == _t)
        rets = [n for n in f.body_nodes() if isinstance(n, ast.Return) and n.value is not None]
        ctx.require(bool(rets), f"C13.R1: {f.qualname} returns no value")
        for r in rets:
            res = oc.classify(f, r.value)
            if res.kind == BAD:
                for node, why in res.bads:
                    ctx.ob(
                        "R1",
                        f"{f.cls.name}.get_targets returns its targets in declared order",
                        False,
                        func=f,
                        node=node,
                        instance=f"order:{_norm(node)}",
                        message=f"{f.cls.name}.get_targets: returned sequence loses the declared target order: {why}",
                        witness=[f"return expression: {_norm(r.value)}", f"offending construct: {_norm(node)}"],
                    )
            else:
                ctx.require(res.kind == ORD, f"C13.R1: cannot interpret how {f.qualname} builds `{_norm(r.value)}`: {res.unk[:2]}")
                ctx.ob("R1", f"{f.cls.name}.get_targets returns its targets in declared order", True, func=f, node=r)


# =========================================================================== R2


def _leads_to(f, expr, names: set[str], depth: int = 6) -> bool:
    """expr denotes (a copy of) one of the variables in `names`."""
    expr = strip_await(expr)
    if depth <= 0:
        return False
    if isinstance(expr, ast.Name):
        if expr.id in names:
            return True
        ds = defs_of(f, expr.id)
        return bool(ds) and all(d.kind in ("assign", "walrus") and d.index is None and _leads_to(f, d.value, names, depth - 1) for d in ds)
    if isinstance(expr, ast.Call) and isinstance(expr.func, ast.Name) and expr.func.id in ("list", "tuple", "iter") and len(expr.args) == 1:
        return _leads_to(f, expr.args[0], names, depth - 1)
    return False


def _cfg_param(p, f, cls_suffix: str, fallback: str) -> str:
    for name in f.params:
        ann = f.param_annotation(name)
        if ann is not None and (p.ann_to_class(f.module, ann) or "").endswith(cls_suffix):
            return name
    return fallback


def r2(ctx):
    p = ctx.prog
    f = p.func(f"{SCHED}.schedule")
    g = f.cfg
    bc = _cfg_param(p, f, ".BindingConfig", "binding_config")
    ctx.require(bc in f.params, "C13.R2: schedule lost its binding_config parameter")

    def src(attr):
        return lambda fn, e: fn is f and isinstance(e, ast.Attribute) and e.attr == attr and isinstance(e.value, ast.Name) and e.value.id == bc

    pt = {"get_targets": (1, "targets")}
    oc_targets = OrderClassifier(p, src("targets"), passthrough=pt, complete=True)
    oc_filters = OrderClassifier(p, src("filters"), complete=True)

    calls = [c for c in f.calls() if isinstance(c.func, ast.Attribute) and c.func.attr == "get_targets"]
    ctx.require(bool(calls), "C13.R2: schedule no longer calls <filter>.get_targets")
    chain: set[str] = set()
    for c in calls:
        # --- result assigned, argument chained
        stmt = c
        while not isinstance(stmt, ast.stmt):
            stmt = stmt._parent
        tgt = None
        if isinstance(stmt, ast.Assign) and len(stmt.targets) == 1 and isinstance(stmt.targets[0], ast.Name) and strip_await(stmt.value) is c:
            tgt = stmt.targets[0].id
        elif isinstance(stmt, ast.AnnAssign) and isinstance(stmt.target, ast.Name) and stmt.value is not None and strip_await(stmt.value) is c:
            tgt = stmt.target.id
        ctx.ob("R2", "the result of get_targets replaces the target list", tgt is not None, func=f, node=stmt, instance="schedule:result-kept",
               message="schedule: the list returned by <filter>.get_targets is dropped: the filter has no effect")
        loops = enclosing_loops(c, f.node)
        ctx.require(len(loops) == 1, "C13.R2: get_targets is not called from a single loop over the filters")
        lp = loops[0]
        aliases = {tgt} if tgt is not None else set()
        changed = True
        while changed:
            changed = False
            for n in ast.walk(lp):
                if isinstance(n, ast.Assign) and len(n.targets) == 1 and isinstance(n.targets[0], ast.Name) and isinstance(n.value, ast.Name):
                    if n.value.id in aliases and n.targets[0].id not in aliases:
                        aliases.add(n.targets[0].id)
                        changed = True
        args = bind_args(c, p.func(f"{BF}.get_targets").node, skip_self=True)
        arg = args.get("targets")
        ctx.require(arg is not None, "C13.R2: `targets` argument of get_targets not found")
        chain |= aliases or ({arg.id} if isinstance(arg, ast.Name) else set())
        chained = isinstance(arg, ast.Name) and arg.id in aliases
        ctx.ob("R2", "each filter is applied on the result of the previous one", chained, func=f, node=c, instance="schedule:chained",
               message=f"schedule: get_targets receives `{_norm(arg)}` instead of the previous filter's result: earlier filters are undone")
        # --- loop over the filters: declared order, complete
        res = oc_filters.classify(f, lp.iter)
        if res.kind == BAD:
            for node, why in res.bads:
                ctx.ob("R2", "filters are applied in binding_config.filters order, all of them", False, func=f, node=node,
                       instance=f"schedule:filters:{_norm(node)}", message=f"schedule: filter chain is not the declared one: {why}")
        else:
            ctx.require(res.kind == ORD, f"C13.R2: cannot interpret the filter iteration `{_norm(lp.iter)}`: {res.unk[:2]}")
            ctx.ob("R2", "filters are applied in binding_config.filters order, all of them", True, func=f, node=lp)
        # receiver is the loop's filter
        recv = c.func.value
        loopvars = {n.id for n in ast.walk(lp.target) if isinstance(n, ast.Name)}
        ok_recv = isinstance(recv, ast.Name) and (
            recv.id in loopvars
            or any(
                d.kind == "assign" and d.value is not None and loopvars & {x.id for x in ast.walk(d.value) if isinstance(x, ast.Name)}
                for d in defs_of(f, recv.id, scope=lp)
            )
        )
        ctx.ob("R2", "get_targets is invoked on the filter of the current iteration", ok_recv, func=f, node=c, instance="schedule:receiver",
               message=f"schedule: get_targets is called on `{_norm(recv)}`, which is not the loop's current filter")
        # every iteration applies the filter
        it = g.ids_of(lp)
        cn = g.node_containing(c)
        ctx.require(bool(it) and bool(cn), "C13.R2: CFG nodes of the filter loop not found")
        after = set(edge_succ(g, it[0], "f")) | {g.exit, it[0]}
        skip = None
        for s in edge_succ(g, it[0], "t"):
            if s in cn:
                continue
            skip = g.path(s, after, avoid=cn)
            if skip:
                break
        ctx.ob("R2", "every iteration of the filter loop applies its filter", skip is None, func=f, node=lp, instance="schedule:every-filter",
               message="schedule: an iteration of the filter loop can finish without applying its filter", witness=g.describe(skip) if skip else [])

    # --- initial value + whole def-set of the chained variable
    for v in sorted(chain):
        res = oc_targets.classify(f, ast.Name(id=v, ctx=ast.Load()))
        if res.kind == BAD:
            for node, why in res.bads:
                ctx.ob("R2", "the target list starts as the complete declared list", False, func=f, node=node,
                       instance=f"schedule:initial:{_norm(node)}", message=f"schedule: `{v}` does not carry binding_config.targets in declared order: {why}")
        elif res.kind == ORD:
            ctx.ob("R2", "the target list starts as the complete declared list", True, func=f, node=f.node, instance=f"schedule:initial:{v}")
        else:
            ctx.require(False, f"C13.R2: cannot interpret the definitions of `{v}`: {res.unk[:2]}")

    # --- one task per surviving target, created in order, with that target
    pcs = [c for c in f.calls() if call_is(p, f, c, f"{SCHED}._process_target")]
    ctx.require(bool(pcs), "C13.R2: schedule no longer calls _process_target")
    for c in pcs:
        comp = None
        n = c
        while n is not None and n is not f.node:
            if isinstance(n, (ast.ListComp, ast.GeneratorExp)):
                comp = n
                break
            n = getattr(n, "_parent", None)
        if comp is not None:
            gens = comp.generators
            it_expr, it_target, conds, extra = gens[0].iter, gens[0].target, [x for gg in gens for x in gg.ifs], len(gens) > 1
        else:
            loops = enclosing_loops(c, f.node)
            ctx.require(bool(loops), "C13.R2: _process_target is not called per target (no loop/comprehension)")
            it_expr, it_target, conds, extra = loops[0].iter, loops[0].target, [], len(loops) > 1
        ctx.require(not extra, "C13.R2: nested iteration around _process_target is not interpretable")
        from_chain = _leads_to(f, it_expr, chain)
        res = oc_targets.classify(f, it_expr)
        if res.kind == BAD:
            for node, why in res.bads:
                ctx.ob("R2", "tasks are created by ordered iteration over the filtered list", False, func=f, node=node,
                       instance=f"schedule:tasks:{_norm(node)}", message=f"schedule: _process_target tasks are not created in the order of the filtered list: {why}")
        else:
            ok = from_chain and not conds
            msg = (
                f"schedule: tasks are created over `{_norm(it_expr)}`, not over the list produced by the filter chain"
                if not from_chain
                else "schedule: a condition in the task-creating iteration skips surviving targets"
            )
            if not from_chain and res.kind == UNK:
                ctx.require(False, f"C13.R2: cannot interpret the task-creating iteration `{_norm(it_expr)}`: {res.unk[:2]}")
            ctx.ob("R2", "tasks are created by ordered iteration over the filtered list", ok, func=f, node=c, instance="schedule:tasks", message=msg)
        args = bind_args(c, p.func(f"{SCHED}._process_target").node, skip_self=True)
        a = args.get("target")
        ok = isinstance(a, ast.Name) and isinstance(it_target, ast.Name) and a.id == it_target.id
        ctx.ob("R2", "each task receives the target of its iteration", ok, func=f, node=c, instance="schedule:task-target",
               message=f"schedule: _process_target(target={_norm(a) if a is not None else '?'}) is not the iteration's target")


# =========================================================================== R3


def _truthy_returns(g):
    return [n for n in g.nodes.values() if n.kind == "return" and may_be_truthy(n.ast)]


class _Frame:
    """One activation in the backward value flow of the compared operand: the function, the binding of its parameters
    to (frame, expression, use site) of the call site, and the CFG node every *fresh* definition must lie behind (the
    head of the predicate loop in `eval`, the entry of an inlined helper)."""

    def __init__(self, f, head: int, body: set | None = None, args: dict | None = None, depth: int = 0):
        self.f, self.head, self.body, self.args, self.depth = f, head, body or set(), args or {}, depth


def _use_ids(g, use: ast.AST) -> list[int]:
    return (g.ids_of(use) if isinstance(use, ast.stmt) else []) or g.node_containing(use)


def _leaves(p, fr: _Frame, e: ast.AST, use: ast.AST, depth: int = 8) -> list[tuple[_Frame, ast.AST, ast.AST]]:
    """What `e` (evaluated at `use`) denotes, as (frame, expression, use) leaves.  A local name is replaced by the plain
    assignments that *reach* the use (flow-sensitive), provided every path from the function entry to the use passes one
    of them and, when one of them sits in the loop body, every path from the loop head does too (the value belongs to
    the current iteration, not to an earlier one); a parameter of an inlined
    helper is replaced by the call-site argument; a call of a single resolved program function whose returns all carry a
    value is replaced by its return expressions (bound 2).  Everything else is a leaf."""
    e = strip_await(e)
    if depth <= 0:
        return [(fr, e, use)]
    if isinstance(e, ast.IfExp):
        return _leaves(p, fr, e.body, use, depth - 1) + _leaves(p, fr, e.orelse, use, depth - 1)
    if isinstance(e, ast.NamedExpr):
        return _leaves(p, fr, e.value, use, depth - 1)
    f = fr.f
    if isinstance(e, ast.Name):
        all_defs = defs_of(f, e.id)
        if e.id in fr.args and all(d.kind == "param" for d in all_defs):
            cfr, cexpr, cuse = fr.args[e.id]
            return _leaves(p, cfr, cexpr, cuse, depth - 1)
        if e.id in f.params:
            return [(fr, e, use)]
        g = f.cfg
        ds = reaching_defs(f, e.id, use)
        unodes = _use_ids(g, use)
        if ds and unodes and all(d.kind in ("assign", "walrus") and d.index is None and d.value is not None for d in ds):
            dids = [i for d in ds for i in _use_ids(g, d.stmt)]
            defined = bool(dids) and not any(u in dids for u in unodes) and all(g.path(g.entry, [u], avoid=dids) is None for u in unodes)
            # a definition inside the loop must also lie on every path from the loop head (value of *this* iteration)
            fresh = not (set(dids) & fr.body) or all(g.path(fr.head, [u], avoid=dids) is None for u in unodes)
            if defined and fresh:
                out = []
                for d in ds:
                    out.extend(_leaves(p, fr, d.value, d.stmt, depth - 1))
                return out
        return [(fr, e, use)]
    if isinstance(e, ast.Call) and fr.depth < 2 and builtin(p, f, e) is None:
        qs = [q for q in resolved(p, f, e, fanout=False)]
        if len(qs) == 1 and qs[0] in p.functions:
            callee = p.functions[qs[0]]
            rets = [n for n in callee.body_nodes() if isinstance(n, ast.Return)]
            plain = not any(isinstance(x, ast.Starred) for x in e.args) and not any(k.arg is None for k in e.keywords)
            is_gen = any(isinstance(n, (ast.Yield, ast.YieldFrom)) for n in callee.body_nodes())
            if rets and plain and not is_gen and not callee.decorators and all(r.value is not None for r in rets) and isinstance(callee.node, (ast.FunctionDef, ast.AsyncFunctionDef)):
                bound = callee.cls is not None and isinstance(e.func, ast.Attribute)
                amap = bind_args(e, callee.node, skip_self=bound)
                nfr = _Frame(callee, callee.cfg.entry, None, {k: (fr, v, use) for k, v in amap.items()}, fr.depth + 1)
                out = []
                for r in rets:
                    out.extend(_leaves(p, nfr, r.value, r, depth - 1))
                return out
    return [(fr, e, use)]


def _all_leaves(p, fr, e, use, pred) -> bool:
    ls = _leaves(p, fr, e, use)
    return bool(ls) and all(pred(lf, le, lu) for lf, le, lu in ls)


def _is_input_value_str(p, top: _Frame, e: ast.AST, use: ast.AST, jobp: str, keyv: str, lp: ast.AST) -> bool:
    """`e` denotes `str(<job>.inputs[<port of this iteration>].value)` on every alternative, through temporaries
    (`token = job.inputs[port]`; `value = token.value`; `inputs = job.inputs`) and small helpers."""
    f = top.f
    # the job parameter and the loop's port variable are not rebound
    if any(d.kind != "param" for d in defs_of(f, jobp)):
        return False
    kd = defs_of(f, keyv)
    if not kd or any(d.kind != "for" or d.stmt is not lp for d in kd):
        return False

    def is_name(name):
        return lambda lf, le, lu: lf is top and isinstance(le, ast.Name) and le.id == name

    def is_inputs(lf, le, lu):
        return isinstance(le, ast.Attribute) and le.attr == "inputs" and _all_leaves(p, lf, le.value, lu, is_name(jobp))

    def is_token(lf, le, lu):
        return (isinstance(le, ast.Subscript) and not isinstance(le.slice, ast.Slice)
                and _all_leaves(p, lf, le.value, lu, is_inputs) and _all_leaves(p, lf, le.slice, lu, is_name(keyv)))

    def is_value(lf, le, lu):
        return isinstance(le, ast.Attribute) and le.attr == "value" and _all_leaves(p, lf, le.value, lu, is_token)

    def is_str(lf, le, lu):
        return (isinstance(le, ast.Call) and builtin(p, lf.f, le) == "str" and len(le.args) == 1 and not le.keywords
                and not isinstance(le.args[0], ast.Starred) and _all_leaves(p, lf, le.args[0], lu, is_value))

    return _all_leaves(p, top, e, use, is_str)


def _r3_eval(ctx):
    p = ctx.prog
    f = p.func(f"{RULE}.eval")
    g = f.cfg
    ctx.require(len(f.params) >= 4, "C13.R3: MatchingRule.eval lost its (job, deployment, service) parameters")
    jobp, depp, svcp = f.params[1], f.params[2], f.params[3]
    truthy = _truthy_returns(g)
    ctx.require(bool(truthy), "C13.R3: MatchingRule.eval has no return that may be true")
    tids = {n.id for n in truthy}
    seen_atoms: set[str] = set()

    def make_atom(D: bool, SN: bool, SE: bool):
        def atom(e):
            cp = compare_pair(e)
            if cp is not None:
                left, op, right = cp
                names = {dotted(left), dotted(right)}
                if names == {depp, "self.deployment"} and isinstance(op, (ast.Eq, ast.NotEq)):
                    seen_atoms.add("D")
                    return D if isinstance(op, ast.Eq) else not D
                if names == {svcp, "self.service"} and isinstance(op, (ast.Eq, ast.NotEq)):
                    seen_atoms.add("SE")
                    return SE if isinstance(op, ast.Eq) else not SE
                if "self.service" in names and (is_none(left) or is_none(right)) and isinstance(op, (ast.Is, ast.IsNot, ast.Eq, ast.NotEq)):
                    seen_atoms.add("SN")
                    return SN if isinstance(op, (ast.Is, ast.Eq)) else not SN
                return None
            if dotted(e) == "self.service":
                seen_atoms.add("SN")
                return not SN
            return None

        return atom

    bad_rows = []
    for D in (True, False):
        for SN in (True, False):
            for SE in (True, False):
                got = bool(guarded_reach(g, make_atom(D, SN, SE)) & tids)
                want = D and (SN or SE)
                if got != want:
                    bad_rows.append(f"deployment {'=' if D else '!='}, rule.service {'is None' if SN else 'set'}, service {'=' if SE else '!='}: "
                                    f"true return {'reachable' if got else 'unreachable'}, expected {'reachable' if want else 'unreachable'}")
    ctx.ob("R3", "eval may return true iff deployment matched and (rule has no service or service matched)", not bad_rows, func=f, node=f.node,
           instance="eval:guards", message="MatchingRule.eval: deployment/service guards do not implement the matching rule: " + "; ".join(bad_rows[:3]),
           witness=bad_rows)
    ctx.require("D" in seen_atoms or bool(bad_rows), "C13.R3: deployment comparison not recognised in eval")

    # --- predicate loop
    loops = [n for n in f.body_nodes() if isinstance(n, ast.For) and any(dotted(o) == "self.predicates" or (
        isinstance(o, ast.Call) and isinstance(o.func, ast.Attribute) and dotted(o.func.value) == "self.predicates") for o in origins(f, n.iter))]
    ctx.require(len(loops) == 1, "C13.R3: predicate loop over self.predicates not found in eval (shape not interpretable)")
    lp = loops[0]
    it = g.ids_of(lp)[0]
    ctx.require(isinstance(lp.iter, ast.Call) and isinstance(lp.iter.func, ast.Attribute) and lp.iter.func.attr == "items"
                and isinstance(lp.target, ast.Tuple) and len(lp.target.elts) == 2 and all(isinstance(x, ast.Name) for x in lp.target.elts),
                "C13.R3: predicate loop is not `for port, match in self.predicates.items()`")
    keyv, valv = lp.target.elts[0].id, lp.target.elts[1].id
    body_entry = edge_succ(g, it, "t")
    in_body = g.reach(body_entry, avoid=[it], include_src=True)
    for r in truthy:
        ok = g.dominates(it, r.id) and r.id not in in_body
        ctx.ob("R3", "a true result is returned only after the predicate loop is exhausted", ok, func=f, node=r.ast, instance="eval:after-loop",
               message="MatchingRule.eval returns a true value before every predicate was compared")
    # predicate comparison
    mtests = []
    for n in g.nodes.values():
        if n.kind != "test" or n.id not in in_body:
            continue
        for x in [n.ast, *walk_no_nested(n.ast)]:
            cp = compare_pair(x)
            if cp is None or not isinstance(cp[1], (ast.Eq, ast.NotEq)):
                continue
            sides = [cp[0], cp[2]]
            if any(isinstance(s, ast.Name) and s.id == valv for s in sides):
                other = sides[1] if isinstance(sides[0], ast.Name) and sides[0].id == valv else sides[0]
                mtests.append((n, x, other))
    ctx.ob("R3", "every predicate's match string is compared with the job input", bool(mtests), func=f, node=lp, instance="eval:compare",
           message="MatchingRule.eval no longer compares the predicate's match string with the job's input value")
    top = _Frame(f, it, set(in_body))
    for n, cmp_, other in mtests:
        def atom(e, _c=cmp_):
            if e is _c:
                return isinstance(_c.ops[0], ast.NotEq)  # value of the comparison when the strings differ
            return None
        v = fold3(n.ast, atom)
        ctx.require(v is not None, f"C13.R3: cannot fold predicate guard `{_norm(n.ast)}`")
        mism = edge_succ(g, n.id, "t" if v else "f")
        reach = g.reach(mism, include_src=True)
        ok = not (reach & (tids | {it}))
        ctx.ob("R3", "a predicate mismatch makes eval return false", ok, func=f, node=n.ast, instance="eval:mismatch",
               message="MatchingRule.eval: after a predicate mismatch a true return (or the next predicate) is still reachable")
        # operand: str(job.inputs[port].value) on every alternative, through temporaries / small helpers
        ok_op = _is_input_value_str(p, top, other, cmp_, jobp, keyv, lp)
        ctx.ob("R3", "the match string is compared with str(job.inputs[port].value)", ok_op, func=f, node=cmp_, instance="eval:operand",
               message=f"MatchingRule.eval compares the match string with `{_norm(other)}` instead of str(job.inputs[{keyv}].value)")
    if mtests:
        mids = [n.id for n, _, _ in mtests]
        skip = None
        for s in body_entry:
            if s in mids:
                continue
            skip = g.path(s, {it} | tids, avoid=mids)
            if skip:
                break
        ctx.ob("R3", "every iteration of the predicate loop reaches the comparison", skip is None, func=f, node=lp, instance="eval:every-predicate",
               message="MatchingRule.eval: an iteration of the predicate loop can skip the comparison", witness=g.describe(skip) if skip else [])


def _r3_filter(ctx):
    p = ctx.prog
    f = p.func(f"{MBF}.get_targets")
    g = f.cfg
    ctx.require(len(f.params) >= 3, "C13.R3: MatchingBindingFilter.get_targets lost its parameters")
    jobp, tparam = f.params[1], f.params[2]
    evals = [c for c in f.calls() if isinstance(c.func, ast.Attribute) and c.func.attr == "eval" and isinstance(c.func.value, ast.Name)]
    ctx.require(bool(evals), "C13.R3: MatchingBindingFilter.get_targets no longer evaluates its rules")
    for c in evals:
        rv = c.func.value.id
        # binding of the rule variable: comprehension generator or for loop over self.matching_rules
        comp = None
        n = c
        while n is not None and n is not f.node:
            if isinstance(n, (ast.GeneratorExp, ast.ListComp)) and any(
                isinstance(gg.target, ast.Name) and gg.target.id == rv for gg in n.generators
            ):
                comp = n
                break
            n = getattr(n, "_parent", None)
        loops = enclosing_loops(c if comp is None else comp, f.node)
        all_loops = list(loops)
        if comp is not None:
            rule_iter = next(gg.iter for gg in comp.generators if isinstance(gg.target, ast.Name) and gg.target.id == rv)
            ctx.require(len(comp.generators) == 1, "C13.R3: rule comprehension with several generators is not interpretable")
            par = comp._parent
            is_call = isinstance(par, ast.Call) and comp in par.args
            agg = builtin(p, f, par) if is_call else None
            ok_any = agg == "any" and not comp.generators[0].ifs
            ctx.ob("R3", "a target is kept iff ANY rule evaluates true", ok_any, func=f, node=par if is_call else comp, instance="filter:any",
                   message=f"MatchingBindingFilter.get_targets aggregates the rule results with `{agg or _norm(par)[:30]}` instead of any()")
            ctx.require(is_call, "C13.R3: the rule comprehension is not the argument of an aggregate call")
            atom_node = par
        else:
            rl = [lp for lp in loops if isinstance(lp.target, ast.Name) and lp.target.id == rv]
            ctx.require(len(rl) == 1, "C13.R3: binding of the rule variable not found")
            rule_iter = rl[0].iter
            loops = [lp for lp in loops if lp is not rl[0]]
            atom_node = c
            ctx.ob("R3", "a target is kept iff ANY rule evaluates true", True, func=f, node=c, instance="filter:any")
        ctx.require(any(dotted(o) == "self.matching_rules" for o in origins(f, rule_iter)),
                    f"C13.R3: rules are taken from `{_norm(rule_iter)}`, not from self.matching_rules")
        # the target iteration: a for loop, or a filtering comprehension `[t for t in targets if <guard>]`
        fcomp = fcond = None
        n = atom_node
        while n is not None and n is not f.node:
            par2 = getattr(n, "_parent", None)
            if isinstance(par2, ast.comprehension) and any(n is x for x in par2.ifs):
                fcond, fcomp = n, par2._parent
                break
            n = par2
        if fcomp is not None:
            ctx.require(isinstance(fcomp, (ast.ListComp, ast.GeneratorExp)) and len(fcomp.generators) == 1 and isinstance(fcomp.generators[0].target, ast.Name),
                        "C13.R3: filtering comprehension shape not interpretable")
            tv = fcomp.generators[0].target.id
            t_iter = fcomp.generators[0].iter
        else:
            tl = [lp for lp in loops if isinstance(lp.target, ast.Name)]
            ctx.require(bool(tl), "C13.R3: iteration over the targets around the rule evaluation not found")
            tloop = tl[0]
            tv = tloop.target.id
            t_iter = tloop.iter
        ctx.require(_leads_to(f, t_iter, {tparam}) or any(tparam in {x.id for x in ast.walk(o) if isinstance(x, ast.Name)} for o in origins(f, t_iter)),
                    f"C13.R3: the rule evaluation iterates `{_norm(t_iter)}`, which does not derive from the `{tparam}` parameter (shape not interpretable)")
        # arguments: this target's deployment name and service
        args = bind_args(c, p.func(f"{RULE}.eval").node, skip_self=True)
        want = {"job": {jobp}, "deployment": {f"{tv}.deployment.name"}, "service": {f"{tv}.service"}}
        for k, w in want.items():
            a = args.get(k)
            got = {dotted(o) for o in origins(f, a)} if a is not None else set()
            ctx.ob("R3", f"rule.eval receives {k} of the examined target", bool(got) and got <= w, func=f, node=c, instance=f"filter:arg:{k}",
                   message=f"MatchingBindingFilter.get_targets passes {k}={_norm(a) if a is not None else '<missing>'} to rule.eval (expected {sorted(w)[0]})")
        keep_msg = "MatchingBindingFilter.get_targets: a target with a matching rule is not added to the result"
        drop_msg = "MatchingBindingFilter.get_targets: a target is added although no rule matched"
        coll = set()
        if fcomp is not None:
            others = [x for x in fcomp.generators[0].ifs if x is not fcond]
            v_t = fold3(fcond, lambda e: True if e is atom_node else None)
            v_f = fold3(fcond, lambda e: False if e is atom_node else None)
            elt_ok = isinstance(fcomp.elt, ast.Name) and fcomp.elt.id == tv
            ctx.ob("R3", "a matching target is added to the result", v_t is True and elt_ok and not others, func=f, node=fcond, instance="filter:keep", message=keep_msg)
            ctx.ob("R3", "a target without a matching rule is not added", v_f is False, func=f, node=fcond, instance="filter:drop", message=drop_msg)
            st = fcomp
            while not isinstance(st, ast.stmt):
                st = st._parent
            if isinstance(st, ast.Assign) and len(st.targets) == 1 and isinstance(st.targets[0], ast.Name):
                coll.add(st.targets[0].id)
        else:
            # guarded accumulation
            tn = g.node_containing(atom_node)
            ctx.require(len(tn) == 1 and g.nodes[tn[0]].kind == "test", "C13.R3: the rule evaluation is not the guard of a branch")
            t = tn[0]
            acc = [n.id for n in g.nodes.values() if any(
                isinstance(x.func, ast.Attribute) and x.func.attr in ("append", "add") and len(x.args) == 1
                and isinstance(x.args[0], ast.Name) and x.args[0].id == tv for x in n.calls())]
            accs = {x.func.value.id for a in acc for x in g.nodes[a].calls()
                    if isinstance(x.func, ast.Attribute) and x.func.attr in ("append", "add") and isinstance(x.func.value, ast.Name)}

            def guard_atom(e, val):
                # the rule evaluation, and the de-duplication test `<target> not in <accumulator>` (evaluated for a
                # target that was not kept yet: it does not change which targets are kept, only how often)
                if e is atom_node:
                    return val
                cp = compare_pair(e)
                if (cp is not None and isinstance(cp[1], (ast.In, ast.NotIn)) and isinstance(cp[0], ast.Name) and cp[0].id == tv
                        and isinstance(cp[2], ast.Name) and cp[2].id in accs):
                    return isinstance(cp[1], ast.NotIn)
                return None

            v = fold3(g.nodes[t].ast, lambda e: guard_atom(e, True))
            v_not = fold3(g.nodes[t].ast, lambda e: guard_atom(e, False))
            if v is None or v_not is None or v == v_not:
                # the guard mixes the rule evaluation with a condition this rule cannot evaluate (or does not depend on
                # the rule evaluation at all): whether a target is kept is no longer decided by "a rule matched" alone.
                # Reported as the violated obligation, not refused.
                gtxt = _norm(g.nodes[t].ast)
                const_adds = v is not None and v == v_not and bool(
                    set(acc) & g.reach(edge_succ(g, t, "t" if v else "f"), avoid=[t], include_src=True))
                if v is None or (v == v_not and not const_adds):
                    ctx.ob("R3", "a matching target is added to the result", False, func=f, node=g.nodes[t].ast, instance="filter:keep",
                           message=f"MatchingBindingFilter.get_targets: whether a target with a matching rule is kept depends on `{gtxt}`, not on the rule evaluation alone")
                if (v_not is None and v is not None) or const_adds:
                    ctx.ob("R3", "a target without a matching rule is not added", False, func=f, node=g.nodes[t].ast, instance="filter:drop",
                           message=f"MatchingBindingFilter.get_targets: a target without a matching rule can be kept, depending on `{gtxt}`")
                _emptiness(ctx, f, g, accs)
                continue
            ctx.ob("R3", "a matching target is added to the result", bool(acc) and bool(set(acc) & g.reach(edge_succ(g, t, "t" if v else "f"), avoid=[t], include_src=True)),
                   func=f, node=g.nodes[t].ast, instance="filter:keep", message=keep_msg)
            heads = [i for lp in all_loops for i in g.ids_of(lp)]
            leak = set(acc) & g.reach(edge_succ(g, t, "f" if v else "t"), avoid=[t] + heads, include_src=True)
            ctx.ob("R3", "a target without a matching rule is not added", not leak, func=f, node=g.nodes[t].ast, instance="filter:drop", message=drop_msg)
            for a in acc:
                for x in g.nodes[a].calls():
                    if isinstance(x.func, ast.Attribute) and x.func.attr in ("append", "add") and isinstance(x.func.value, ast.Name):
                        coll.add(x.func.value.id)
        _emptiness(ctx, f, g, coll)


def _stable_temp(f, g, e: ast.AST, nid: int, coll: set[str]) -> ast.AST | None:
    """The expression a local name read by test node `nid` stands for: its single reaching definition, a plain
    assignment that dominates the test, provided nothing between that assignment and the test mentions one of the
    collections `coll` (a length taken before the accumulation is not the length that is returned).  None otherwise."""
    if not isinstance(e, ast.Name) or e.id in coll or e.id in f.params:
        return None
    ds = reaching_defs(f, e.id, e)
    if len(ds) != 1:
        return None
    d = ds[0]
    if d.kind not in ("assign", "walrus") or d.index is not None or d.value is None:
        return None
    dids = _use_ids(g, d.stmt)
    if not dids or nid in dids or not g.dominates(dids, nid):
        return None
    after = g.reach(dids)
    for m in g.nodes.values():
        if m.id == nid or m.id in dids or m.id not in after or m.ast is None:
            continue
        if any(isinstance(x, ast.Name) and x.id in coll for x in ast.walk(m.ast)) and nid in g.reach([m.id]):
            return None
    return d.value


def _emptiness(ctx, f, g, coll: set[str]):
    def mk(nlen: int, nid: int):
        def is_len(x, depth=3):
            if isinstance(x, ast.NamedExpr):
                x = x.value
            if isinstance(x, ast.Call) and isinstance(x.func, ast.Name) and x.func.id == "len" and len(x.args) == 1 and isinstance(x.args[0], ast.Name) and x.args[0].id in coll:
                return True
            # `n = len(kept)` ... `if n == 0:` -- the operand is read through its reaching definition
            v = _stable_temp(f, g, x, nid, coll) if depth > 0 else None
            return v is not None and is_len(v, depth - 1)

        def atom(e, depth=3):
            cp = compare_pair(e)
            if cp is not None:
                left, op, right = cp
                if is_len(left) and isinstance(right, ast.Constant) and isinstance(right.value, int):
                    a, b = nlen, right.value
                elif is_len(right) and isinstance(left, ast.Constant) and isinstance(left.value, int):
                    a, b = left.value, nlen
                else:
                    return None
                table = {ast.Eq: a == b, ast.NotEq: a != b, ast.Lt: a < b, ast.LtE: a <= b, ast.Gt: a > b, ast.GtE: a >= b}
                return table.get(type(op))
            if is_len(e) or (isinstance(e, ast.Name) and e.id in coll):
                return nlen > 0
            # `empty = len(kept) == 0` / `empty = not kept` ... `if empty:` -- the whole test in a temporary
            v = _stable_temp(f, g, e, nid, coll) if depth > 0 else None
            if v is not None:
                return fold3(v, lambda x: atom(x, depth - 1))
            return None
        return atom

    found = None
    for n in g.nodes.values():
        if n.kind != "test":
            continue
        v0, v1, v2 = fold3(n.ast, mk(0, n.id)), fold3(n.ast, mk(1, n.id)), fold3(n.ast, mk(4, n.id))
        if v0 is not None and v1 is not None and v0 != v1 and v1 == v2:
            found = (n, v0)
            break
    rets = [n.id for n in g.nodes.values() if n.kind == "return" and n.ast.value is not None]
    ok = False
    if found:
        n, v0 = found
        ok = raises_only(g, edge_succ(g, n.id, "t" if v0 else "f")) and all(g.dominates(n.id, r) for r in rets)
    ctx.ob("R3", "an empty filter result raises", ok, func=f, node=found[0].ast if found else f.node, instance="filter:empty-raises",
           message="MatchingBindingFilter.get_targets can return an empty target list (no exception when nothing matches)")


def r3(ctx):
    _part(ctx, "R3", _r3_eval)
    _part(ctx, "R3", _r3_filter)


# =========================================================================== R4


def r4(ctx):
    p = ctx.prog
    f = p.func(f"{SCHED}._process_target")
    g = f.cfg
    wq = [n.id for n in g.nodes.values() if n.kind == "with_enter" and isinstance(n.ast, ast.AsyncWith)
          and any(dotted(i.context_expr) == "self.wait_queue" for i in n.ast.items)]
    ctx.require(bool(wq), "C13.R4: `async with self.wait_queue` not found in _process_target")
    early = [s for s in sorted(g.suspension_nodes()) if s not in wq and not g.dominates(wq, s)]
    ctx.ob("R4", "acquiring self.wait_queue is the first suspension point of _process_target", not early, func=f,
           node=g.nodes[early[0]].ast if early else f.node, instance="process_target:first-await",
           message=(f"_process_target can suspend at `{g.nodes[early[0]].text(70)}` before queueing on self.wait_queue: "
                    "tasks no longer reach the scheduler lock in target order") if early else "",
           witness=g.describe(g.path(g.entry, [early[0]], avoid=wq) or []) if early else [])
    allocs = [n.id for n in g.nodes.values() if any(call_is(p, f, c, f"{SCHED}._allocate_job") for c in n.calls())]
    ctx.require(bool(allocs), "C13.R4: _allocate_job call not found in _process_target")
    tests = []
    for n in g.nodes.values():
        if n.kind == "test":
            v = fold3(n.ast, lambda e: True if (dotted(e) or "").endswith(".scheduled") else None)
            if v is not None:
                tests.append((n.id, v))
    sets = [n.id for n in g.nodes.values() if n.kind == "stmt" and isinstance(n.ast, ast.Assign) and any((dotted(t) or "").endswith(".scheduled") for t in n.ast.targets)
            and isinstance(n.ast.value, ast.Constant) and n.ast.value.value is True]
    susp = g.suspension_nodes()
    for a in allocs:
        guarded = any(g.dominates(t, a) and a not in g.reach(edge_succ(g, t, "t" if v else "f"), avoid=[t], include_src=True) for t, v in tests)
        ctx.ob("R4", "_allocate_job is guarded by the `scheduled` test", guarded, func=f, node=g.nodes[a].ast, instance="process_target:scheduled-guard",
               message="_process_target allocates without testing job_context.scheduled: the job can be placed on several targets")
        esc = g.escape(a, sets) if sets else [a]
        between = (g.reach([a], avoid=sets) & susp) if sets else set()
        ctx.ob("R4", "`scheduled = True` follows the allocation before any suspension", esc is None and not between, func=f, node=g.nodes[a].ast,
               instance="process_target:scheduled-set", message="_process_target does not mark the job as scheduled right after allocating it: another target's task can allocate it again",
               witness=g.describe(esc) if esc else [])


# =========================================================================== R5


def r5(ctx):
    p = ctx.prog
    f = p.func(GBC)
    calls = [c for c in f.calls() if call_is(p, f, c, "streamflow.core.config.BindingConfig")]
    ctx.require(bool(calls), "C13.R5: get_binding_config no longer builds a BindingConfig")

    def src(key):
        def s(fn, e):
            if fn is not f:
                return False
            if isinstance(e, ast.Subscript) and isinstance(e.slice, ast.Constant) and e.slice.value == key and isinstance(e.value, ast.Name):
                return True
            return (isinstance(e, ast.Call) and isinstance(e.func, ast.Attribute) and e.func.attr == "get" and isinstance(e.func.value, ast.Name)
                    and e.args and isinstance(e.args[0], ast.Constant) and e.args[0].value == key)
        return s

    init = p.func("streamflow.core.config.BindingConfig.__init__").node
    n_decl = 0
    for c in calls:
        args = bind_args(c, init, skip_self=True)
        for key in ("targets", "filters"):
            a = args.get(key)
            if a is None:
                continue
            res = OrderClassifier(p, src(key), complete=True).classify(f, a)
            if res.kind == BAD:
                n_decl += 1
                for node, why in res.bads:
                    ctx.ob("R5", f"BindingConfig.{key} keeps the declared order", False, func=f, node=node, instance=f"binding:{key}:{_norm(node)}",
                           message=f"get_binding_config: BindingConfig.{key} is not the declared sequence: {why}")
            else:
                ctx.require(res.kind == ORD, f"C13.R5: cannot interpret how BindingConfig.{key} is built (`{_norm(a)}`): {res.unk[:2]}")
                literal = isinstance(a, (ast.List, ast.Tuple)) and not any(isinstance(x, ast.Starred) for x in a.elts)
                n_decl += 0 if literal else 1
                ctx.ob("R5", f"BindingConfig.{key} keeps the declared order", True, func=f, node=c, instance=f"binding:{key}", trivial=literal)
    ctx.require(n_decl >= 2, "C13.R5: BindingConfig is no longer built from config['targets'] / config.get('filters')")


# =========================================================================== R6

RULES_ATTR = "matching_rules"
CONFIG_PARAM = "filters"  # fixed by the JSON schema of the matching filter (`cls(name=..., **config)`)
_ADD_ONE = {"append", "insert", "appendleft", "add"}
_ADD_MANY = {"extend", "update"}
_KEYED = {"setdefault", "__setitem__"}
_REMOVE = {"pop", "remove", "clear", "discard", "popitem", "popleft", "__delitem__"}
_SEQ_BUILTINS = {"list", "tuple", "iter", "sorted", "reversed"}
_WHY_KEYED = "a later configuration entry with the same key replaces the rule of an earlier one (the OR among the rules of one target is lost)"


def _names(node: ast.AST) -> set[str]:
    return {n.id for n in ast.walk(node) if isinstance(n, ast.Name)}


def _stmt_of(node: ast.AST) -> ast.AST:
    while not isinstance(node, ast.stmt):
        node = node._parent
    return node


def _loop_of(node: ast.AST):
    """Innermost loop statement whose body/orelse contains `node` (what a `break` leaves)."""
    n = getattr(node, "_parent", None)
    while n is not None and not isinstance(n, (ast.For, ast.AsyncFor, ast.While, ast.FunctionDef, ast.AsyncFunctionDef, ast.Lambda)):
        n = getattr(n, "_parent", None)
    return n if isinstance(n, (ast.For, ast.AsyncFor, ast.While)) else None


class _RuleFlow:
    """Backward value flow from the rule list of the matching filter to the configuration it is built from.

    A *collection* expression must be an append-only sequence: list/tuple literals, comprehensions without
    conditions, `list()/tuple()/sorted()/x.copy()/x.values()` of a collection, `+`, helper returns (inlined), local
    names (all definitions and every in-place mutation of the name).  Keyed stores (`c[k] = r`, `setdefault`,
    dict comprehensions, `dict(...)`), element-dropping constructions (slices, `filter`, comprehension conditions) and
    removals are violations.  An *accumulation site* (`c.append(r)`, `c += [...]`, `yield r`, a call of a class method
    that appends unconditionally) under a loop over the complete configured sequence must be reached by every
    iteration of that loop (CFG: no path from the body entry to the next iteration / the loop exit / the function
    exit that avoids it).  An *element* must be a `MatchingRule(...)` construction (possibly through temporaries or a
    helper) whose deployment/predicates/service arguments derive from the entry of the current iteration."""

    def __init__(self, ctx, cls_q: str, adders: dict):
        self.ctx = ctx
        self.p = ctx.prog
        self.cls_q = cls_q
        self.adders = adders  # qualname -> (Func, [append calls]) : methods of the class adding one rule to self.<attr>
        self.bads: list[tuple[object, ast.AST, str, list]] = []
        self.unk: list[str] = []
        self.covers: list[tuple[object, ast.AST]] = []
        self.elems: list[tuple[object, ast.Call, set | None]] = []
        self._seen: set = set()
        rule_cls = self.p.classes.get(RULE)
        self.identity = rule_cls is not None and not ({"__eq__", "__hash__"} & set(rule_cls.methods)) and not rule_cls.node.decorator_list

    # -- bookkeeping
    def bad(self, f, node, why, witness=()):
        if not any(n is node for _, n, _, _ in self.bads):
            self.bads.append((f, node, why, list(witness)))

    def unknown(self, why):
        self.unk.append(why)

    def _is_attr(self, f, e) -> bool:
        return (isinstance(e, ast.Attribute) and e.attr == RULES_ATTR and isinstance(e.value, ast.Name)
                and bool(f.params) and e.value.id == f.params[0] and f.cls is not None)

    # -- the configured sequence
    def src(self, f, e, srcs: set[str], depth: int = 6, seen: frozenset = frozenset()):
        """True: `e` is the complete configured sequence; False: something else; None: the configured sequence with
        elements possibly dropped (a violation was recorded)."""
        e = strip_await(e)
        if depth <= 0:
            return False
        if isinstance(e, ast.NamedExpr):
            return self.src(f, e.value, srcs, depth, seen)
        if isinstance(e, ast.Name):
            if e.id in seen:
                return True if e.id in srcs else False
            ds = defs_of(f, e.id)
            if not ds:
                return False
            res = []
            for d in ds:
                if d.kind == "param":
                    res.append(True if e.id in srcs else False)
                elif d.kind in ("assign", "walrus") and d.index is None:
                    res.append(self.src(f, d.value, srcs, depth - 1, seen | {e.id}))
                else:
                    res.append(False)
            if any(r is None for r in res):
                return None
            if not all(r is True for r in res):
                return False
            for n in walk_no_nested(f.node):
                if (isinstance(n, ast.Call) and isinstance(n.func, ast.Attribute) and n.func.attr in _REMOVE
                        and isinstance(n.func.value, ast.Name) and n.func.value.id == e.id):
                    self.bad(f, n, f"`{_norm(n)}` removes entries from the configured `{CONFIG_PARAM}` before the rules are built")
                    return None
                if isinstance(n, ast.Delete) and any(isinstance(t, ast.Subscript) and isinstance(t.value, ast.Name) and t.value.id == e.id for t in n.targets):
                    self.bad(f, n, f"`{_norm(n)}` removes entries from the configured `{CONFIG_PARAM}` before the rules are built")
                    return None
            return True
        if isinstance(e, ast.Subscript) and isinstance(e.slice, ast.Slice):
            r = self.src(f, e.value, srcs, depth - 1, seen)
            if r is True:
                self.bad(f, e, f"slice `{_norm(e)}` drops entries of the configured `{CONFIG_PARAM}`")
                return None
            return r
        if isinstance(e, (ast.ListComp, ast.GeneratorExp)) and len(e.generators) == 1:
            g0 = e.generators[0]
            if isinstance(e.elt, ast.Name) and isinstance(g0.target, ast.Name) and e.elt.id == g0.target.id:
                r = self.src(f, g0.iter, srcs, depth - 1, seen)
                if r is True and g0.ifs:
                    self.bad(f, e, f"`{_norm(e)}` drops entries of the configured `{CONFIG_PARAM}`")
                    return None
                return r
            return False
        if isinstance(e, ast.Call):
            b = builtin(self.p, f, e)
            if b in _SEQ_BUILTINS | {"enumerate"} and e.args:
                return self.src(f, e.args[0], srcs, depth - 1, seen)
            if b == "filter" and len(e.args) == 2:
                r = self.src(f, e.args[1], srcs, depth - 1, seen)
                if r is True:
                    self.bad(f, e, f"`{_norm(e)}` drops entries of the configured `{CONFIG_PARAM}`")
                    return None
                return r
            if isinstance(e.func, ast.Attribute) and e.func.attr == "copy" and not e.args:
                return self.src(f, e.func.value, srcs, depth - 1, seen)
            if (dotted(e.func) or "") in ("copy.copy", "copy.deepcopy") and e.args:
                return self.src(f, e.args[0], srcs, depth - 1, seen)
        return False

    # -- collections
    def coll(self, f, e, srcs, depth: int = 3, loopvars: set | None = None):
        c = lambda x: self.coll(f, x, srcs, depth, loopvars)  # noqa: E731
        e = strip_await(e)
        if isinstance(e, ast.Constant) and e.value is None:
            return
        if isinstance(e, (ast.NamedExpr, ast.Starred)):
            return c(e.value)
        if isinstance(e, ast.Name):
            return self._receiver(f, e.id, lambda x: isinstance(x, ast.Name) and x.id == e.id, srcs, depth, name=e.id)
        if self._is_attr(f, e):
            return self._receiver(f, f"{f.params[0]}.{RULES_ATTR}", lambda x: self._is_attr(f, x), srcs, depth)
        if isinstance(e, (ast.List, ast.Tuple, ast.Set)):
            if isinstance(e, ast.Set) and not self.identity:
                self.bad(f, e, f"set `{_norm(e)}`: rules that compare equal collapse into one")
            for x in e.elts:
                if isinstance(x, ast.Starred):
                    c(x.value)
                else:
                    self.elem(f, x, srcs, loopvars, depth)
            return
        if isinstance(e, ast.Dict):
            if e.keys:
                self.bad(f, e, f"rules are collected in the keyed literal `{_norm(e)}`: {_WHY_KEYED}")
            return
        if isinstance(e, ast.DictComp):
            return self.bad(f, e, f"rules are collected by the dict comprehension `{_norm(e)}`: {_WHY_KEYED}")
        if isinstance(e, (ast.ListComp, ast.GeneratorExp, ast.SetComp)):
            if isinstance(e, ast.SetComp) and not self.identity:
                self.bad(f, e, f"set comprehension `{_norm(e)}`: rules that compare equal collapse into one")
            if any(g.ifs for g in e.generators):
                return self.bad(f, e, f"the condition of `{_norm(e)}` can drop a configured rule")
            if len(e.generators) != 1:
                return self.unknown(f"comprehension with several generators `{_norm(e)}`")
            g0 = e.generators[0]
            if isinstance(e.elt, ast.Name) and isinstance(g0.target, ast.Name) and e.elt.id == g0.target.id:
                return c(g0.iter)
            s = self.src(f, g0.iter, srcs)
            if s is True:
                self.covers.append((f, e))
                self.elem(f, e.elt, srcs, _names(g0.target), depth)
            elif s is False:
                self.unknown(f"comprehension `{_norm(e)}` does not iterate the configured `{CONFIG_PARAM}`")
            return
        if isinstance(e, ast.Subscript) and isinstance(e.slice, ast.Slice):
            self.bad(f, e, f"slice `{_norm(e)}` can drop a configured rule")
            return c(e.value)
        if isinstance(e, ast.BinOp) and isinstance(e.op, (ast.Add, ast.BitOr)):
            c(e.left)
            return c(e.right)
        if isinstance(e, ast.IfExp):
            c(e.body)
            return c(e.orelse)
        if isinstance(e, ast.BoolOp):
            for v in e.values:
                c(v)
            return
        if isinstance(e, ast.Call):
            return self._coll_call(f, e, srcs, depth, loopvars)
        self.unknown(f"expression `{_norm(e)}` in the construction of the rule list")

    def _coll_call(self, f, e: ast.Call, srcs, depth, loopvars):
        c = lambda x: self.coll(f, x, srcs, depth, loopvars)  # noqa: E731
        b = builtin(self.p, f, e)
        fn = e.func
        if b is not None:
            if b in _SEQ_BUILTINS:
                return c(e.args[0]) if e.args else None
            if b in ("set", "frozenset"):
                if not self.identity:
                    self.bad(f, e, f"`{_norm(e)}`: rules that compare equal collapse into one")
                return c(e.args[0]) if e.args else None
            if b == "dict":
                if e.args or e.keywords:
                    self.bad(f, e, f"rules are collected by `{_norm(e)}`: {_WHY_KEYED}")
                return
            if b == "filter":
                return self.bad(f, e, f"`{_norm(e)}` can drop a configured rule")
            return self.unknown(f"builtin call `{_norm(e)}` in the construction of the rule list")
        d = dotted(fn) or ""
        if d == "dict.fromkeys":
            return self.bad(f, e, f"rules are collected by `{_norm(e)}`: {_WHY_KEYED}")
        if d in ("copy.copy", "copy.deepcopy") and e.args:
            return c(e.args[0])
        if d == "itertools.chain":
            for a in e.args:
                c(a)
            return
        if isinstance(fn, ast.Attribute) and fn.attr in ("copy", "values") and not e.args:
            return c(fn.value)
        if depth > 0:
            for q in resolved(self.p, f, e, fanout=False):
                g = self.p.functions.get(q)
                if g is None:
                    continue
                bound = bind_args(e, g.node, skip_self=isinstance(fn, ast.Attribute) and g.cls is not None)
                srcs2 = {prm for prm, a in bound.items() if self.src(f, a, srcs) is True}
                rets = [n for n in g.body_nodes() if isinstance(n, ast.Return) and n.value is not None]
                yields = [n for n in g.body_nodes() if isinstance(n, ast.Yield) and n.value is not None]
                if not rets and not yields:
                    return self.unknown(f"helper `{q}` returns nothing")
                for r in rets:
                    self.coll(g, r.value, srcs2, depth - 1)
                for y in yields:
                    self.site(g, y, srcs2, depth - 1, elem=y.value)
                return
        self.unknown(f"call `{_norm(e)}` in the construction of the rule list")

    def _receiver(self, f, label: str, is_recv, srcs, depth, name: str | None = None):
        """All definitions and in-place mutations of a local name / of self.<attr> inside `f`."""
        key = (f.qualname, label)
        if key in self._seen:
            return
        self._seen.add(key)
        if name is not None:
            ds = defs_of(f, name)
            if not ds:
                return self.unknown(f"name `{name}` has no definition in {f.name}")
            for d in ds:
                if d.kind in ("assign", "walrus") and d.index is None:
                    self.coll(f, d.value, srcs, depth)
                elif d.kind == "aug":
                    self.site(f, d.stmt, srcs, depth, many=d.value)
                else:
                    self.unknown(f"`{name}` is bound by a {d.kind} construct in {f.name}")
        for n in walk_no_nested(f.node):
            if isinstance(n, ast.Call) and isinstance(n.func, ast.Attribute) and is_recv(n.func.value):
                m = n.func.attr
                if m in _ADD_ONE and n.args:
                    if m == "add" and not self.identity:
                        self.bad(f, n, f"`{_norm(n)}` adds to a set: rules that compare equal collapse into one")
                    self.site(f, n, srcs, depth, elem=n.args[-1])
                elif m in _ADD_MANY and n.args:
                    self.site(f, n, srcs, depth, many=n.args[0])
                elif m in _KEYED:
                    self.bad(f, n, f"rules are collected by the keyed store `{_norm(n)}`: {_WHY_KEYED}")
                elif m in _REMOVE and name is not None:  # removals from self.<attr> are reported once, by the class-wide scan of r6
                    self.bad(f, n, f"`{_norm(n)}` removes a rule from the collection")
            elif isinstance(n, (ast.Assign, ast.AnnAssign, ast.AugAssign)):
                tg = n.targets if isinstance(n, ast.Assign) else [n.target]
                for t in tg:
                    for x in ([t] if not isinstance(t, (ast.Tuple, ast.List)) else t.elts):
                        if isinstance(x, ast.Subscript) and is_recv(x.value):
                            self.bad(f, n, f"rules are collected by the keyed store `{_norm(n)}`: {_WHY_KEYED}")
                        elif name is None and isinstance(n, ast.AugAssign) and is_recv(x):
                            self.site(f, n, srcs, depth, many=n.value)
            elif isinstance(n, ast.Delete) and name is not None:
                if any(isinstance(t, ast.Subscript) and is_recv(t.value) for t in n.targets):
                    self.bad(f, n, f"`{_norm(n)}` removes a rule from the collection")

    # -- accumulation sites
    def site(self, f, node, srcs, depth, elem=None, many=None):
        loops = enclosing_loops(node, f.node)
        carrier = None
        for lp in loops:
            s = self.src(f, lp.iter, srcs)
            if s is None:
                return
            if s is True:
                carrier = lp
                break
        moved = False
        if carrier is None and loops and isinstance(elem, ast.Name) and elem.id in _names(loops[-1].target):
            # `for r in <collection>: acc.append(r)`: the rules move from one collection to another
            carrier, moved = loops[-1], True
            self.coll(f, carrier.iter, srcs, depth)
        if carrier is None:
            if loops:
                return self.unknown(f"`{_norm(node)}` accumulates under a loop over `{_norm(loops[0].iter)}`, which is not the configured `{CONFIG_PARAM}`")
            if elem is not None:
                self.elem(f, elem, srcs, None, depth)
            if many is not None:
                self.coll(f, many, srcs, depth)
            return
        g = f.cfg
        it = g.ids_of(carrier)
        cn = (g.ids_of(node) if isinstance(node, ast.stmt) else []) or g.node_containing(node)
        if not it or not cn:
            return self.unknown(f"CFG nodes of `{_norm(node)}` / its loop not found")
        after = set(edge_succ(g, it[0], "f")) | {g.exit, it[0]}
        skip = None
        for s in edge_succ(g, it[0], "t"):
            if s in cn:
                continue
            skip = g.path(s, after, avoid=cn)
            if skip:
                break
        if skip:
            self.bad(f, carrier, f"an iteration over `{_norm(carrier.iter)}` can finish without reaching `{_norm(node)}`: a configured rule is dropped", g.describe(skip))
            return
        # the loop ends by exhaustion only: no break out of it, no return from inside it (raising is not dropping)
        for nid in sorted(g.reach(edge_succ(g, it[0], "t"), avoid=[it[0]], include_src=True)):
            n = g.nodes[nid]
            if n.kind == "return" or (n.kind == "break" and n.ast is not None and _loop_of(n.ast) is carrier):
                self.bad(f, n.ast if n.ast is not None else carrier,
                         f"the loop over `{_norm(carrier.iter)}` can be left at `{n.text(40)}` before every configured rule was added")
                return
        if not moved:
            self.covers.append((f, node))
        lv = _names(carrier.target)
        if elem is not None and not moved:
            self.elem(f, elem, srcs, lv, depth)
        if many is not None:
            self.coll(f, many, srcs, depth, loopvars=lv)

    # -- elements
    def elem(self, f, x, srcs, loopvars, depth, seen: frozenset = frozenset()):
        x = strip_await(x)
        if isinstance(x, ast.NamedExpr):
            return self.elem(f, x.value, srcs, loopvars, depth, seen)
        if isinstance(x, ast.IfExp):
            self.elem(f, x.body, srcs, loopvars, depth, seen)
            return self.elem(f, x.orelse, srcs, loopvars, depth, seen)
        if isinstance(x, ast.Name):
            if x.id in seen:
                return
            ds = defs_of(f, x.id)
            if ds and all(d.kind in ("assign", "walrus") and d.index is None for d in ds):
                for d in ds:
                    self.elem(f, d.value, srcs, loopvars, depth, seen | {x.id})
                return
            return self.unknown(f"element `{x.id}` of the rule list is not bound by plain assignments in {f.name}")
        if isinstance(x, ast.Call):
            if call_is(self.p, f, x, RULE):
                self.elems.append((f, x, loopvars))
                return
            if depth > 0:
                for q in resolved(self.p, f, x, fanout=False):
                    g = self.p.functions.get(q)
                    if g is None or any(isinstance(n, (ast.Yield, ast.YieldFrom)) for n in g.body_nodes()):
                        continue
                    rets = [n for n in g.body_nodes() if isinstance(n, ast.Return) and n.value is not None]
                    if not rets:
                        continue
                    bound = bind_args(x, g.node, skip_self=isinstance(x.func, ast.Attribute) and g.cls is not None)
                    lv2 = None if loopvars is None else {prm for prm, a in bound.items() if _depends(f, a, loopvars)}
                    for r in rets:
                        self.elem(g, r.value, set(), lv2, depth - 1)
                    return
        self.unknown(f"element `{_norm(x)}` of the rule list is not a MatchingRule construction")


def _depends(f, expr: ast.AST, targets: set[str]) -> bool:
    """Some name occurring in `expr` is, or is (transitively, flow-insensitively) computed from, one of `targets`:
    plain/augmented assignments, loop and comprehension bindings, subscript stores `n[k] = v` and method calls
    `n.m(args)` on a local all count as "n is computed from"."""
    dep: dict[str, set[str]] = {}
    for n in walk_no_nested(f.node):
        if isinstance(n, (ast.Assign, ast.AnnAssign, ast.AugAssign)) and n.value is not None:
            tg = n.targets if isinstance(n, ast.Assign) else [n.target]
            for t in tg:
                for nm in _names(t):
                    dep.setdefault(nm, set()).update(_names(n.value) | (_names(t) - {nm}))
        elif isinstance(n, (ast.For, ast.AsyncFor, ast.comprehension)):
            for nm in _names(n.target):
                dep.setdefault(nm, set()).update(_names(n.iter))
        elif isinstance(n, ast.NamedExpr):
            dep.setdefault(n.target.id, set()).update(_names(n.value))
        elif isinstance(n, ast.Call) and isinstance(n.func, ast.Attribute) and isinstance(n.func.value, ast.Name):
            dep.setdefault(n.func.value.id, set()).update(*[_names(a) for a in [*n.args, *[k.value for k in n.keywords]]], set())
    todo = list(_names(expr))
    seen = set(todo)
    while todo:
        nm = todo.pop()
        if nm in targets:
            return True
        for x in dep.get(nm, ()):
            if x not in seen:
                seen.add(x)
                todo.append(x)
    return False


def _self_attr_stores(f):
    """(stmt, value, augmented) for every `self.<RULES_ATTR> = / : T = / += ...` in `f`."""
    if not f.params:
        return []
    me = f.params[0]
    out = []
    for n in walk_no_nested(f.node):
        if isinstance(n, (ast.Assign, ast.AnnAssign, ast.AugAssign)) and n.value is not None:
            tg = n.targets if isinstance(n, ast.Assign) else [n.target]
            for t in tg:
                for x in ([t] if not isinstance(t, (ast.Tuple, ast.List)) else t.elts):
                    if isinstance(x, ast.Attribute) and x.attr == RULES_ATTR and isinstance(x.value, ast.Name) and x.value.id == me:
                        out.append((n, n.value, isinstance(n, ast.AugAssign)))
    return out


def _self_attr_calls(f):
    if not f.params:
        return []
    me = f.params[0]
    return [n for n in walk_no_nested(f.node) if isinstance(n, ast.Call) and isinstance(n.func, ast.Attribute)
            and isinstance(n.func.value, ast.Attribute) and n.func.value.attr == RULES_ATTR
            and isinstance(n.func.value.value, ast.Name) and n.func.value.value.id == me]


def r6(ctx):
    p = ctx.prog
    p.cls(MBF)
    p.cls(RULE)
    n_builders = 0
    for cq in [MBF, *p.subclasses(MBF)]:
        cls = p.cls(cq)
        short = cls.qualname.rpartition(".")[2]
        methods = list(cls.methods.values())
        builders = [m for m in methods if any(not aug for _, _, aug in _self_attr_stores(m))]
        if cq == MBF:
            ctx.require(bool(builders), f"C13.R6: no method of {short} assigns self.{RULES_ATTR}")
        # ---- nothing removes from / overwrites inside the rule list after it was built
        removed = False
        for m in methods:
            for c in _self_attr_calls(m):
                if c.func.attr in _REMOVE:
                    removed = True
                    ctx.ob("R6", "no method removes a rule from the rule list", False, func=m, node=c, instance=f"rules:remove:{_norm(c)}",
                           message=f"{short}.{m.name}: `{_norm(c)}` removes a declared rule from self.{RULES_ATTR}")
            for n in walk_no_nested(m.node):
                if isinstance(n, ast.Delete) and any(_norm(t).startswith(f"{m.params[0]}.{RULES_ATTR}") for t in n.targets if m.params):
                    removed = True
                    ctx.ob("R6", "no method removes a rule from the rule list", False, func=m, node=n, instance=f"rules:remove:{_norm(n)}",
                           message=f"{short}.{m.name}: `{_norm(n)}` removes declared rules from self.{RULES_ATTR}")
        if methods and not removed:
            ctx.ob("R6", "no method removes a rule from the rule list", True, func=methods[0], node=cls.node, instance=f"rules:remove:{short}")
        if not builders:
            continue
        # methods that add one rule to the list on every call (helper extraction of the loop body)
        adders = {}
        for m in methods:
            if m in builders:
                continue
            adds = [c for c in _self_attr_calls(m) if c.func.attr in _ADD_ONE and c.args]
            if adds:
                adders[m.qualname] = (m, adds)
        for b in builders:
            n_builders += 1
            srcs: set[str] = set()
            if b.name == "__init__":
                ctx.require(CONFIG_PARAM in b.params, f"C13.R6: {short}.__init__ lost its `{CONFIG_PARAM}` parameter")
                srcs = {CONFIG_PARAM}
            else:
                probe = _RuleFlow(ctx, cq, {})
                for caller, call in p.callers(b.qualname):
                    if caller.name == "__init__" and caller.cls is not None and p.is_subclass(cq, caller.cls.qualname) and CONFIG_PARAM in caller.params:
                        bound = bind_args(call, b.node, skip_self=True)
                        srcs |= {prm for prm, a in bound.items() if probe.src(caller, a, {CONFIG_PARAM}) is True}
            fl = _RuleFlow(ctx, cq, adders)
            for stmt, value, aug in _self_attr_stores(b):
                if not aug:
                    fl.coll(b, value, srcs)
            fl.coll(b, ast.Attribute(value=ast.Name(id=b.params[0], ctx=ast.Load()), attr=RULES_ATTR, ctx=ast.Load()), srcs)
            # calls of adder methods are accumulation sites of the builder
            for c in b.calls():
                for q in resolved(p, b, c, fanout=False):
                    if q in adders:
                        m, adds = adders[q]
                        g = m.cfg
                        must = any(g.escape(g.entry, g.node_containing(a)) is None for a in adds)
                        if not must:
                            fl.bad(m, adds[0], f"`{_norm(adds[0])}` is not reached by every call of {m.name}: a configured rule can be dropped")
                        bound = bind_args(c, m.node, skip_self=True)
                        lps = enclosing_loops(c, b.node)
                        lv = _names(lps[-1].target) if lps else set()
                        lv2 = {prm for prm, a in bound.items() if _depends(b, a, lv)}
                        n0 = len(fl.covers)
                        fl.site(b, c, srcs, 3)
                        if len(fl.covers) > n0:
                            for a in adds:
                                fl.elem(m, a.args[-1], set(), lv2, 2)
            what = f"every entry of the configured `{CONFIG_PARAM}` yields a rule in self.{RULES_ATTR}"
            for fn, node, why, wit in fl.bads:
                ctx.ob("R6", what, False, func=fn, node=node, instance=f"rules:{_norm(node)}",
                       message=f"{short}.{fn.name}: {why}", witness=[f"construct: {_norm(_stmt_of(node))}", *wit])
            if fl.bads:
                continue
            ctx.require(not fl.unk, f"C13.R6: cannot interpret how {short}.{b.name} builds self.{RULES_ATTR}: {fl.unk[:2]}")
            ctx.ob("R6", what, bool(fl.covers), func=b, node=b.node, instance=f"rules:complete:{b.name}",
                   message=f"{short}.{b.name}: self.{RULES_ATTR} is not built by a complete iteration over the configured `{CONFIG_PARAM}` "
                           "(no append/comprehension site under a loop over the whole sequence): declared rules do not reach the rule list")
            for fn, node in fl.covers:
                ctx.ob("R6", "every iteration over the configured filters adds its rule (append-only, no keyed store)", True, func=fn, node=node)
            init = p.func(f"{RULE}.__init__").node
            for fn, call, lv in fl.elems:
                if lv is None:
                    continue
                args = bind_args(call, init, skip_self=True)
                for k in ("deployment", "predicates", "service"):
                    a = args.get(k)
                    if a is None:
                        ctx.ob("R6", f"the rule's {k} comes from its own configuration entry", k == "service", func=fn, node=call, instance=f"rules:arg:{k}",
                               message=f"{short}.{fn.name}: MatchingRule is built without `{k}`")
                        continue
                    ctx.ob("R6", f"the rule's {k} comes from its own configuration entry", _depends(fn, a, lv), func=fn, node=call, instance=f"rules:arg:{k}",
                           message=f"{short}.{fn.name}: MatchingRule({k}={_norm(a)}) does not derive from the entry of the current iteration ({sorted(lv)})")
    ctx.require(n_builders > 0, f"C13.R6: no builder of self.{RULES_ATTR} analysed")


_RULE_FNS = [("R1", r1), ("R2", r2), ("R3", r3), ("R4", r4), ("R5", r5), ("R6", r6)]
RULES = [(rid, _rule(rid, fn, last=i == len(_RULE_FNS) - 1)) for i, (rid, fn) in enumerate(_RULE_FNS)]
FLOORS = {"R1": 2, "R2": 8, "R3": 13, "R4": 3, "R5": 3, "R6": 6}

_TASKS = "for target in targets]"
_EVAL = "matching_rule.eval(job=job, deployment=target.deployment.name, service=target.service)"
_ANY = f"any(({_EVAL} for matching_rule in self.matching_rules))"
_KEEP_LOOP = f"    for target in targets:\n        if {_ANY}:\n            filtered_targets.append(target)"
_APPLY = "        targets = await f.get_targets(job, targets)"
_IMPORT_RANDOM = "import random"
_EMPTY = "if len(filtered_targets) == 0:"
_CMP = "        if match != str(job.inputs[input_name].value):"
_HELPER = "def _input_text(job, port):\n    token = job.inputs[port]\n    return str(token.value)\n"
_INIT = f"{MBF}.__init__"
_DECL = "self.matching_rules: MutableSequence[MatchingRule] = []"
_MK = "MatchingRule(deployment=deployment, filter_=self.name, predicates={job['port']: job['match'] for job in deployments['job']}, service=service)"
_ADD = f"self.matching_rules.append({_MK})"
_ENTRY = "target = deployments['target']"
_CFG_LOOP = "for deployments in filters:"
_LOOP_HEAD = (
    f"    {_CFG_LOOP}\n        {_ENTRY}\n        deployment = target if isinstance(target, str) else target['deployment']\n"
    "        service = target['service'] if isinstance(target, MutableMapping) and 'service' in target else None\n"
)
_BUILD = f"    {_DECL}\n{_LOOP_HEAD}        {_ADD}"
_SUB_HEAD = "class {0}(MatchingBindingFilter):\n    def __init__(self, name, filters):\n        BindingFilter.__init__(self, name)\n        self._evaluated_steps = set()\n"
_SUB_MK = "MatchingRule(deployment=entry['target'], filter_=self.name, predicates={j['port']: j['match'] for j in entry['job']})"

VARIANTS = [
    # ---- R1
    V("new sibling filter returns list(set(targets))", SHFILE, None, None, None, "R1", control=True,
      append="class DedupBindingFilter(BindingFilter):\n    async def get_targets(self, job, targets):\n        return list(set(targets))\n"),
    V("matching filter iterates sorted(targets, key=id)", MFILE, f"{MBF}.get_targets", "for target in targets:", "for target in sorted(targets, key=id):", "R1"),
    V("matching filter iterates reversed(targets)", MFILE, f"{MBF}.get_targets", "for target in targets:", "for target in reversed(targets):", "R1"),
    V("matching filter shuffles its input", MFILE, f"{MBF}.get_targets", "filtered_targets = []", "filtered_targets = []\n    random.shuffle(targets)", "R1", append=_IMPORT_RANDOM),
    V("new sibling filter is rule-major", MFILE, None, None, None, "R1",
      append="class RuleMajorFilter(MatchingBindingFilter):\n    async def get_targets(self, job, targets):\n        out = []\n        for r in self.matching_rules:\n            for t in targets:\n                if r.eval(job, t.deployment.name, t.service):\n                    out.append(t)\n        return out\n"),
    V("matching filter collects into a set again", MFILE, f"{MBF}.get_targets", "filtered_targets = []\n", "filtered_targets = set()\n", "R1"),
    V("matching filter rewritten rule-major with de-duplication (seeded change 2)", MFILE, f"{MBF}.get_targets", _KEEP_LOOP,
      f"    for matching_rule in self.matching_rules:\n        for target in targets:\n            if target not in filtered_targets and {_EVAL}:\n"
      "                filtered_targets.append(target)", "R1"),
    V("rule-major rewrite with the evaluation in a temporary (R3 cannot interpret it: must still be reported)", MFILE, f"{MBF}.get_targets", _KEEP_LOOP,
      f"    for matching_rule in self.matching_rules:\n        for target in targets:\n            hit = {_EVAL}\n"
      "            if hit and target not in filtered_targets:\n                filtered_targets.append(target)", "R1"),
    # ---- R2
    V("tasks created over reversed(targets)", SFILE, f"{SCHED}.schedule", _TASKS, "for target in reversed(targets)]", "R2", control=True),
    V("tasks created over a set", SFILE, f"{SCHED}.schedule", _TASKS, "for target in set(targets)]", "R2"),
    V("tasks created over the unfiltered list", SFILE, f"{SCHED}.schedule", _TASKS, "for target in binding_config.targets]", "R2"),
    V("filter result dropped", SFILE, f"{SCHED}.schedule", "targets = await f.get_targets(job, targets)", "await f.get_targets(job, targets)", "R2"),
    V("filters not chained", SFILE, f"{SCHED}.schedule", "targets = await f.get_targets(job, targets)", "targets = await f.get_targets(job, list(binding_config.targets))", "R2"),
    V("filters applied in reverse order", SFILE, f"{SCHED}.schedule", "for f in binding_config.filters)", "for f in reversed(binding_config.filters))", "R2"),
    V("only the first filter applied", SFILE, f"{SCHED}.schedule", "for f in binding_config.filters)", "for f in binding_config.filters[:1])", "R2"),
    V("every task gets the first target", SFILE, f"{SCHED}.schedule", "target=target,", "target=targets[0],", "R2"),
    V("initial list is sorted", SFILE, f"{SCHED}.schedule", "targets = list(binding_config.targets)", "targets = sorted(binding_config.targets, key=str)", "R2"),
    V("filter chain left early when one target remains (seeded change 3)", SFILE, f"{SCHED}.schedule", _APPLY,
      "        if len(targets) < 2:\n            break\n" + _APPLY, "R2"),
    V("filter skipped when one target remains", SFILE, f"{SCHED}.schedule", _APPLY,
      "        if len(targets) < 2:\n            continue\n" + _APPLY, "R2"),
    V("filter applied only while several targets remain", SFILE, f"{SCHED}.schedule", _APPLY,
      "        if len(targets) > 1:\n    " + _APPLY, "R2"),
    # ---- R3
    V("any -> all over rules", MFILE, f"{MBF}.get_targets", "if any((matching_rule.eval(", "if all((matching_rule.eval(", "R3", control=True),
    V("predicate loop returns True early", MFILE, f"{RULE}.eval", "            return False\n    return True", "            return False\n        return True\n    return True", "R3"),
    V("deployment test inverted", MFILE, f"{RULE}.eval", "if deployment != self.deployment:", "if deployment == self.deployment:", "R3"),
    V("rules without service never match", MFILE, f"{RULE}.eval", "if self.service is not None and self.service != service:", "if self.service != service:", "R3"),
    V("service test uses or", MFILE, f"{RULE}.eval", "self.service is not None and self.service != service", "self.service is not None or self.service != service", "R3"),
    V("predicate comparison inverted", MFILE, f"{RULE}.eval", "if match != str(job.inputs[input_name].value):", "if match == str(job.inputs[input_name].value):", "R3"),
    V("mismatch only logged", MFILE, f"{RULE}.eval", "            return False\n    return True", "            pass\n    return True", "R3"),
    V("value not cast to str", MFILE, f"{RULE}.eval", "if match != str(job.inputs[input_name].value):", "if match != job.inputs[input_name].value:", "R3"),
    V("token read from another port than the predicate's", MFILE, f"{RULE}.eval", _CMP,
      "        token = job.inputs[next(iter(job.inputs))]\n        if match != str(token.value):", "R3"),
    V("token refreshed only conditionally: the previous predicate's token can be compared", MFILE, f"{RULE}.eval", _CMP,
      "        if input_name in job.inputs:\n            token = job.inputs[input_name]\n        if match != str(token.value):", "R3"),
    V("helper extracted, called with the match string instead of the port", MFILE, f"{RULE}.eval", _CMP,
      "        if match != _input_text(job, match):", "R3", append=_HELPER),
    V("temporary holds the token, comparison uses the token itself instead of its value", MFILE, f"{RULE}.eval", _CMP,
      "        token = job.inputs[input_name]\n        if match != str(token):", "R3"),
    V("service not passed to eval", MFILE, f"{MBF}.get_targets", "service=target.service", "service=None", "R3"),
    V("empty result tolerated", MFILE, f"{MBF}.get_targets", "if len(filtered_targets) == 0:", "if len(filtered_targets) < 0:", "R3"),
    V("empty result tolerated, length in a temporary", MFILE, f"{MBF}.get_targets", _EMPTY, "n = len(filtered_targets)\n    if n < 0:", "R3"),
    V("temporary holds the length of the input list, not of the kept targets", MFILE, f"{MBF}.get_targets", _EMPTY, "n = len(targets)\n    if n == 0:", "R3"),
    V("length taken before the accumulation (stale temporary)", MFILE, f"{MBF}.get_targets", _KEEP_LOOP + "\n    " + _EMPTY,
      "    n = len(filtered_targets)\n" + _KEEP_LOOP + "\n    if n == 0:", "R3"),
    V("non-matching targets kept too", MFILE, f"{MBF}.get_targets", "            filtered_targets.append(target)", "            pass\n        filtered_targets.append(target)", "R3"),
    V("keeping a target also depends on another condition", MFILE, f"{MBF}.get_targets", f"if {_ANY}:", f"if target.service is not None and {_ANY}:", "R3"),
    V("targets without service kept without a matching rule", MFILE, f"{MBF}.get_targets", f"if {_ANY}:", f"if {_ANY} or target.service is None:", "R3"),
    # ---- R4
    V("await before queueing on the scheduler lock", SFILE, f"{SCHED}._process_target", "deployment = target.deployment.name",
      "deployment = target.deployment.name\n    await asyncio.sleep(0)", "R4", control=True),
    V("scheduled flag not set", SFILE, f"{SCHED}._process_target", "job_context.scheduled = True", "pass", "R4"),
    V("scheduled test removed", SFILE, f"{SCHED}._process_target", "if job_context.scheduled:", "if False:", "R4"),
    # ---- R5
    V("binding targets reversed", UFILE, GBC, "for target in config['targets']:", "for target in reversed(config['targets']):", "R5"),
    V("binding filters sorted", UFILE, GBC, "for c in config.get('filters')]", "for c in sorted(config.get('filters'), key=str)]", "R5"),
    # ---- R6
    V("rules indexed by (deployment, service): a later rule of a target overwrites the earlier ones (seeded change 1)", MFILE, _INIT, _BUILD,
      f"    rules = {{}}\n{_LOOP_HEAD}        rules[deployment, service] = {_MK}\n    self.matching_rules = list(rules.values())", "R6", control=True),
    V("first rule of a target wins (setdefault)", MFILE, _INIT, _BUILD,
      f"    rules = {{}}\n{_LOOP_HEAD}        rules.setdefault((deployment, service), {_MK})\n    self.matching_rules = [*rules.values()]", "R6"),
    V("rules built by a dict comprehension keyed by the target", MFILE, _INIT, _BUILD,
      "    self.matching_rules = list({str(d['target']): MatchingRule(deployment=d['target'], filter_=self.name, predicates={}) for d in filters}.values())", "R6"),
    V("one rule per deployment: later entries skipped", MFILE, _INIT, f"        {_ADD}",
      f"        if all((r.deployment != deployment for r in self.matching_rules)):\n            {_ADD}", "R6"),
    V("entries without service skipped by a guard clause", MFILE, _INIT, f"        {_ADD}", f"        if service is None:\n            continue\n        {_ADD}", "R6"),
    V("only the first configured entry is read", MFILE, _INIT, _CFG_LOOP, "for deployments in filters[:1]:", "R6"),
    V("configuration filtered before the loop", MFILE, _INIT, _CFG_LOOP, "for deployments in [d for d in filters if d.get('job')]:", "R6"),
    V("loop left after the first rule", MFILE, _INIT, f"        {_ADD}", f"        {_ADD}\n        break", "R6"),
    V("last rule removed after construction", MFILE, _INIT, f"        {_ADD}", f"        {_ADD}\n    self.matching_rules.pop()", "R6"),
    V("get_targets consumes the rule list", MFILE, f"{MBF}.get_targets", "filtered_targets = []\n", "filtered_targets = []\n    self.matching_rules.pop(0)\n", "R6"),
    V("every rule is built from the first entry", MFILE, _INIT, _ENTRY, "target = filters[0]['target']", "R6"),
    V("rule list sliced when stored", MFILE, _INIT, _BUILD,
      f"    rules = []\n{_LOOP_HEAD}        rules.append({_MK})\n    self.matching_rules = rules[-1:]", "R6"),
    V("new sibling filter keeps one rule per deployment", MFILE, None, None, None, "R6",
      append=_SUB_HEAD.format("PerDeploymentFilter") + f"        by_dep = {{}}\n        for entry in filters:\n            by_dep[entry['target']] = {_SUB_MK}\n"
      "        self.matching_rules = list(by_dep.values())\n"),
    V("sibling filter: adder method appends conditionally", MFILE, None, None, None, "R6",
      append=_SUB_HEAD.format("AdderFilter") + "        self.matching_rules = []\n        for entry in filters:\n            self._add(entry)\n"
      f"    def _add(self, entry):\n        if entry['job']:\n            self.matching_rules.append({_SUB_MK})\n"),
    V("rule list never filled from the configuration", MFILE, _INIT, _BUILD, "    self.matching_rules = []", "R6"),
    V("get_targets narrows the rule list to the rules with a service", MFILE, f"{MBF}.get_targets", "filtered_targets = []\n",
      "filtered_targets = []\n    self.matching_rules = [r for r in self.matching_rules if r.service]\n", "R6"),
    V("sibling filter: builder method called from __init__ indexes the rules by target", MFILE, None, None, None, "R6",
      append=_SUB_HEAD.format("LoaderFilter") + "        self._load(filters)\n    def _load(self, entries):\n        d = {}\n        for entry in entries:\n"
      f"            d[entry['target']] = {_SUB_MK}\n        self.matching_rules = list(d.values())\n"),
    # ---- benign
    V("rename accumulator", MFILE, f"{MBF}.get_targets", "filtered_targets", "kept", None, count=4),
    V("de-duplicating guard, still target-major", MFILE, f"{MBF}.get_targets", f"if {_ANY}:", f"if target not in filtered_targets and {_ANY}:", None),
    V("explicit rule loop with break, still target-major", MFILE, f"{MBF}.get_targets", _KEEP_LOOP,
      f"    for target in targets:\n        for matching_rule in self.matching_rules:\n            if {_EVAL}:\n"
      "                filtered_targets.append(target)\n                break", None),
    V("filter bound to a local before it is applied", SFILE, f"{SCHED}.schedule", _APPLY, "        flt = f\n        targets = await flt.get_targets(job, targets)", None),
    V("temporary for the filter result", SFILE, f"{SCHED}.schedule", "targets = await f.get_targets(job, targets)", "res = await f.get_targets(job, targets)\n        targets = res", None),
    V("reorder independent statements", SFILE, f"{SCHED}.schedule", "job_context = JobContext(job)\n    targets = list(binding_config.targets)", "targets = list(binding_config.targets)\n    job_context = JobContext(job)", None),
    V("tasks built from a temporary", SFILE, f"{SCHED}.schedule", _TASKS, "for target in list(targets)]", None),
    V("operands swapped in the deployment test", MFILE, f"{RULE}.eval", "if deployment != self.deployment:", "if self.deployment != deployment:", None),
    V("emptiness as `not x`", MFILE, f"{MBF}.get_targets", "if len(filtered_targets) == 0:", "if not filtered_targets:", None),
    V("length into a temporary before the emptiness test (testtemp)", MFILE, f"{MBF}.get_targets", _EMPTY, "_sf_l1 = len(filtered_targets)\n    if _sf_l1 == 0:", None),
    V("whole emptiness test into a temporary", MFILE, f"{MBF}.get_targets", _EMPTY, "n = len(filtered_targets)\n    empty = not n\n    if empty:", None),
    V("length bound by a walrus in the test", MFILE, f"{MBF}.get_targets", _EMPTY, "if (n := len(filtered_targets)) == 0:", None),
    V("logging added to eval", MFILE, f"{RULE}.eval", "    return True", "    logger.debug('matched')\n    return True", None),
    V("match value into a local first", MFILE, f"{RULE}.eval", "        if match != str(job.inputs[input_name].value):",
      "        actual = str(job.inputs[input_name].value)\n        if match != actual:", None),
    V("repeated subscript bound to a local before the comparison", MFILE, f"{RULE}.eval", _CMP,
      "        token = job.inputs[input_name]\n        if match != str(token.value):", None),
    V("token, its value and the cast each in a temporary", MFILE, f"{RULE}.eval", _CMP,
      "        token = job.inputs[input_name]\n        raw = token.value\n        actual = str(raw)\n        if match != actual:", None),
    V("job.inputs and the token each bound to a local", MFILE, f"{RULE}.eval", _CMP,
      "        inputs = job.inputs\n        token = inputs[input_name]\n        if match != str(token.value):", None),
    V("input cast extracted into a module-level helper", MFILE, f"{RULE}.eval", _CMP,
      "        if match != _input_text(job, input_name):", None, append=_HELPER),
    V("rule into a temporary before it is appended", MFILE, _INIT, f"        {_ADD}", f"        rule = {_MK}\n        self.matching_rules.append(rule)", None),
    V("rules collected in a local list, stored afterwards", MFILE, _INIT, _BUILD,
      f"    rules = []\n{_LOOP_HEAD}        rules.append({_MK})\n    self.matching_rules = rules", None),
    V("rules collected in a local list, copied when stored", MFILE, _INIT, _BUILD,
      f"    rules = []\n{_LOOP_HEAD}        rules.append({_MK})\n    self.matching_rules = list(rules)", None),
    V("rule list built by a comprehension over a module-level helper", MFILE, _INIT, _BUILD,
      "    self.matching_rules = [_mk_rule(self.name, entry) for entry in filters]", None,
      append="def _mk_rule(name, entry):\n    t = entry['target']\n    dep = t if isinstance(t, str) else t['deployment']\n"
      "    return MatchingRule(deployment=dep, filter_=name, predicates={j['port']: j['match'] for j in entry['job']}, service=None if isinstance(t, str) else t.get('service'))\n"),
    V("configuration iterated through enumerate(list(...))", MFILE, _INIT, _CFG_LOOP, "for _i, deployments in enumerate(list(filters)):", None),
    V("rule added with += [rule]", MFILE, _INIT, f"        {_ADD}", f"        self.matching_rules += [{_MK}]", None),
    V("rule added with extend([rule])", MFILE, _INIT, f"        {_ADD}", f"        self.matching_rules.extend([{_MK}])", None),
    V("malformed entry raises instead of being dropped", MFILE, _INIT, f"        {_ENTRY}", f"        {_ENTRY}\n        if target is None:\n            raise WorkflowDefinitionException('no target')", None),
    V("logging between the entry and the append", MFILE, _INIT, f"        {_ADD}", f"        if logger.isEnabledFor(logging.DEBUG):\n            logger.debug('rule')\n        {_ADD}", None),
    V("sibling filter: loop body extracted into an adder method", MFILE, None, None, None, None,
      append=_SUB_HEAD.format("AdderFilter") + "        self.matching_rules = []\n        for entry in filters:\n            self._add(entry)\n"
      f"    def _add(self, entry):\n        rule = {_SUB_MK}\n        self.matching_rules.append(rule)\n"),
    V("sibling filter: rules moved from a staging list", MFILE, None, None, None, None,
      append=_SUB_HEAD.format("StagedFilter") + f"        staged = [{_SUB_MK} for entry in filters]\n        self.matching_rules = []\n"
      "        for r in staged:\n            self.matching_rules.append(r)\n"),
    V("sibling filter: builder method called from __init__", MFILE, None, None, None, None,
      append=_SUB_HEAD.format("LoaderFilter") + "        self._load(filters)\n    def _load(self, entries):\n        self.matching_rules = []\n        for entry in entries:\n"
      f"            self.matching_rules.append({_SUB_MK})\n"),
    V("rules produced by a generator helper", MFILE, _INIT, _BUILD, "    self.matching_rules = list(_gen_rules(self.name, filters))", None,
      append="def _gen_rules(name, entries):\n    for e in entries:\n        yield MatchingRule(deployment=e['target'], filter_=name, predicates={j['port']: j['match'] for j in e['job']})\n"),
    V("configuration iterated through an explicit iterator", MFILE, _INIT, _CFG_LOOP, "it = iter(filters)\n    for deployments in it:", None),
]
