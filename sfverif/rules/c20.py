"""C20 Provenance graph operations keep the graph consistent.

Clauses decided (necessary conditions visible in the code's shape; streamflow/recovery/utils.py):

R1 mirrored updates (P12).  In every method of DirectedGraph and its subclasses (enumerated through the
   class table) each mutation of one adjacency view has its mirror image in the other view and both are
   executed together (CFG: one dominates the other and is always followed by it):
   `A[k].add(x)` <-> `B[x].add(k)`; `A[k].discard|remove(x)` <-> `B[x].discard|remove(k)` or `del B[x]`;
   `del A[n]` <-> `del B[n]` and is preceded by the loop that erases n from the other view's entries
   (`for x in A[n]: B[x].discard(n)`); `A[n] = set()` <-> `B[n] = set()` and only for an absent node;
   `__init__` creates both maps; a node reported as removed is a node that was deleted.
   A snapshot `A[k] = set(A[j])` / `A[j].copy()` counts as the creation of A[k] plus the bulk insertion of A[j]'s
   edges: it needs the creation of B[k], the mirroring loop `for x in A[j]: B[x].add(k)`, and no operation that
   may change A[j] (any A[..] update whose key is not k -- it may be j, e.g. a self-loop) between the snapshot and
   the end of that loop.  A mutation without an elementwise reading (`update`, `|=`, aliasing `A[k] = A[j]`,
   rebinding a map ...) has no mirror image that can be paired: it is reported as a violation of this clause.
R2 encapsulation (P8).  `_successors/_predecessors` are touched only by methods of these classes (whole
   program, incl. string access), and no method returns an internal map / set / dict view: query methods
   return fresh copies; each directional query (successors/out_degree/get_sinks vs predecessors/in_degree/
   get_sources) reads its own view.
R3 pruning guards.  A predecessor is queued for removal only when its successor set is known to be empty
   *after* the edge to the removed node was dropped (and, in `remove_nodes`, only under `prune_dead_end`);
   `promote_to_source` (and any sibling that queues dead-end predecessors) hands exactly that queue to
   `remove_nodes` with pruning on and returns its result -- the flag is the value the *callee* sees: the argument
   written at the call site or, when omitted, the callee's signature default (a caller relying on a default);
   wrappers (`remove_node`) forward `prune_dead_end`;
   `replace` does nothing for an absent `old_node` and refuses an existing `new_node` before any mutation;
   `replace` (every override) only renames: any removal it performs -- itself or through methods of the graph classes it
   is built on (`self.helper(..)` calls followed two levels, constant arguments propagated into forwarded flags) -- runs
   with `prune_dead_end` constant False as the remover sees it (argument or signature default).  Dead-end pruning
   deletes the predecessors whose only successor was old_node, and their ancestors: edges replace must keep.
   Returned temporaries are resolved at the return statement that reads them (reaching definitions), so
   `tmp = []; return tmp` on the early exit and `tmp = self.remove_nodes(q); return tmp` at the end are told apart.
R4 GraphMapper keeps `port_tokens`, `token_instances`, `token_availability` in step: a token id added
   to / removed from one of them is added to / removed from all three together; `replace_token` replaces
   exactly (old id -> new id) in the DAG; `move_token_to_root` cleans the ids returned by
   `promote_to_source` and removes emptied ports; `remove_port` drops the port from the dependency graph
   (without pruning other ports: explicit argument or signature default of the remover, also for sibling methods
   that drop the returned list) and both port maps; code outside GraphMapper only reads these maps.
R5 iteration safety.  No loop iterates an internal set (or map) that its body mutates without taking a copy
   (`self.successors(n)` / `self.predecessors(n)` count as copies of the entry they read).

Guards (R1 absent-node, R3 emptiness / flag / membership, R4 emptied-port) are read from the dominating tests through their
temporaries: `n = len(s); if n == 0` is the test `len(s) == 0` when the assignment is the only definition reaching the test,
dominates it, nothing it names is re-bound and nothing is mutated between the assignment and the test; a stale temporary
(measured before the update it is meant to observe) is not a test of the collection and the clause is reported.

Not decided: equivalence with a reference graph for arbitrary operation sequences (needs execution).  For a `replace`
built on the public primitives (snapshot + remove_node(.., False) + add) the rule decides that no pruning removal is
reachable; that every snapshotted edge is re-attached is not paired elementwise (R1 inlines helpers one level only).
"""

from __future__ import annotations

import ast
import weakref

from ..dataflow import reaching_defs
from ..model import ancestors, enclosing_stmt, unparse
from ..selftest import V
from ._util_E import (
    coexec,
    const_of,
    deref,
    deref_at,
    effective_arg,
    emptiness_atom,
    enclosing_loops,
    ids_at,
    is_self_attr,
    ktext,
    loops_of,
    membership_atom,
    must_follow,
    only_via,
    signature_default,
    split_atoms,
    strip_copy,
)

MOD = "streamflow.recovery.utils"
GRAPH = f"{MOD}.DirectedGraph"
DAG = f"{MOD}.DirectedAcyclicGraph"
MAPPER = f"{MOD}.GraphMapper"
FILE = "streamflow/recovery/utils.py"

VIEWS = {"_successors": "S", "_predecessors": "P"}
VIEW_ATTR = {v: k for k, v in VIEWS.items()}
OTHER = {"S": "P", "P": "S"}
QUERY_VIEW = {"successors": "S", "predecessors": "P", "out_degree": "S", "in_degree": "P", "get_sinks": "S", "get_sources": "P"}
SET_READS = {
    "difference", "union", "intersection", "issubset", "issuperset", "isdisjoint", "copy",
    "symmetric_difference", "__contains__", "__len__", "__iter__",
}
MAP_READS = {"keys", "items", "values", "get", "__contains__", "__len__", "__iter__", "copy"}

META = {
    "explanation": (
        "Mirrored-update pairing (P12) over the successor/predecessor maps of DirectedGraph/DirectedAcyclicGraph: every "
        "add/discard/del/creation in one view is matched, by key and value expression after alias removal, with its "
        "mirror in the other view and both must be executed together on the CFG; whole-program encapsulation of the two "
        "maps and copy-out of query results; pruning guards of remove_nodes/promote_to_source/replace read from the "
        "dominating tests; lock-step updates of GraphMapper's three token maps. Decides necessary structural conditions."
    ),
    "undecided": "equivalence with a reference graph model for arbitrary operation sequences (needs execution)",
    "assumptions": [
        "set/dict semantics of add/discard/remove/del",
        "graph classes defined outside /repo (plugins) are not analysed",
        "pairs are matched per method after inlining helper methods of the graph classes one level; a private helper may perform one half of a pair when every caller performs the other half",
    ],
}


# --------------------------------------------------------------------------- extraction


class Op:
    """One mutation of an adjacency map.  `loop` = (view, key, var) of the enclosing loop over an adjacency
    set that binds the op's key and executes the op in every iteration (None otherwise); `inlined` = the
    operation is performed by a helper method called at `node`."""

    __slots__ = ("kind", "view", "key", "val", "node", "ids", "loop", "inlined", "lids", "origin")

    def __init__(self, kind, view, key, val, node, ids, loop=None, inlined=False):
        self.kind, self.view, self.key, self.val, self.node, self.ids = kind, view, key, val, node, ids
        self.loop, self.inlined = loop, inlined
        self.origin = None  # the helper's own Op when inlined
        self.lids = ids  # CFG ids of the enclosing adjacency loop's head (or of the call site when inlined)

    def __repr__(self):
        return f"{self.kind}:{self.view}[{self.key}]:{self.val}"


def graph_classes(prog):
    prog.cls(GRAPH)
    prog.cls(DAG)
    return [GRAPH] + prog.subclasses(GRAPH)


def graph_methods(prog):
    out = []
    for cq in graph_classes(prog):
        out.extend(prog.cls(cq).methods.values())
    return out


def view_map(f, e):
    a = is_self_attr(deref(f, e), VIEWS)
    return VIEWS[a] if a else None


def view_entry(f, e):
    d = deref(f, e)
    if isinstance(d, ast.Subscript):
        v = view_map(f, d.value)
        if v:
            return v, d.slice
    return None


def _empty_set(e) -> bool:
    return isinstance(e, ast.Call) and isinstance(e.func, ast.Name) and e.func.id == "set" and not e.args and not e.keywords


def _empty_dict(e) -> bool:
    return (isinstance(e, ast.Dict) and not e.keys) or (
        isinstance(e, ast.Call) and isinstance(e.func, ast.Name) and e.func.id == "dict" and not e.args and not e.keywords
    )


def _entry_copy(f, e):
    """`set(A[j])` / `A[j].copy()` written directly as the assigned value -> (view, key expr) of the copied entry."""
    inner = None
    if isinstance(e, ast.Call) and not e.keywords:
        if isinstance(e.func, ast.Name) and e.func.id == "set" and len(e.args) == 1 and not isinstance(e.args[0], ast.Starred):
            inner = e.args[0]
        elif isinstance(e.func, ast.Attribute) and e.func.attr == "copy" and not e.args:
            inner = e.func.value
    return view_entry(f, inner) if inner is not None else None


def extract_ops(f, prog=None, _depth=0):
    """-> (ops, uninterpretable nodes) for the adjacency maps in function f.  With `prog`, the add/discard/del
    operations of helper methods of the graph classes called as `self.helper(args)` are inlined (one level),
    parameters replaced by the argument expressions."""
    ops, unknown = [], []

    def mk(kind, view, key, val, node):
        ops.append(Op(kind, view, ktext(f, key) if key is not None else None, ktext(f, val) if val is not None else None, node, ids_at(f, node)))

    for n in f.body_nodes():
        if isinstance(n, ast.Call) and isinstance(n.func, ast.Attribute):
            recv, meth = n.func.value, n.func.attr
            ent = view_entry(f, recv)
            if ent:
                view, key = ent
                if meth == "add" and len(n.args) == 1:
                    mk("add", view, key, n.args[0], n)
                elif meth in ("discard", "remove") and len(n.args) == 1:
                    mk("rem", view, key, n.args[0], n)
                elif meth not in SET_READS:
                    unknown.append(n)
                continue
            vm = view_map(f, recv)
            if vm:
                if meth == "pop" and 1 <= len(n.args) <= 2:
                    mk("del", vm, n.args[0], None, n)
                elif meth not in MAP_READS:
                    unknown.append(n)
        elif isinstance(n, (ast.Assign, ast.AnnAssign)):
            tgts = n.targets if isinstance(n, ast.Assign) else [n.target]
            for t in tgts:
                for x in [t] + (list(t.elts) if isinstance(t, (ast.Tuple, ast.List)) else []):
                    if isinstance(x, ast.Subscript):
                        vm = view_map(f, x.value)
                        if vm:
                            src = _entry_copy(f, n.value) if n.value is not None else None
                            if n.value is not None and _empty_set(n.value):
                                mk("new", vm, x.slice, None, n)
                            elif src is not None and src[0] == vm and len(tgts) == 1 and x is t:
                                # A[k] = set(A[j]): the entry is created as a snapshot of another entry of the same view
                                mk("copy", vm, x.slice, src[1], n)
                            else:
                                unknown.append(n)
                        elif view_entry(f, x.value):
                            unknown.append(n)
                    elif isinstance(x, ast.Attribute) and is_self_attr(x, VIEWS):
                        if f.name == "__init__" and n.value is not None and _empty_dict(n.value):
                            mk("init", VIEWS[x.attr], None, None, n)
                        else:
                            unknown.append(n)
        elif isinstance(n, ast.AugAssign):
            t = n.target
            if (isinstance(t, ast.Subscript) and (view_map(f, t.value) or view_entry(f, t.value))) or is_self_attr(t, VIEWS) or (
                isinstance(t, ast.Name) and (view_entry(f, t) or view_map(f, t))
            ):
                unknown.append(n)
        elif isinstance(n, ast.Delete):
            for t in n.targets:
                if isinstance(t, ast.Subscript):
                    vm = view_map(f, t.value)
                    if vm:
                        mk("del", vm, t.slice, None, n)
                    elif view_entry(f, t.value):
                        unknown.append(n)
                elif is_self_attr(t, VIEWS):
                    unknown.append(n)
    # loop context of every op
    eloops = entry_loops(f, prog)
    for o in ops:
        for lp, lview, lkey, _copied, var in eloops:
            if not lp.is_comp and var == o.key and _inside(o.node, lp):
                lids = ids_at(f, lp.node)
                body_first = [b for i in lids for b, k in f.cfg.succ[i] if k == "t"]
                if all(b in o.ids or f.cfg.path(b, lids, avoid=o.ids) is None for b in body_first):
                    o.loop = (lview, lkey, var)
                    o.lids = lids
    # helper methods of the graph classes, one level
    if prog is not None and _depth == 0 and f.cls is not None:
        gcs = set(graph_classes(prog))
        for c in f.calls():
            fn = c.func
            if not (isinstance(fn, ast.Attribute) and isinstance(fn.value, ast.Name) and fn.value.id == "self"):
                continue
            callee = prog.resolve_method(f.cls.qualname, fn.attr)
            if callee is None or callee is f or callee.cls is None or callee.cls.qualname not in gcs:
                continue
            cops, _ = extract_ops(callee, prog, _depth + 1)
            cops = [o for o in cops if o.kind in ("add", "rem", "del", "new")]
            if not cops:
                continue
            params = [p for p in callee.params if p != "self"]
            bind = {}
            for i, a in enumerate(c.args):
                if i < len(params):
                    bind[params[i]] = ktext(f, a)
            for k in c.keywords:
                if k.arg:
                    bind[k.arg] = ktext(f, k.value)
            cid = ids_at(f, c)
            for o in cops:
                lp = (o.loop[0], bind.get(o.loop[1], o.loop[1]), o.loop[2]) if o.loop else None
                io = Op(o.kind, o.view, bind.get(o.key, o.key), bind.get(o.val, o.val), c, cid, loop=lp, inlined=True)
                io.origin = o
                ops.append(io)
    return ops, unknown


def query_entry(prog, f, e):
    """`self.successors(n)` / `self.predecessors(n)` (any one-argument method of the graph classes whose only return
    is a copy of the adjacency entry of its parameter) -> (view, key expr at the call site): the call evaluates to a
    fresh copy of that entry, like `set(self._successors[n])` written in place."""
    e = deref(f, e)
    if prog is None or f.cls is None or not (isinstance(e, ast.Call) and isinstance(e.func, ast.Attribute) and isinstance(e.func.value, ast.Name)
                                             and e.func.value.id == "self" and len(e.args) == 1 and not e.keywords and not isinstance(e.args[0], ast.Starred)):
        return None
    callee = prog.resolve_method(f.cls.qualname, e.func.attr)
    if callee is None or callee.cls is None or callee.cls.qualname not in set(graph_classes(prog)):
        return None
    params = [p for p in callee.params if p != "self"]
    rets = [n for n in callee.body_nodes() if isinstance(n, ast.Return)]
    if len(params) != 1 or len(rets) != 1 or rets[0].value is None:
        return None
    inner, copied = strip_copy(callee, deref_at(callee, rets[0].value, rets[0]))
    ent = view_entry(callee, inner) if copied else None
    if ent and ktext(callee, ent[1]) == params[0]:
        return ent[0], e.args[0]
    return None


def entry_loops(f, prog=None):
    """Statement loops / comprehension generators iterating an adjacency set (or, with `prog`, the copy of one handed
    out by a query method of the graph classes): (Loop, view, key text, copied?, var)."""
    out = []
    for lp in loops_of(f):
        it, copied = strip_copy(f, lp.iter)
        ent = view_entry(f, it)
        if ent is None:
            ent, copied = query_entry(prog, f, it), True
        if ent and isinstance(lp.target, ast.Name):
            out.append((lp, ent[0], ktext(f, ent[1]), copied, lp.target.id))
    return out


def _inside(node, loop) -> bool:
    body = loop.node if not loop.is_comp else getattr(loop.node, "_parent", None)
    if body is None:
        return False
    if not loop.is_comp and any(x is node for x in ast.walk(loop.node.iter)):
        return False
    return any(a is body for a in ancestors(node))


# --------------------------------------------------------------------------- tests read through their temporaries
#
# `if len(self.port_tokens[p]) == 0:` and `n = len(self.port_tokens[p]); if n == 0:` are the same test.  The guard readers
# below see every dominating test in all its readings: as written, and with each local that is a *temporary* replaced by
# the expression it holds (one level at a time, so that `cur = stack.pop(); if cur not in S` keeps the reading that names
# `cur`).  A local is a temporary at a test when
#   * exactly one definition reaches the read, a plain `name = expr` (no tuple target, no await/yield) that dominates the test,
#   * every name inside `expr` has the same reaching definitions at the assignment and at the test (nothing re-bound), and
#   * when `expr` reads the heap (subscript / attribute / call): no statement that can run between the assignment and the
#     test mutates anything (mutator call, `del`, store into a subscript / attribute, augmented assignment) -- the value
#     tested is then the value the expression has at the test.  A stale temporary (`n = len(s); s.discard(x); if n == 0`)
#     is therefore not read as a test of `s`, and the clause that needs the test is reported as not met.

_HEAP_MUTATORS = {
    "add", "remove", "discard", "pop", "clear", "update", "setdefault", "append", "appendleft", "extend", "popitem", "popleft", "insert",
    "difference_update", "intersection_update", "symmetric_difference_update", "sort", "reverse", "__setitem__", "__delitem__",
}
_XTESTS: "weakref.WeakKeyDictionary" = weakref.WeakKeyDictionary()


def _copy(node, repl=None):
    """Fresh copy of an expression (no `_parent` links); copied names remember the analysed node they stand for
    (`_sf_src`), `repl` maps id(name node) -> factory of the expression to put in its place."""
    if repl and id(node) in repl:
        return repl[id(node)]()
    if not isinstance(node, ast.AST):
        return node
    fields = {}
    for k, v in ast.iter_fields(node):
        if isinstance(v, list):
            fields[k] = [_copy(x, repl) for x in v]
        else:
            fields[k] = _copy(v, repl)
    new = type(node)(**fields)
    if isinstance(node, ast.Name):
        new._sf_src = getattr(node, "_sf_src", None) or (node if getattr(node, "_parent", None) is not None else None)
    if hasattr(node, "_sf_eval"):
        new._sf_eval = node._sf_eval
    return new


def _mutates_heap(cfg_node) -> bool:
    for x in cfg_node.walk():
        if isinstance(x, (ast.Delete, ast.AugAssign)):
            return True
        if isinstance(x, (ast.Subscript, ast.Attribute)) and isinstance(x.ctx, (ast.Store, ast.Del)):
            return True
        if isinstance(x, ast.Call) and isinstance(x.func, ast.Attribute) and x.func.attr in _HEAP_MUTATORS:
            return True
    return False


def _def_key(ds):
    return sorted((d.kind, id(d.stmt), str(d.index)) for d in ds)


def _temp_def(f, name, test):
    """`name` (an analysed ast.Name, read in or on behalf of the CFG test node `test`) is a temporary at that test ->
    (value expression, CFG ids of its assignment), else None."""
    g = f.cfg
    ds = reaching_defs(f, name.id, name)
    if len(ds) != 1:
        return None
    d = ds[0]
    st = d.stmt
    if d.kind != "assign" or d.index is not None or d.value is None or not isinstance(st, ast.Assign) or len(st.targets) != 1 or not isinstance(st.targets[0], ast.Name):
        return None
    if any(isinstance(x, (ast.Await, ast.Yield, ast.YieldFrom, ast.Lambda)) for x in ast.walk(d.value)):
        return None
    dids = g.ids_of(st)
    if not dids or test.id in dids or not g.dominates(dids, test.id):
        return None
    bound_here = {x.target.id for x in ast.walk(d.value) if isinstance(x, ast.NamedExpr)}
    for m in ast.walk(d.value):
        if isinstance(m, ast.Name) and isinstance(m.ctx, ast.Load) and m.id not in bound_here:
            if _def_key(reaching_defs(f, m.id, m)) != _def_key(reaching_defs(f, m.id, test.ast)):
                return None
    if any(isinstance(x, (ast.Subscript, ast.Attribute, ast.Call)) for x in ast.walk(d.value)):
        stop = set(dids) | {test.id}
        for x in g.reach(dids, avoid=stop):
            if _mutates_heap(g.nodes[x]) and g.path(x, [test.id], avoid=dids) is not None:
                return None
    return d.value, tuple(dids)


def _expand1(f, e, test):
    """e with every temporary it reads directly replaced by the expression the temporary holds; None if there is none."""
    repl = {}
    rebound = {x.target.id for x in ast.walk(e) if isinstance(x, ast.NamedExpr)}
    for n in ast.walk(e):
        if not (isinstance(n, ast.Name) and isinstance(n.ctx, ast.Load)) or n.id in rebound or n.id == "self":
            continue
        src = getattr(n, "_sf_src", None) or (n if getattr(n, "_parent", None) is not None else None)
        if src is None:
            continue
        r = _temp_def(f, src, test)
        if r is None:
            continue
        value, dids = r

        def make(value=value, dids=dids):
            new = _copy(value)
            new._sf_eval = dids
            return new

        repl[id(n)] = make
    return _copy(e, repl) if repl else None


def _readings(f, e, truth, test, depth=3):
    """Atoms (expr, truth) implied by `e == truth`: as written and with temporaries read through, level by level."""
    out = []
    for a, p in split_atoms(e, truth):
        out.append((a, p))
        if depth > 0:
            x = _expand1(f, a, test)
            if x is not None:
                out.extend(_readings(f, x, p, test, depth - 1))
    return out


def xguard_atoms(f, nid):
    """`guard_atoms` with every test read through its temporaries (see above): (expr, truth, test node id).  The atoms
    of the test as written come first; the additional readings are fresh expressions (names resolve as in f)."""
    g = f.cfg
    per = _XTESTS.get(f)
    if per is None:
        per = _XTESTS[f] = {}
    out = []
    for t in g.nodes.values():
        if t.kind != "test" or t.ast is None or t.id == nid:
            continue
        for kind, truth in (("t", True), ("f", False)):
            if only_via(g, t.id, kind, nid):
                k = (t.id, truth)
                if k not in per:
                    per[k] = _readings(f, t.ast, truth, t)
                out.extend((e, p, t.id) for e, p in per[k])
    return out


# --------------------------------------------------------------------------- R1


def _mirrored(g, ops, o) -> bool:
    """The mirror image of op o exists among ops and is executed together with it."""
    other = OTHER[o.view]
    if o.kind == "add":
        if any(p.kind == "add" and p.view == other and p.key == o.val and p.val == o.key and coexec(g, o.ids, p.ids) for p in ops):
            return True
        # `for x in A[j]: B[x].add(k)` is the mirror image of the snapshot `A[k] = set(A[j])`
        return any(p.kind == "copy" and _copy_mirror(g, p, o) for p in ops)
    if o.kind == "rem":
        return any(p.kind == "rem" and p.view == other and p.key == o.val and p.val == o.key and coexec(g, o.ids, p.ids) for p in ops) or any(
            p.kind == "del" and p.view == other and p.key == o.val and must_follow(g, o.ids, p.ids) for p in ops
        )
    if o.kind == "del":
        return any(p.kind == "del" and p.view == other and p.key == o.key and coexec(g, o.ids, p.ids) for p in ops)
    if o.kind in ("new", "copy"):
        return any(p.kind in ("new", "copy") and p.view == other and p.key == o.key and coexec(g, o.ids, p.ids) for p in ops)
    return False


def _copy_mirror(g, c, a) -> bool:
    """add-op a is `B[x].add(k)` executed for every x of the loop `for x in A[j]` and copy-op c is `A[k] = set(A[j])`."""
    return (
        a.kind == "add" and a.view == OTHER[c.view] and a.val == c.key and a.loop is not None
        and a.loop[0] == c.view and a.loop[1] == c.val and a.loop[2] == a.key and coexec(g, c.ids, a.lids)
    )


def _stale_between(g, ops, c, a):
    """Operations that may change the copied entry A[j] after the snapshot c and before the mirroring loop of a has
    finished (the loop then walks a different set than the one that was copied).  Keys are compared as text: only
    the key of the new entry itself is known to differ from j, any other key (loop variable, parameter) may be j."""
    after = g.reach(c.ids)
    heads = set(a.lids)
    out = []
    for q in ops:
        if q is c or q.view != c.view or q.kind == "init" or q.key == c.key:
            continue
        if any(i in after and (heads & g.reach([i], include_src=True)) for i in q.ids):
            out.append(q)
    return out


def _mirrored_at_callers(prog, f, o) -> bool:
    """For a private helper: every call site lies in a graph-class method in which the inlined operation has
    its mirror (the helper performs one half of a pair, each caller the other half)."""
    if not f.name.startswith("_") or f.name.startswith("__"):
        return False
    gms = {m.qualname: m for m in graph_methods(prog)}
    callers = prog.callers(f.qualname)
    if not callers:
        return False
    for cf, _call in callers:
        if cf.qualname not in gms or cf is f:
            return False
        cops, _ = extract_ops(cf, prog)
        mine = [io for io in cops if io.inlined and io.origin is not None and io.origin.node is o.node and io.origin.kind == o.kind]
        if not mine or not all(_mirrored(cf.cfg, cops, io) for io in mine):
            return False
    return True


def r1(ctx):
    prog = ctx.prog
    for f in graph_methods(prog):
        ops, unknown = extract_ops(f, prog)
        for u in unknown:
            # a mutation without an elementwise reading has no mirror image the pairing can establish: the obligation
            # is reported as not met (a changed shape is a finding, not an analysis failure)
            ut = " ".join(unparse(u).split())
            ctx.ob("R1", f"{f.name}: `{ut[:70]}` is an elementwise update with a mirror image in the other view", False, func=f, node=u,
                   instance=f"{f.name}:opaque:{ut}",
                   message=f"`{ut[:90]}` changes an adjacency map wholesale (bulk update / rebinding / aliasing): no mirrored update of the other view "
                           "can be paired with it, so the successor and predecessor views are not kept in step")
        if not ops:
            continue
        g = f.cfg
        for o in ops:
            ctx.require(bool(o.ids), f"C20.R1: {f.qualname}: no CFG node for `{unparse(o.node)[:60]}`")
        if all(o.inlined for o in ops):
            continue
        for o in ops:
            if o.inlined:
                continue
            other = OTHER[o.view]
            inst = f"{f.name}:{o.kind}:{o.view}[{o.key}]:{o.val}"
            here = f"`{' '.join(unparse(enclosing_stmt(o.node)).split())[:70]}`"
            if o.kind == "add":
                ok = _mirrored(g, ops, o) or _mirrored_at_callers(prog, f, o)
                ctx.ob("R1", f"{f.name}: {here} has its mirror {VIEW_ATTR[other]}[{o.val}].add({o.key})", ok, func=f, node=o.node, instance=inst,
                       message=f"edge insertion {here} is not mirrored by `self.{VIEW_ATTR[other]}[{o.val}].add({o.key})` on the same paths: the two views diverge")
            elif o.kind == "rem":
                ok = _mirrored(g, ops, o) or _mirrored_at_callers(prog, f, o)
                ctx.ob("R1", f"{f.name}: {here} is mirrored by a removal in / deletion of {VIEW_ATTR[other]}[{o.val}]", ok, func=f, node=o.node, instance=inst,
                       message=f"edge removal {here} has no mirrored `self.{VIEW_ATTR[other]}[{o.val}].discard({o.key})` / `del self.{VIEW_ATTR[other]}[{o.val}]` on every path: a dangling edge stays in the other view")
            elif o.kind == "del":
                ok = _mirrored(g, ops, o)
                ctx.ob("R1", f"{f.name}: {here} is paired with the deletion of {VIEW_ATTR[other]}[{o.key}]", ok, func=f, node=o.node, instance=inst,
                       message=f"{here}: the node's entry is deleted from one view only")
                # back references: for x in A[n]: B[x].discard(n), before the deletion
                okb = any(
                    p.kind == "rem" and p.view == other and p.val == o.key and p.loop is not None and p.loop[0] == o.view and p.loop[1] == o.key
                    and p.key == p.loop[2] and all(g.dominates(p.lids, d) for d in o.ids)
                    for p in ops
                )
                ctx.ob("R1", f"{f.name}: before {here} the node is erased from every {VIEW_ATTR[other]}[x], x in {VIEW_ATTR[o.view]}[{o.key}]", okb, func=f, node=o.node,
                       instance=inst + ":backrefs",
                       message=f"{here} drops the node's {'outgoing' if o.view == 'S' else 'incoming'} edges from this view, but no preceding loop `for x in self.{VIEW_ATTR[o.view]}[{o.key}]: self.{VIEW_ATTR[other]}[x].discard({o.key})` removes them from the other view")
            elif o.kind in ("new", "copy"):
                ok = _mirrored(g, ops, o)
                ctx.ob("R1", f"{f.name}: {here} creates the entry in both views", ok, func=f, node=o.node, instance=inst,
                       message=f"{here}: the entry is created in one view only (key sets of the two maps diverge)")
                if o.kind == "copy":
                    src = f"self.{VIEW_ATTR[o.view]}[{o.val}]"
                    mirrors = [p for p in ops if _copy_mirror(g, o, p)]
                    ctx.ob("R1", f"{f.name}: the edges copied by {here} are mirrored by a loop over {src} adding {o.key} to {VIEW_ATTR[other]}[x]", bool(mirrors),
                           func=f, node=o.node, instance=inst + ":mirror",
                           message=f"{here} copies all edges of `{o.val}` into one view, but no loop `for x in {src}: self.{VIEW_ATTR[other]}[x].add({o.key})` "
                                   "records them in the other view on the same paths")
                    if mirrors:
                        stale = [q for p in mirrors for q in _stale_between(g, ops, o, p)]
                        qs = sorted({" ".join(unparse(enclosing_stmt(q.node)).split())[:70] for q in stale})
                        ctx.ob("R1", f"{f.name}: {src} is not changed between the snapshot {here} and the end of its mirroring loop", not stale,
                               func=f, node=o.node, instance=inst + ":fresh",
                               message=f"{here} takes a snapshot of {src}, but `{'`, `'.join(qs[:3])}` may change that set (its key may equal `{o.val}`, e.g. a "
                                       f"self-loop) before the loop that mirrors the copied edges into {VIEW_ATTR[other]} has run: the snapshot and the "
                                       "mirrored edges differ, the two views diverge",
                               witness=[f"snapshot: {here}"] + [f"later update of {VIEW_ATTR[o.view]}[...]: `{t}`" for t in qs])
                absent = False
                for nid in o.ids:
                    for e, truth, _t in xguard_atoms(f, nid):
                        m = membership_atom(e, truth)
                        if m and ktext(f, m[0]) == o.key and not m[2]:
                            c = m[1]
                            if isinstance(c, ast.Call) and isinstance(c.func, ast.Attribute) and c.func.attr == "keys" and not c.args:
                                c = c.func.value
                            if view_map(f, c):
                                absent = True
                        if isinstance(e, ast.Call) and unparse(e.func) == "self.contains" and len(e.args) == 1 and ktext(f, e.args[0]) == o.key and not truth:
                            absent = True
                ctx.ob("R1", f"{f.name}: {here} only for a node that is not in the graph", absent, func=f, node=o.node, instance=inst + ":absent",
                       message=f"{here} is not guarded by `{o.key} not in self._successors`: adding an existing node would erase its edges")
        inits = {o.view for o in ops if o.kind == "init"}
        if f.name == "__init__" and inits:
            ctx.ob("R1", f"{f.qualname.rsplit('.', 2)[-2]}.__init__ creates both adjacency maps empty", inits == {"S", "P"}, func=f, node=f.node,
                   instance="__init__:maps")
        # reported == deleted
        rets = [n for n in f.body_nodes() if isinstance(n, ast.Return) and isinstance(n.value, ast.Name)]
        dels = [o for o in ops if o.kind == "del" and o.view == "S" and not o.inlined]
        for r in rets:
            d = deref(f, r.value)
            if not (isinstance(d, ast.List) and not d.elts) or not dels:
                continue
            lst = r.value.id
            apps = [c for c in f.calls() if isinstance(c.func, ast.Attribute) and c.func.attr == "append" and isinstance(c.func.value, ast.Name)
                    and c.func.value.id == lst and len(c.args) == 1]
            for o in dels:
                ok = any(ktext(f, c.args[0]) == o.key and coexec(g, ids_at(f, c), o.ids) for c in apps)
                ctx.ob("R1", f"{f.name}: the returned list `{lst}` receives exactly the deleted node {o.key}", ok, func=f, node=o.node,
                       instance=f"{f.name}:reported:{o.key}",
                       message=f"`{lst}.append({o.key})` and `del self._successors[{o.key}]` are not executed together: callers clean their maps from this list")
    init = prog.func(f"{GRAPH}.__init__")
    ctx.require(any(o.kind == "init" for o in extract_ops(init)[0]), "C20.R1: DirectedGraph.__init__ no longer creates the adjacency maps")


# --------------------------------------------------------------------------- R2


def _leaks(f, e, depth=0, at=None) -> str | None:
    """Text of the internal object a returned expression aliases, or None when it is a fresh value.  `at` = the
    statement at which e is read (a temporary assigned on several branches is resolved per return)."""
    if depth > 6 or e is None:
        return None
    if isinstance(e, ast.Name):
        d = deref(f, e)
        if d is e and at is not None:
            d = deref_at(f, e, at)
        if d is e:
            # a loop variable bound to an internal set?
            for lp in loops_of(f):
                if lp.is_comp:
                    continue
                pos = lp.binds(e.id)
                if pos == -1:
                    continue
                it = deref(f, lp.iter)
                if isinstance(it, ast.Call) and isinstance(it.func, ast.Attribute) and view_map(f, it.func.value):
                    if (it.func.attr == "values" and pos is None) or (it.func.attr == "items" and pos == 1):
                        return unparse(it)
            return None
        return _leaks(f, d, depth + 1)
    if is_self_attr(e, VIEWS):
        return unparse(e)
    if isinstance(e, ast.Subscript) and view_map(f, e.value):
        return unparse(e)
    if isinstance(e, ast.Call) and isinstance(e.func, ast.Attribute):
        if (view_map(f, e.func.value) and e.func.attr in ("keys", "values", "items", "get", "setdefault")):
            return unparse(e)
        return None
    if isinstance(e, ast.IfExp):
        return _leaks(f, e.body, depth + 1) or _leaks(f, e.orelse, depth + 1)
    if isinstance(e, ast.BoolOp):
        for v in e.values:
            r = _leaks(f, v, depth + 1)
            if r:
                return r
        return None
    if isinstance(e, ast.NamedExpr):
        return _leaks(f, e.value, depth + 1)
    if isinstance(e, (ast.Tuple, ast.List)):
        for v in e.elts:
            r = _leaks(f, v, depth + 1)
            if r:
                return r
        return None
    if isinstance(e, (ast.ListComp, ast.SetComp, ast.DictComp, ast.GeneratorExp)):
        if isinstance(e, ast.GeneratorExp):
            for gen in e.generators:
                it, _ = strip_copy(f, gen.iter)
                if view_map(f, it) or view_entry(f, it) or (isinstance(it, ast.Call) and isinstance(it.func, ast.Attribute) and view_map(f, it.func.value)):
                    return unparse(e)[:60] + " (lazy iterator over an internal map)"
        elts = [e.value, e.key] if isinstance(e, ast.DictComp) else [e.elt]
        for gen in e.generators:
            it = gen.iter
            if isinstance(it, ast.Call) and isinstance(it.func, ast.Attribute) and view_map(f, it.func.value):
                tgt = gen.target
                inner = None
                if it.func.attr == "values" and isinstance(tgt, ast.Name):
                    inner = tgt.id
                elif it.func.attr == "items" and isinstance(tgt, ast.Tuple) and len(tgt.elts) == 2 and isinstance(tgt.elts[1], ast.Name):
                    inner = tgt.elts[1].id
                if inner and any(isinstance(x, ast.Name) and x.id == inner for x in elts):
                    return f"{inner} (inner sets of {unparse(it)})"
        return None
    return None


def r2(ctx):
    prog = ctx.prog
    classes = set(graph_classes(prog))
    # (a) who touches the maps -- whole program
    by_owner: dict[str, list] = {}
    for m in prog.modules.values():
        if "_successors" not in m.source and "_predecessors" not in m.source:
            continue
        for n in ast.walk(m.tree):
            hit = None
            if isinstance(n, ast.Attribute) and n.attr in VIEWS:
                hit = n
            elif isinstance(n, ast.Constant) and isinstance(n.value, str) and n.value in VIEWS:
                st = enclosing_stmt(n)
                if isinstance(st, ast.Assign) and any(isinstance(t, ast.Name) and t.id == "__slots__" for t in st.targets):
                    continue
                hit = n
            if hit is None:
                continue
            fn = prog.enclosing_func(n)
            cl = prog.enclosing_cls(n)
            owner = fn.qualname if fn else (cl.qualname if cl else m.name)
            by_owner.setdefault(owner, []).append((m, fn, cl, n))
    ctx.require(bool(by_owner), "C20.R2: no access to _successors/_predecessors found at all")
    for owner, hits in sorted(by_owner.items()):
        m, fn, cl, n0 = hits[0]
        bad = [
            n for (_m, f2, c2, n) in hits
            if not (c2 is not None and c2.qualname in classes)
            or not (isinstance(n, ast.Attribute) and isinstance(n.value, ast.Name) and n.value.id == "self")
        ]
        ctx.ob("R2", f"{owner}: adjacency maps are accessed as self.<map> inside a graph class", not bad, func=fn, qualname=owner,
               node=(bad[0] if bad else n0), instance=f"{owner}:access",
               message=f"{owner} touches `{unparse(bad[0]) if bad else ''}` from outside DirectedGraph/DirectedAcyclicGraph: the mirrored-update discipline cannot be enforced there")
    # (b) no method hands out an internal object
    n_query = 0
    for f in graph_methods(prog):
        for r in [n for n in f.body_nodes() if isinstance(n, ast.Return) and n.value is not None]:
            mentions = any(
                (isinstance(x, ast.Attribute) and is_self_attr(x, VIEWS)) for x in ast.walk(deref_at(f, r.value, r))
            ) or (isinstance(r.value, ast.Name) and _leaks(f, r.value, at=r))
            if not mentions:
                continue
            n_query += 1
            leak = _leaks(f, r.value, at=r)
            ctx.ob("R2", f"{f.name} returns a fresh value, not an internal set/map", leak is None, func=f, node=r, instance=f"{f.name}:copy-out",
                   message=f"{f.name} returns `{leak}`: callers that mutate the result (or iterate it during removal) change the graph behind its back, one view only")
    for name in ("successors", "predecessors", "get_nodes"):
        ctx.require(prog.resolve_method(GRAPH, name) is not None, f"C20.R2: query method {name} vanished")
    # (c) each directional query reads its own view
    for name, view in QUERY_VIEW.items():
        for f in [m for m in graph_methods(prog) if m.name == name]:
            used = set()
            for r in [n for n in f.body_nodes() if isinstance(n, ast.Return) and n.value is not None]:
                for x in ast.walk(deref_at(f, r.value, r)):
                    if isinstance(x, ast.Attribute) and is_self_attr(x, VIEWS):
                        used.add(VIEWS[x.attr])
            ctx.ob("R2", f"{name} answers from {VIEW_ATTR[view]}", used == {view}, func=f, node=f.node, instance=f"{name}:view",
                   message=f"{name} reads {sorted(VIEW_ATTR[v] for v in used)} instead of {VIEW_ATTR[view]}: the query answers for the opposite direction")
    ctx.require(prog.resolve_method(DAG, "get_sinks") is not None and prog.resolve_method(DAG, "get_sources") is not None, "C20.R2: get_sources/get_sinks vanished")
    ctx.require(n_query >= 3, "C20.R2: query methods returning adjacency data not found")


# --------------------------------------------------------------------------- R3


def _mentions_entry(f, e, view, key) -> bool:
    for x in [e] + list(ast.walk(e)):
        ent = view_entry(f, x) if isinstance(x, (ast.Subscript, ast.Name)) else None
        if ent and ent[0] == view and ktext(f, ent[1]) == key:
            return True
    return False


REMOVERS = ("remove_nodes", "remove_node")
FLAG = "prune_dead_end"


def remover_callees(prog, f, c):
    """Graph-class methods taking the pruning flag that the call c in f resolves to."""
    gcs = set(graph_classes(prog))
    out = []
    for q in prog.resolve_call(f, c):
        fn = prog.functions.get(q)
        if fn is not None and fn.cls is not None and fn.cls.qualname in gcs and fn.name in REMOVERS and FLAG in fn.params:
            out.append(fn)
    return out


def prune_flag(prog, f, c, env=None):
    """The value `prune_dead_end` has in the removers called at c: the argument written at the call site or, when it
    is omitted, the *signature default of the callee* (the caller then relies on that default).
    -> (value, text): value True / False when it is that constant in every resolved callee, None otherwise;
    text says where the value comes from.  `env` = constant values of f's own parameters (f inlined at a call site
    that passes constants: a forwarded flag then has the caller's value)."""
    vals, texts = set(), []
    for callee in remover_callees(prog, f, c):
        e, how = effective_arg(callee, c, FLAG)
        isc, v = const_of(f if how == "explicit" else None, e)
        fwd = ""
        if how == "explicit" and not isc and env:
            d = deref(f, e)
            if isinstance(d, ast.Name) and d.id in f.params and d.id in env:
                isc, v, fwd = True, env[d.id], f" (= {env[d.id]}, the value {f.name} receives here)"
        vals.add(v if isc and isinstance(v, bool) else None)
        if how == "explicit":
            texts.append(f"passes {FLAG}={unparse(e)}{fwd}")
        elif how == "default":
            texts.append(f"omits {FLAG} and so relies on the signature default `{FLAG}={unparse(e)}` of {callee.qualname.rsplit('.', 2)[-2]}.{callee.name}")
        else:
            texts.append(f"leaves {FLAG} undetermined ({how}) for {callee.name}")
    if len(vals) == 1 and None not in vals:
        return vals.pop(), "; ".join(dict.fromkeys(texts))
    return None, "; ".join(dict.fromkeys(texts)) or "calls no remover that takes the flag"


def pruning_calls(prog, f, env=None, depth=2, _seen=frozenset()):
    """Calls in f that may remove nodes other than the ones they are given: a remover (remove_nodes / remove_node of
    the graph classes) whose `prune_dead_end` -- explicit argument, forwarded parameter or, when omitted, the callee's
    signature default -- is not the constant False; followed through `self.helper(..)` calls into other methods of the
    graph classes (`depth` levels, constant arguments propagated).  -> [(call in f, where the flag comes from)]"""
    gcs = set(graph_classes(prog))
    out = []
    for c in f.calls():
        if remover_callees(prog, f, c):
            v, how = prune_flag(prog, f, c, env)
            if v is not False:
                out.append((c, f"`{unparse(c)}` {how}"))
            continue
        fn = c.func
        if depth <= 0 or not (isinstance(fn, ast.Attribute) and isinstance(fn.value, ast.Name) and fn.value.id == "self"):
            continue
        for q in prog.resolve_call(f, c):
            callee = prog.functions.get(q)
            if callee is None or callee is f or callee.cls is None or callee.cls.qualname not in gcs or q in _seen:
                continue
            sub = {}
            for p in callee.params:
                if p == "self":
                    continue
                e, how = effective_arg(callee, c, p)
                isc, v = const_of(f if how == "explicit" else None, e)
                if how == "explicit" and not isc and env:
                    d = deref(f, e)
                    if isinstance(d, ast.Name) and d.id in f.params and d.id in env:
                        isc, v = True, env[d.id]
                if isc and isinstance(v, bool):
                    sub[p] = v
            for _ic, txt in pruning_calls(prog, callee, sub, depth - 1, _seen | {q}):
                out.append((c, f"`{unparse(c)}` runs {callee.qualname.rsplit('.', 2)[-2]}.{callee.name}, where {txt}"))
    return out


def r3(ctx):
    prog = ctx.prog
    pushes = 0
    for f in graph_methods(prog):
        eloops = [x for x in entry_loops(f, prog) if not x[0].is_comp]
        if not eloops:
            continue
        ops, _ = extract_ops(f)
        g = f.cfg
        for c in f.calls():
            if not (isinstance(c.func, ast.Attribute) and c.func.attr in ("append", "add", "appendleft") and isinstance(c.func.value, ast.Name) and len(c.args) == 1
                    and isinstance(c.args[0], ast.Name)):
                continue
            var = c.args[0].id
            lp = next((x for x in eloops if x[4] == var and _inside(c, x[0]) and x[1] == "P"), None)
            if lp is None:
                continue
            pushes += 1
            _loop, _lview, node_key, _copied, _ = lp
            cid = ids_at(f, c)
            ctx.require(bool(cid), f"C20.R3: no CFG node for {unparse(c)}")
            atoms = [a for nid in cid for a in xguard_atoms(f, nid)]
            empt_tests = []
            for e, truth, tid in atoms:
                em = emptiness_atom(e, truth)
                if em and em[1] and _mentions_entry(f, em[0], "S", var):
                    empt_tests.append(tid)
            inst = f"{f.name}:push:{var}"
            ctx.ob("R3", f"{f.name}: predecessor `{var}` is queued for removal only when self._successors[{var}] is empty", bool(empt_tests), func=f, node=c,
                   instance=inst + ":empty",
                   message=f"`{unparse(c)}` is not guarded by the emptiness of self._successors[{var}]: an ancestor that still leads somewhere is removed")
            rems = [o for o in ops if o.kind == "rem" and o.view == "S" and o.key == var and o.val == node_key]
            ordered = bool(rems) and bool(empt_tests) and all(
                any(g.dominates(o.ids, t) and g.path(t, [t], avoid=o.ids) is None for o in rems) for t in empt_tests
            )
            ctx.ob("R3", f"{f.name}: the edge {var}->{node_key} is dropped before the emptiness test", ordered, func=f, node=c, instance=inst + ":order",
                   message=f"the emptiness of self._successors[{var}] is tested before `{node_key}` was discarded from it: the dead end is never detected")
            if "prune_dead_end" in f.params:
                flag = any(isinstance(e, ast.Name) and e.id == "prune_dead_end" and truth for e, truth, _t in atoms)
                ctx.ob("R3", f"{f.name}: ancestors are queued only under prune_dead_end", flag, func=f, node=c, instance=inst + ":flag",
                       message="ancestors are pruned although prune_dead_end is false (remove_port relies on prune_dead_end=False)")
    # wrappers forward the pruning flag
    fwd = 0
    for f in graph_methods(prog):
        if "prune_dead_end" not in f.params or f.name == "remove_nodes":
            continue
        for c in f.calls():
            if f"{GRAPH}.remove_nodes" not in prog.resolve_call(f, c):
                continue
            fwd += 1
            flag = c.args[1] if len(c.args) > 1 else next((k.value for k in c.keywords if k.arg == "prune_dead_end"), None)
            ok = flag is not None and isinstance(deref(f, flag), ast.Name) and deref(f, flag).id == "prune_dead_end"
            ctx.ob("R3", f"{f.name} forwards prune_dead_end to remove_nodes", ok, func=f, node=c, instance=f"{f.name}:forward-flag",
                   message=f"{f.name} does not pass its prune_dead_end argument on: remove_node(n, prune_dead_end=False) would prune ancestors")
            # a forwarding wrapper and the method it wraps should declare the same default (not armed: an API choice)
            mine = signature_default(f, FLAG)[1]
            for callee in remover_callees(prog, f, c):
                theirs = signature_default(callee, FLAG)[1]
                if mine is not None and theirs is not None and unparse(mine) != unparse(theirs):
                    ctx.observe(f"C20.R3: {f.name}({FLAG}={unparse(mine)}) forwards to {callee.name}({FLAG}={unparse(theirs)}): the defaults of wrapper and wrapped method differ")
    ctx.require(fwd >= 1, "C20.R3: remove_node -> remove_nodes forwarding not found")
    ctx.require(pushes >= 2, f"C20.R3: only {pushes} predecessor-queueing sites found (remove_nodes, promote_to_source expected)")

    # promote_to_source: queue -> remove_nodes(queue) with pruning, result returned; absent node ignored
    f = prog.func(f"{DAG}.promote_to_source")
    g = f.cfg
    calls = [c for c in f.calls() if f"{GRAPH}.remove_nodes" in prog.resolve_call(f, c)]
    ctx.require(len(calls) >= 1, "C20.R3: promote_to_source no longer calls remove_nodes")
    push_lists = {c.func.value.id for c in f.calls() if isinstance(c.func, ast.Attribute) and c.func.attr == "append" and isinstance(c.func.value, ast.Name)}
    for c in calls:
        arg = c.args[0] if c.args else next((k.value for k in c.keywords if k.arg == "nodes"), None)
        # the flag as the callee sees it: an omitted argument is resolved through the callee's signature default
        pruning, how = prune_flag(prog, f, c)
        ok = isinstance(arg, ast.Name) and arg.id in push_lists and pruning is True
        ctx.ob("R3", "promote_to_source removes the queued ancestors with pruning enabled", ok, func=f, node=c, instance="promote:remove_nodes",
               message=f"promote_to_source does not hand its dead-end list to remove_nodes with prune_dead_end=True (`{unparse(c)}` {how}): "
                       "only the direct parents are deleted, ancestors that no longer lead anywhere survive and are missing from the returned list")
        # every return executed after the call hands out the call's value -- directly or through a temporary, which is
        # resolved at the return statement that reads it (the same name may hold `[]` on the early-exit path)
        after = g.reach(ids_at(f, c), include_src=True)
        late = [n for n in f.body_nodes() if isinstance(n, ast.Return) and any(i in after for i in ids_at(f, n))]
        returned = bool(late) and all(r.value is not None and (r.value is c or deref_at(f, r.value, r) is c) for r in late)
        loop_ids = [i for lp in entry_loops(f) if not lp[0].is_comp for i in ids_at(f, lp[0].node)]
        ctx.ob("R3", "promote_to_source returns the nodes removed by remove_nodes on every path past the loop", returned and must_follow(g, loop_ids, ids_at(f, c)),
               func=f, node=c, instance="promote:returns",
               message="the list of removed nodes is not returned: GraphMapper.move_token_to_root cleans its token maps from it")
    _membership_guard(ctx, f, "node", absent_is_bad=True, label="promote_to_source ignores a node that is not in the graph")
    # siblings: any other graph method that collects dead-end predecessors and hands them to a remover
    for m in graph_methods(prog):
        if m is f or m.name in REMOVERS:
            continue
        ploops = [x for x in entry_loops(m) if not x[0].is_comp and x[1] == "P"]
        queues = {
            c.func.value.id for c in m.calls()
            if isinstance(c.func, ast.Attribute) and c.func.attr in ("append", "add", "appendleft") and isinstance(c.func.value, ast.Name) and len(c.args) == 1
            and isinstance(c.args[0], ast.Name) and any(x[4] == c.args[0].id and _inside(c, x[0]) for x in ploops)
        }
        for c in m.calls():
            if queues and remover_callees(prog, m, c) and c.args and isinstance(c.args[0], ast.Name) and c.args[0].id in queues:
                pruning, how = prune_flag(prog, m, c)
                ctx.ob("R3", f"{m.name} removes its queued dead-end predecessors with pruning enabled", pruning is True, func=m, node=c,
                       instance=f"{m.name}:dead-ends:remover",
                       message=f"{m.name}: `{unparse(c)}` {how}: the ancestors of the queued dead ends that no longer lead anywhere survive")

    # replace: guards before any mutation
    f = prog.func(f"{GRAPH}.replace")
    ctx.require({"old_node", "new_node"} <= set(f.params), "C20.R3: replace(old_node, new_node) signature changed")
    _membership_guard(ctx, f, "old_node", absent_is_bad=True, label="replace ignores an absent old_node before touching the graph")
    _membership_guard(ctx, f, "new_node", absent_is_bad=False, label="replace refuses an existing new_node before touching the graph", must_raise=True)
    # replace only renames: whatever removal it performs (itself or through the public primitives / helper methods it is
    # built on) must not prune -- dead-end pruning deletes the predecessors of old_node whose only successor it was,
    # and their exclusive ancestors, i.e. nodes and edges replace promises to keep
    for rf in prog.overrides(GRAPH, "replace"):
        owner = rf.qualname.rsplit(".", 2)[-2]
        bad = pruning_calls(prog, rf)
        what = f"{owner}.replace removes no node but old_node: every removal it performs (directly or through methods of the graph classes) runs with {FLAG}=False"
        if not bad:
            ctx.ob("R3", what, True, func=rf, node=rf.node, instance=f"{owner}.replace:noprune")
        for c, how in bad:
            ctx.ob("R3", what, False, func=rf, node=c, instance=f"{owner}.replace:noprune:{' '.join(unparse(c).split())}",
                   message=f"{owner}.replace: {how}: the dead-end pruning deletes the predecessors of old_node whose only successor it was, and their "
                           "ancestors, together with their edges -- replace must keep every predecessor and successor edge of the old node "
                           f"(pass {FLAG}=False, as GraphMapper.remove_port does)",
                   witness=[f"removal reached from replace: {how}"])


def _membership_guard(ctx, f, param, absent_is_bad, label, must_raise=False):
    """All mutations in f are reachable only when `param` is present (absent_is_bad) / absent (not absent_is_bad)."""
    g = f.cfg
    ops, _ = extract_ops(f)
    mut_ids = [i for o in ops for i in o.ids]
    for c in f.calls():
        if isinstance(c.func, ast.Attribute) and isinstance(c.func.value, ast.Name) and c.func.value.id == "self" and c.func.attr in ("_add_node", "add", "remove_nodes", "remove_node"):
            mut_ids.extend(ids_at(f, c))
    ctx.require(bool(mut_ids), f"C20.R3: {f.qualname} performs no mutation the rule can see")
    want_present = absent_is_bad
    ok = True
    tests = set()
    for nid in set(mut_ids):
        found = False
        for e, truth, tid in xguard_atoms(f, nid):
            m = membership_atom(e, truth)
            if m and ktext(f, m[0]) == param:
                c = m[1]
                if isinstance(c, ast.Call) and isinstance(c.func, ast.Attribute) and c.func.attr == "keys":
                    c = c.func.value
                if view_map(f, c) and m[2] == want_present:
                    found = True
                    tests.add(tid)
            if isinstance(e, ast.Call) and unparse(e.func) == "self.contains" and len(e.args) == 1 and ktext(f, e.args[0]) == param and truth == want_present:
                found = True
                tests.add(tid)
        ok = ok and found
    raises = True
    if must_raise and ok:
        # the refused outcome ends in a raise (not a silent return)
        raises = False
        for tid in tests:
            for b, k in g.succ[tid]:
                if k in ("t", "f") and not any(m in g.reach([b], avoid=[tid], include_src=True) for m in mut_ids):
                    reach = g.reach([b], avoid=[tid], include_src=True)
                    if g.exit not in reach and any(g.nodes[x].kind == "raise_stmt" for x in reach):
                        raises = True
    ctx.ob("R3", label, ok and raises, func=f, node=f.node, instance=f"{f.name}:guard:{param}",
           message=f"{f.name}: mutations are not dominated by the membership test of `{param}`" + (" ending in a raise" if must_raise else "")
           + (": an existing node would be merged / overwritten" if not absent_is_bad else ": a spurious node is created or a KeyError leaves the graph half-updated"))


# --------------------------------------------------------------------------- R4

TOKEN_MAPS = ("port_tokens", "token_instances", "token_availability")
PORT_MAPS = ("port_name_ids", "port_tokens")
MUTATORS = {"add", "remove", "discard", "pop", "clear", "update", "setdefault", "append", "extend", "popitem", "insert", "__setitem__", "__delitem__"}


def _root_map(f, e, names):
    """self.<map> at the root of `self.<map>[k]` / `self.<map>.setdefault(k, ..)` / `self.<map>.get(k, ..)` -> (name, depth)."""
    depth = 0
    e = deref(f, e)
    while True:
        a = is_self_attr(e, names)
        if a:
            return a, depth
        if isinstance(e, ast.Subscript):
            e, depth = deref(f, e.value), depth + 1
        elif isinstance(e, ast.Call) and isinstance(e.func, ast.Attribute) and e.func.attr in ("setdefault", "get") and e.args:
            e, depth = deref(f, e.func.value), depth + 1
        else:
            return None, 0


def token_ops(f):
    """(kind, map, key text, node) for id-level updates of the three token maps."""
    out = []
    for n in f.body_nodes():
        if isinstance(n, ast.Call) and isinstance(n.func, ast.Attribute) and n.args:
            m, depth = _root_map(f, n.func.value, TOKEN_MAPS)
            if m == "port_tokens" and depth == 1 and n.func.attr in ("add", "remove", "discard"):
                out.append(("add" if n.func.attr == "add" else "rem", m, ktext(f, n.args[0]), n))
            elif m in ("token_instances", "token_availability") and depth == 0 and n.func.attr == "pop":
                out.append(("rem", m, ktext(f, n.args[0]), n))
        elif isinstance(n, (ast.Assign, ast.AnnAssign)):
            for t in (n.targets if isinstance(n, ast.Assign) else [n.target]):
                if isinstance(t, ast.Subscript):
                    m = is_self_attr(deref(f, t.value), TOKEN_MAPS)
                    if m in ("token_instances", "token_availability"):
                        out.append(("add", m, ktext(f, t.slice), n))
        elif isinstance(n, ast.Delete):
            for t in n.targets:
                if isinstance(t, ast.Subscript):
                    m = is_self_attr(deref(f, t.value), TOKEN_MAPS)
                    if m in ("token_instances", "token_availability"):
                        out.append(("rem", m, ktext(f, t.slice), n))
    return out


def _anchor_ids(f, node):
    """CFG ids of the op, lifted to the outermost enclosing loop over self.port_tokens (the per-port sweep)."""
    best = None
    for lp in enclosing_loops(f, node, [x for x in loops_of(f) if not x.is_comp]):
        it = deref(f, lp.iter)
        if isinstance(it, ast.Call) and isinstance(it.func, ast.Attribute):
            it = it.func.value
        if is_self_attr(deref(f, it), ("port_tokens",)):
            best = lp
    return ids_at(f, best.node) if best is not None else ids_at(f, node)


def r4(ctx):
    prog = ctx.prog
    cls = prog.cls(MAPPER)
    groups = 0
    for f in cls.methods.values():
        tops = token_ops(f)
        if not tops:
            continue
        g = f.cfg
        keys = sorted({(k, key) for k, _m, key, _n in tops})
        for kind, key in keys:
            mine = [(m, n) for k, m, kk, n in tops if k == kind and kk == key]
            maps = {m for m, _ in mine}
            missing = [m for m in TOKEN_MAPS if m not in maps]
            groups += 1
            together = True
            if not missing:
                anchors = [_anchor_ids(f, n) for _m, n in mine]
                for a in anchors[1:]:
                    together = together and coexec(g, anchors[0], a)
            verb = "added to" if kind == "add" else "removed from"
            ctx.ob("R4", f"{f.name}: token id `{key}` is {verb} port_tokens, token_instances and token_availability together", not missing and together,
                   func=f, node=mine[0][1], instance=f"{f.name}:{kind}:{key}",
                   message=f"{f.name}: `{key}` is {verb} {sorted(maps)} but not {missing or 'on the same paths'}: the three token maps disagree about which tokens exist")
    ctx.require(groups >= 4, f"C20.R4: only {groups} token-map update groups found in GraphMapper")

    # replace_token: DAG replace(old, new) with old = removed id, new = added id
    f = prog.func(f"{MAPPER}.replace_token")
    tops = token_ops(f)
    rem = {k for kind, _m, k, _n in tops if kind == "rem"}
    add = {k for kind, _m, k, _n in tops if kind == "add"}
    calls = [c for c in f.calls() if any(q == f"{GRAPH}.replace" for q in prog.resolve_call(f, c))]
    ctx.require(len(calls) == 1, "C20.R4: replace_token no longer calls dag_tokens.replace exactly once")
    c = calls[0]
    a0 = ktext(f, c.args[0]) if len(c.args) > 0 else None
    a1 = ktext(f, c.args[1]) if len(c.args) > 1 else None
    for k in c.keywords:
        if k.arg == "old_node":
            a0 = ktext(f, k.value)
        if k.arg == "new_node":
            a1 = ktext(f, k.value)
    first = next((n for kind, _m, _k, n in tops), None)
    ok = rem == {a0} and add == {a1} and a0 != a1 and first is not None and coexec(f.cfg, ids_at(f, c), _anchor_ids(f, first))
    ctx.ob("R4", "replace_token: dag_tokens.replace(old, new) names the id removed from and the id added to the maps", ok, func=f, node=c,
           instance="replace_token:dag", message=f"dag_tokens.replace({a0}, {a1}) disagrees with the map updates (removed {sorted(rem)}, added {sorted(add)})")

    # move_token_to_root: ids come from promote_to_source(token_id); emptied ports are removed
    f = prog.func(f"{MAPPER}.move_token_to_root")
    tops = token_ops(f)
    rem_keys = {k for kind, _m, k, _n in tops if kind == "rem"}
    src_ok = False
    for lp in loops_of(f):
        if lp.is_comp or not isinstance(lp.target, ast.Name) or lp.target.id not in rem_keys:
            continue
        it, _ = strip_copy(f, lp.iter)
        if isinstance(it, ast.Call) and f"{DAG}.promote_to_source" in prog.resolve_call(f, it) and it.args and isinstance(it.args[0], ast.Name) and it.args[0].id in f.params:
            src_ok = True
    ctx.ob("R4", "move_token_to_root cleans the maps for every id returned by dag_tokens.promote_to_source(token_id)", src_ok, func=f, node=f.node,
           instance="move_token_to_root:source",
           message="the ids removed from the token maps are not those returned by promote_to_source(token_id)")
    g = f.cfg
    rp_ok = False
    for c in f.calls():
        if not (unparse(c.func) == "self.remove_port" and len(c.args) == 1 and isinstance(c.args[0], ast.Name)):
            continue
        lb = next((lp for lp in enclosing_loops(f, c, loops_of(f)) if lp.binds(c.args[0].id) != -1), None)
        if lb is None or not isinstance(lb.iter, ast.Name):
            continue
        coll = lb.iter.id
        for a in f.calls():
            if isinstance(a.func, ast.Attribute) and a.func.attr in ("add", "append") and isinstance(a.func.value, ast.Name) and a.func.value.id == coll and len(a.args) == 1:
                pk = ktext(f, a.args[0])
                for nid in ids_at(f, a):
                    for e, truth, _t in xguard_atoms(f, nid):
                        em = emptiness_atom(e, truth)
                        if em and em[1]:
                            m, depth = _root_map(f, em[0], ("port_tokens",))
                            d = deref(f, em[0])
                            if m and depth == 1 and isinstance(d, ast.Subscript) and ktext(f, d.slice) == pk:
                                rp_ok = True
    ctx.ob("R4", "move_token_to_root removes exactly the ports whose token set became empty", rp_ok, func=f, node=f.node, instance="move_token_to_root:ports",
           message="ports left without tokens are not removed (or ports are removed without the emptiness test): port_tokens and the dependency graph disagree")

    # remove_port: dependency graph + both port maps
    f = prog.func(f"{MAPPER}.remove_port")
    ctx.require(len([p for p in f.params if p != "self"]) >= 1, "C20.R4: remove_port lost its parameter")
    pn = [p for p in f.params if p != "self"][0]
    done = set()
    for c in f.calls():
        if isinstance(c.func, ast.Attribute) and c.args and ktext(f, c.args[0]) == pn:
            if c.func.attr == "pop" and is_self_attr(deref(f, c.func.value), PORT_MAPS):
                done.add(deref(f, c.func.value).attr)
            if any(q in (f"{GRAPH}.remove_node", f"{GRAPH}.remove_nodes") for q in prog.resolve_call(f, c)) and unparse(c.func.value) == "self.dcg_ports":
                done.add("dcg_ports")
    for n in f.body_nodes():
        if isinstance(n, ast.Delete):
            for t in n.targets:
                if isinstance(t, ast.Subscript) and is_self_attr(deref(f, t.value), PORT_MAPS) and ktext(f, t.slice) == pn:
                    done.add(deref(f, t.value).attr)
    noprune, hows = None, []
    for c in f.calls():
        if remover_callees(prog, f, c):
            # explicit argument or, when omitted, the callee's signature default
            pruning, how = prune_flag(prog, f, c)
            noprune = (pruning is False) and noprune is not False
            hows.append(f"`{unparse(c)}` {how}")
    ctx.ob("R4", "remove_port removes only this port from dcg_ports (no dead-end pruning)", bool(noprune), func=f, node=f.node, instance="remove_port:noprune",
           message="remove_port lets the dependency graph prune ancestor ports that stay in port_tokens/port_name_ids: the graph and the port maps disagree"
                   + (f" ({'; '.join(hows)})" if hows else ""))
    # sibling methods of GraphMapper that remove nodes from the port graph and drop the list of removed nodes
    for m in cls.methods.values():
        if m is f:
            continue
        for c in m.calls():
            if not remover_callees(prog, m, c) or not isinstance(enclosing_stmt(c), ast.Expr):
                continue
            recv = c.func.value if isinstance(c.func, ast.Attribute) else None
            if recv is None or not is_self_attr(deref(m, recv), ("dcg_ports",)):
                continue
            pruning, how = prune_flag(prog, m, c)
            ctx.ob("R4", f"{m.name}: `{unparse(c)[:60]}` discards the list of removed ports, so it must not prune", pruning is False, func=m, node=c,
                   instance=f"{m.name}:noprune:{ktext(m, c.args[0]) if c.args else ''}",
                   message=f"{m.name}: `{unparse(c)}` {how} and ignores the returned list: ancestor ports pruned from dcg_ports stay in port_tokens/port_name_ids")
    want = {"dcg_ports", *PORT_MAPS}
    ctx.ob("R4", "remove_port drops the port from dcg_ports, port_name_ids and port_tokens", done == want, func=f, node=f.node, instance="remove_port:all",
           message=f"remove_port forgets {sorted(want - done)}")

    # outsiders only read the maps
    names = set(TOKEN_MAPS) | {"port_name_ids", "dcg_ports", "dag_tokens"}
    by_func: dict[str, list] = {}
    for m in prog.modules.values():
        if not any(nm in m.source for nm in TOKEN_MAPS):
            continue
        for n in ast.walk(m.tree):
            if isinstance(n, ast.Attribute) and n.attr in TOKEN_MAPS + ("port_name_ids",):
                cl = prog.enclosing_cls(n)
                if cl is not None and cl.qualname == MAPPER:
                    continue
                fn = prog.enclosing_func(n)
                by_func.setdefault(fn.qualname if fn else m.name, []).append((fn, n))
    for owner, hits in sorted(by_func.items()):
        bad = [n for _f, n in hits if _is_write(n)]
        ctx.ob("R4", f"{owner} only reads GraphMapper's token maps", not bad, func=hits[0][0], qualname=owner, node=(bad[0] if bad else hits[0][1]),
               instance=f"{owner}:readonly", message=f"{owner} mutates `{unparse(bad[0]) if bad else ''}` outside GraphMapper: the lock-step update of the three maps is bypassed")


def _is_write(attr: ast.Attribute) -> bool:
    n = attr
    p = getattr(n, "_parent", None)
    while isinstance(p, ast.Subscript) and p.value is n:
        if isinstance(p.ctx, (ast.Store, ast.Del)):
            return True
        n, p = p, getattr(p, "_parent", None)
    if isinstance(attr.ctx, (ast.Store, ast.Del)):
        return True
    if isinstance(p, ast.Attribute) and p.value is n and p.attr in MUTATORS:
        pp = getattr(p, "_parent", None)
        if isinstance(pp, ast.Call) and pp.func is p:
            return True
    if isinstance(p, ast.AugAssign) and p.target is n:
        return True
    return False


# --------------------------------------------------------------------------- R5


def r5(ctx):
    prog = ctx.prog
    n = 0
    for f in graph_methods(prog):
        ops, _ = extract_ops(f)
        for lp in loops_of(f):
            if lp.is_comp:
                continue
            it, copied = strip_copy(f, lp.iter)
            ent = view_entry(f, it)
            whole = None
            if ent is None and query_entry(prog, f, it):
                # `for x in self.successors(n)`: the query method hands out a fresh copy of the entry
                n += 1
                ctx.ob("R5", f"{f.name}: loop over the copy of an adjacency set returned by {unparse(deref(f, it).func)}", True, func=f, node=lp.node,
                       instance=f"{f.name}:iter:{unparse(deref(f, it))}", trivial=True)
                continue
            if ent is None:
                base = it.func.value if isinstance(it, ast.Call) and isinstance(it.func, ast.Attribute) and it.func.attr in ("keys", "items", "values") else it
                whole = view_map(f, base)
                if whole is None:
                    continue
            n += 1
            if copied:
                ctx.ob("R5", f"{f.name}: loop over a copy of {unparse(it)}", True, func=f, node=lp.node, instance=f"{f.name}:iter:{unparse(it)}", trivial=True)
                continue
            if ent:
                view, key = ent[0], ktext(f, ent[1])
                bad = [o for o in ops if _inside(o.node, lp) and o.view == view and ((o.kind in ("add", "rem") and o.key == key) or (o.kind in ("del", "new", "copy") and o.key == key))]
            else:
                bad = [o for o in ops if _inside(o.node, lp) and o.view == whole and o.kind in ("del", "new", "copy")]
            ctx.ob("R5", f"{f.name}: the body of `for ... in {unparse(lp.iter)}` does not change the collection it iterates", not bad, func=f, node=lp.node,
                   instance=f"{f.name}:iter:{unparse(it)}",
                   message=f"`{unparse(bad[0].node) if bad else ''}` changes `{unparse(it)}` while the loop iterates it without a copy (RuntimeError: Set changed size during iteration / skipped elements)")
    # vacuity guard: the anchors of this rule are the loops of remove_nodes / promote_to_source; how many loops the other
    # methods need is not part of the clause (FLOORS counts the instances when nothing is reported)
    ctx.require(n >= 1, "C20.R5: no loop over an adjacency set found in the graph classes")


RULES = [("R1", r1), ("R2", r2), ("R3", r3), ("R4", r4), ("R5", r5)]
# R1: the 16 instances of the primitives (__init__ 1, _add_node 4, add 2, remove_nodes 7, promote_to_source 2); the 10 of
# `replace` are not part of the floor: a replace that is built on the primitives (remove_node(.., False) + add) has no
# elementwise update of its own left to pair, and must be decided (R3 replace clause), not refused
FLOORS = {"R1": 16, "R2": 16, "R3": 8, "R4": 8, "R5": 4}

G = GRAPH
_RN_TAIL = (
    "            for succ in self._successors[current]:\n                self._predecessors[succ].discard(current)\n"
    "            for pred in self._predecessors[current]:\n                self._successors[pred].discard(current)\n"
    "                if prune_dead_end and (not self._successors[pred].difference(stack)):\n                    stack.append(pred)\n"
    "            del self._successors[current]\n            del self._predecessors[current]\n        return removed_nodes\n"
)
_RN_TAIL_HELPER = (
    "            self._detach_successors(current)\n"
    "            for pred in self._predecessors[current]:\n                self._successors[pred].discard(current)\n"
    "                if prune_dead_end and (not self._successors[pred].difference(stack)):\n                    stack.append(pred)\n"
    "            del self._successors[current]\n            del self._predecessors[current]\n        return removed_nodes\n\n"
    "    def _detach_successors(self, n):\n        for s in self._successors[n]:\n            self._predecessors[s].discard(n)\n"
)
_RP_HEAD = (
    "self._add_node(new_node)\n    for succ in self._successors[old_node]:\n        self._successors[new_node].add(succ)\n"
    "        self._predecessors[succ].remove(old_node)\n        self._predecessors[succ].add(new_node)\n"
    "    for pred in self._predecessors[old_node]:\n        self._predecessors[new_node].add(pred)\n"
)
_RP_L1 = "    for succ in self._successors[old_node]:\n        self._predecessors[succ].remove(old_node)\n        self._predecessors[succ].add(new_node)\n"
_RP_L1_FULL = (
    "    for succ in self._successors[old_node]:\n        self._successors[new_node].add(succ)\n"
    "        self._predecessors[succ].remove(old_node)\n        self._predecessors[succ].add(new_node)\n"
)
_RP_L2_HEAD = "    for pred in self._predecessors[old_node]:\n"
# the whole rewiring part of replace, and replace rebuilt on the public primitives (snapshot, remove old_node, re-attach)
_RP_BODY = _RP_HEAD + (
    "        self._successors[pred].remove(old_node)\n        self._successors[pred].add(new_node)\n"
    "    del self._successors[old_node]\n    del self._predecessors[old_node]"
)


def _rp_rebuilt(removal, snap_s="self.successors(old_node)", snap_p="self.predecessors(old_node)"):
    return (
        f"self._add_node(new_node)\n    successors = {snap_s}\n    predecessors = {snap_p}\n    {removal}\n"
        "    for succ in successors:\n        self.add(new_node, succ)\n    for pred in predecessors:\n        self.add(pred, new_node)"
    )




def _cls(text):
    """Method-level text re-indented for a replacement in the text of the class."""
    return text.replace("\n", "\n    ")


_PS_BODY = (
    "    if node not in self._successors.keys():\n        return []\n    to_delete = []\n"
    "    for pred in list(self._predecessors[node]):\n        self._successors[pred].discard(node)\n        self._predecessors[node].discard(pred)\n"
    "        if not self._successors[pred]:\n            to_delete.append(pred)\n    return self.remove_nodes(to_delete)"
)
_PS_BODY_TEMPRET = (
    "    if node not in self._successors.keys():\n        _sf_ret = []\n        return _sf_ret\n    to_delete = []\n"
    "    for pred in list(self._predecessors[node]):\n        self._successors[pred].discard(node)\n        self._predecessors[node].discard(pred)\n"
    "        if not self._successors[pred]:\n            to_delete.append(pred)\n    _sf_ret = self.remove_nodes(to_delete)\n    return _sf_ret"
)
VARIANTS = [
    # ---- R1
    V("replace: both adjacency sets copied up front (self-loop leaves a stale predecessor snapshot)", FILE, f"{G}.replace", _RP_HEAD,
      "self._successors[new_node] = set(self._successors[old_node])\n    self._predecessors[new_node] = set(self._predecessors[old_node])\n" + _RP_L1 + _RP_L2_HEAD, "R1"),
    V("replace: predecessor set copied before the successors are rewired", FILE, f"{G}.replace", _RP_HEAD,
      "self._add_node(new_node)\n    self._predecessors[new_node] = self._predecessors[old_node].copy()\n" + _RP_L1_FULL + _RP_L2_HEAD, "R1"),
    V("replace: successor set copied, predecessor entries never told", FILE, f"{G}.replace", _RP_HEAD,
      "self._successors[new_node] = set(self._successors[old_node])\n    self._predecessors[new_node] = set()\n"
      "    for succ in self._successors[old_node]:\n        self._predecessors[succ].remove(old_node)\n" + _RP_L2_HEAD + "        self._predecessors[new_node].add(pred)\n", "R1"),
    V("replace: new entry aliases the old adjacency set", FILE, f"{G}.replace", "self._add_node(new_node)",
      "self._add_node(new_node)\n    self._successors[new_node] = self._successors[old_node]", "R1"),
    V("add: predecessor side dropped", FILE, f"{G}.add", "self._successors[u].add(v)\n        self._predecessors[v].add(u)", "self._successors[u].add(v)", "R1", control=True),
    V("add: mirrored with swapped roles", FILE, f"{G}.add", "self._predecessors[v].add(u)", "self._predecessors[u].add(v)", "R1"),
    V("_add_node: only successors entry", FILE, f"{G}._add_node", "self._successors[node] = set()\n        self._predecessors[node] = set()", "self._successors[node] = set()", "R1"),
    V("_add_node: guard dropped", FILE, f"{G}._add_node", "if node not in self._successors.keys():", "if True:", "R1"),
    V("remove_nodes: successor back references kept", FILE, f"{G}.remove_nodes",
      "for succ in self._successors[current]:\n            self._predecessors[succ].discard(current)\n        ", "", "R1"),
    V("remove_nodes: del of predecessors entry dropped", FILE, f"{G}.remove_nodes", "del self._successors[current]\n        del self._predecessors[current]", "del self._successors[current]", "R1"),
    V("remove_nodes: del under the prune flag only", FILE, f"{G}.remove_nodes", "del self._successors[current]\n        del self._predecessors[current]",
      "del self._successors[current]\n        if prune_dead_end:\n            del self._predecessors[current]", "R1"),
    V("remove_nodes: reported before the membership test", FILE, f"{G}.remove_nodes",
      "if (current := stack.pop()) not in self._successors.keys():\n            continue\n        removed_nodes.append(current)",
      "current = stack.pop()\n        removed_nodes.append(current)\n        if current not in self._successors.keys():\n            continue", "R1"),
    V("replace: new successor edge not mirrored", FILE, f"{G}.replace", "self._predecessors[succ].remove(old_node)\n        self._predecessors[succ].add(new_node)",
      "self._predecessors[succ].remove(old_node)", "R1"),
    V("replace: old entry kept in predecessors", FILE, f"{G}.replace", "del self._successors[old_node]\n    del self._predecessors[old_node]", "del self._successors[old_node]", "R1"),
    V("replace: stale predecessor entry of the successors kept", FILE, f"{G}.replace", "self._predecessors[succ].remove(old_node)\n        ", "", "R1"),
    V("replace: wrong variable in mirrored removal", FILE, f"{G}.replace", "self._successors[pred].remove(old_node)", "self._successors[pred].remove(new_node)", "R1"),
    V("promote: incoming edges kept in predecessor view", FILE, f"{DAG}.promote_to_source", "self._predecessors[node].discard(pred)\n        ", "", "R1"),
    # a mutation the pairing cannot read elementwise is a *finding* of R1 (the mirror cannot be established), not an analysis error
    V("bulk update of an adjacency set is reported as unpaired", FILE, f"{G}.add", "self._successors[u].add(v)", "self._successors[u].update({v})", "R1"),
    V("augmented union of an adjacency set is reported as unpaired", FILE, f"{G}.add", "self._successors[u].add(v)", "self._successors[u] |= {v}", "R1"),
    V("replace: adjacency map rebound wholesale outside __init__", FILE, f"{G}.replace", "del self._successors[old_node]",
      "self._successors = {k: s for k, s in self._successors.items() if k != old_node}", "R1"),
    V("replace: entry moved with pop() into the new key", FILE, f"{G}.replace", "self._add_node(new_node)",
      "self._successors[new_node] = self._successors.pop(old_node)\n    self._predecessors[new_node] = set()", "R1"),
    # ---- R2
    V("successors returns the internal set", FILE, f"{G}.successors", "return set(self._successors[node])", "return self._successors[node]", "R2", control=True),
    V("get_nodes returns the keys view", FILE, f"{G}.get_nodes", "return set(self._successors.keys())", "return self._successors.keys()", "R2"),
    V("predecessors returns the internal set through a local", FILE, f"{G}.predecessors", "return set(self._predecessors[node])", "res = self._predecessors[node]\n    return res", "R2"),
    V("external write to _successors", FILE, f"{MAPPER}.remove_port", "self.port_tokens.pop(port_name, None)",
      "self.port_tokens.pop(port_name, None)\n    self.dcg_ports._successors.pop(port_name, None)", "R2"),
    V("external reader of _predecessors (module function)", FILE, None, None, None, "R2",
      append="def _peek(graph, n):\n    return graph._predecessors[n]\n"),
    V("get_sources computed from the successor view", FILE, f"{DAG}.get_sources", "self._predecessors.items()", "self._successors.items()", "R2"),
    V("in_degree counts successors", FILE, f"{G}.in_degree", "self._predecessors.items()", "self._successors.items()", "R2"),
    # ---- R3
    V("remove_nodes: pruning without the emptiness test", FILE, f"{G}.remove_nodes", "if prune_dead_end and (not self._successors[pred].difference(stack)):", "if prune_dead_end:", "R3", control=True),
    V("remove_nodes: pruning regardless of the flag", FILE, f"{G}.remove_nodes", "if prune_dead_end and (not self._successors[pred].difference(stack)):",
      "if not self._successors[pred].difference(stack):", "R3"),
    V("remove_nodes: emptiness tested before the discard", FILE, f"{G}.remove_nodes",
      "self._successors[pred].discard(current)\n            if prune_dead_end and (not self._successors[pred].difference(stack)):\n                stack.append(pred)",
      "if prune_dead_end and (not self._successors[pred].difference(stack)):\n                stack.append(pred)\n            self._successors[pred].discard(current)", "R3"),
    V("remove_nodes: emptiness of the wrong set", FILE, f"{G}.remove_nodes", "not self._successors[pred].difference(stack)", "not self._successors[current].difference(stack)", "R3"),
    V("promote: inverted emptiness test", FILE, f"{DAG}.promote_to_source", "if not self._successors[pred]:", "if self._successors[pred]:", "R3"),
    V("promote: every predecessor deleted", FILE, f"{DAG}.promote_to_source", "if not self._successors[pred]:\n            to_delete.append(pred)", "to_delete.append(pred)", "R3"),
    V("promote: ancestors not pruned", FILE, f"{DAG}.promote_to_source", "return self.remove_nodes(to_delete)", "return self.remove_nodes(to_delete, prune_dead_end=False)", "R3"),
    V("promote: result of remove_nodes dropped", FILE, f"{DAG}.promote_to_source", "return self.remove_nodes(to_delete)", "self.remove_nodes(to_delete)\n    return to_delete", "R3"),
    V("replace: existing new_node merged", FILE, f"{G}.replace", "if new_node in self._successors.keys():", "if False:", "R3"),
    V("replace: absent old_node not ignored", FILE, f"{G}.replace", "if old_node not in self._successors.keys():\n        return\n    ", "", "R3"),
    V("remove_node: pruning flag not forwarded", FILE, f"{G}.remove_node", "return self.remove_nodes([node], prune_dead_end=prune_dead_end)", "return self.remove_nodes([node])", "R3"),
    # ---- R4
    V("remove_port: ancestors pruned from dcg_ports only", FILE, f"{MAPPER}.remove_port", "self.dcg_ports.remove_node(port_name, prune_dead_end=False)", "self.dcg_ports.remove_node(port_name)", "R4"),
    V("replace_token: old availability kept", FILE, f"{MAPPER}.replace_token", "self.token_availability.pop(old_token_id)\n    ", "", "R4", control=True),
    V("replace_token: new instance not stored", FILE, f"{MAPPER}.replace_token", "self.token_instances[token.persistent_id] = token\n    ", "", "R4"),
    V("replace_token: wrong id removed from the port", FILE, f"{MAPPER}.replace_token", "self.port_tokens[port_name].remove(old_token_id)", "self.port_tokens[port_name].remove(token.persistent_id)", "R4"),
    V("replace_token: DAG replace arguments swapped", FILE, f"{MAPPER}.replace_token", "self.dag_tokens.replace(old_token_id, token.persistent_id)", "self.dag_tokens.replace(token.persistent_id, old_token_id)", "R4"),
    V("move_token_to_root: instances of removed tokens kept", FILE, f"{MAPPER}.move_token_to_root", "self.token_instances.pop(removed_token_id, None)\n        ", "", "R4"),
    V("move_token_to_root: emptied ports kept", FILE, f"{MAPPER}.move_token_to_root", "for port_name in empty_ports:\n        self.remove_port(port_name)", "pass", "R4"),
    V("_update_token: availability not recorded", FILE, f"{MAPPER}._update_token", "self.token_availability[token.persistent_id] = is_available\n        ", "", "R4"),
    V("remove_port: port_name_ids entry kept", FILE, f"{MAPPER}.remove_port", "self.port_name_ids.pop(port_name, None)\n    ", "", "R4"),
    # ---- R5
    V("promote: iterating the live predecessor set", FILE, f"{DAG}.promote_to_source", "for pred in list(self._predecessors[node]):", "for pred in self._predecessors[node]:", "R5"),
    V("remove_nodes: default flipped to no pruning (promote_to_source relies on the default)", FILE, f"{G}.remove_nodes", "prune_dead_end: bool=True", "prune_dead_end: bool=False", "R3"),
    V("remove_nodes: default dropped from the signature promote_to_source relies on", FILE, f"{G}.remove_nodes", "prune_dead_end: bool=True", "prune_dead_end: bool", "R3"),
    V("promote: pruning switched off positionally through a temporary", FILE, f"{DAG}.promote_to_source", "return self.remove_nodes(to_delete)",
      "keep_ancestors = False\n    return self.remove_nodes(to_delete, keep_ancestors)", "R3"),
    # ---- replace only renames: no pruning removal (R3)
    V("replace rebuilt on remove_node()+add(): the default dead-end pruning eats the ancestors of the replaced node", FILE, f"{G}.replace", _RP_BODY,
      _rp_rebuilt("self.remove_node(old_node)"), "R3"),
    V("replace rebuilt on remove_nodes([old]) relying on the pruning default", FILE, f"{G}.replace", _RP_BODY, _rp_rebuilt("self.remove_nodes([old_node])"), "R3"),
    V("replace rebuilt on remove_node() with pruning switched on through a temporary", FILE, f"{G}.replace", _RP_BODY,
      _rp_rebuilt("clean = True\n    self.remove_node(old_node, clean)"), "R3"),
    V("replace: the old node is dropped by a helper method that prunes by default", FILE, G, _cls(_RP_BODY),
      _cls(_rp_rebuilt("self._drop(old_node)")) + "\n\n    def _drop(self, n):\n        if n in self._successors:\n            self.remove_node(n)", "R3"),
    V("replace: helper forwards a pruning flag that replace sets", FILE, G, _cls(_RP_BODY),
      _cls(_rp_rebuilt("self._drop(old_node, True)")) + "\n\n    def _drop(self, n, prune_dead_end=False):\n        self.remove_nodes([n], prune_dead_end)", "R3"),
    V("promote: temporary re-assigned before it is returned", FILE, f"{DAG}.promote_to_source", "return self.remove_nodes(to_delete)",
      "_sf_ret = self.remove_nodes(to_delete)\n    _sf_ret = to_delete\n    return _sf_ret", "R3"),
    V("promote: early-exit value returned on the late path (one temporary, two assignments)", FILE, f"{DAG}.promote_to_source", _PS_BODY,
      _PS_BODY_TEMPRET.replace("_sf_ret = self.remove_nodes(to_delete)\n    return _sf_ret", "self.remove_nodes(to_delete)\n    _sf_ret = []\n    return _sf_ret"), "R3"),
    V("successors leaks the internal set through a temporary assigned on two branches", FILE, f"{G}.successors", "return set(self._successors[node])",
      "if node in self._successors:\n        res = self._successors[node]\n        return res\n    res = set()\n    return res", "R2"),
    # ---- tests read through temporaries: a stale temporary is not a test of the collection
    V("move_token_to_root: port size measured before the token is removed from the port (stale temporary tested)", FILE, f"{MAPPER}.move_token_to_root",
      "if removed_token_id in token_list:\n                self.port_tokens[port_name].remove(removed_token_id)\n            if len(self.port_tokens[port_name]) == 0:",
      "_sf_l = len(self.port_tokens[port_name])\n            if removed_token_id in token_list:\n                self.port_tokens[port_name].remove(removed_token_id)\n            if _sf_l == 0:", "R4"),
    V("promote: successor count taken before the edge is dropped (stale temporary tested)", FILE, f"{DAG}.promote_to_source",
      "self._successors[pred].discard(node)\n        self._predecessors[node].discard(pred)\n        if not self._successors[pred]:",
      "_sf_n = len(self._successors[pred])\n        self._successors[pred].discard(node)\n        self._predecessors[node].discard(pred)\n        if _sf_n == 0:", "R3"),
    V("remove_nodes: temporary holding the emptiness of another node's successor set", FILE, f"{G}.remove_nodes",
      "if prune_dead_end and (not self._successors[pred].difference(stack)):",
      "_sf_l = len(self._successors[current].difference(stack))\n            if prune_dead_end and _sf_l == 0:", "R3"),
    V("benign: operand of the port emptiness test held in a temporary (`_sf_l = len(..); if _sf_l == 0`)", FILE, f"{MAPPER}.move_token_to_root",
      "if len(self.port_tokens[port_name]) == 0:", "_sf_l = len(self.port_tokens[port_name])\n            if _sf_l == 0:", None),
    V("benign: the whole port emptiness test held in a temporary, logging in between", FILE, f"{MAPPER}.move_token_to_root",
      "if len(self.port_tokens[port_name]) == 0:",
      "tokens_left = self.port_tokens[port_name]\n            drained = not tokens_left\n            logger.debug('checked')\n            if drained:", None),
    V("benign: promote tests the emptiness through two temporaries", FILE, f"{DAG}.promote_to_source", "if not self._successors[pred]:",
      "_sf_n = len(self._successors[pred])\n        _sf_dead = _sf_n == 0\n        if _sf_dead:", None),
    V("benign: remove_nodes tests the remaining successors through a temporary", FILE, f"{G}.remove_nodes",
      "if prune_dead_end and (not self._successors[pred].difference(stack)):",
      "_sf_l = len(self._successors[pred].difference(stack))\n            if prune_dead_end and _sf_l == 0:", None),
    V("benign: replace guards tested through temporaries", FILE, f"{G}.replace",
      "if old_node not in self._successors.keys():\n        return\n    if new_node in self._successors.keys():",
      "_sf_k = self._successors.keys()\n    _sf_absent = old_node not in _sf_k\n    if _sf_absent:\n        return\n    _sf_taken = new_node in self._successors\n    if _sf_taken:", None),
    V("benign: _add_node membership test through a temporary", FILE, f"{G}._add_node", "if node not in self._successors.keys():",
      "_sf_known = self._successors.keys()\n    if node not in _sf_known:", None),
    # ---- benign
    V("benign: every return through one temporary (`_sf_ret = []; return _sf_ret` ... `_sf_ret = self.remove_nodes(..); return _sf_ret`)", FILE,
      f"{DAG}.promote_to_source", _PS_BODY, _PS_BODY_TEMPRET, None),
    V("benign: a temporary that is overwritten with the result of remove_nodes before it is returned", FILE, f"{DAG}.promote_to_source",
      "return self.remove_nodes(to_delete)", "removed = []\n    removed = self.remove_nodes(to_delete)\n    return removed", None),
    V("benign: replace rebuilt on remove_node(prune_dead_end=False)+add() over snapshots taken by the query methods", FILE, f"{G}.replace", _RP_BODY,
      _rp_rebuilt("self.remove_node(old_node, prune_dead_end=False)"), None),
    V("benign: replace rebuilt on remove_nodes([old], False) through a helper that forwards the flag", FILE, G, _cls(_RP_BODY),
      _cls(_rp_rebuilt("self._drop(old_node, False)")) + "\n\n    def _drop(self, n, prune_dead_end=True):\n        self.remove_nodes([n], prune_dead_end)", None),
    V("benign: pruning flag made keyword-only (default still resolved from the signature)", FILE, f"{G}.remove_nodes", "nodes: MutableSequence[T], prune_dead_end: bool=True",
      "nodes: MutableSequence[T], *, prune_dead_end: bool=True", None),
    V("benign: promote passes the pruning flag explicitly", FILE, f"{DAG}.promote_to_source", "return self.remove_nodes(to_delete)", "return self.remove_nodes(to_delete, True)", None),
    V("benign: promote passes the flag by keyword through a temporary", FILE, f"{DAG}.promote_to_source", "return self.remove_nodes(to_delete)",
      "walk_up = True\n    return self.remove_nodes(to_delete, prune_dead_end=walk_up)", None),
    V("benign: remove_port passes the flag positionally", FILE, f"{MAPPER}.remove_port", "remove_node(port_name, prune_dead_end=False)", "remove_node(port_name, False)", None),
    V("benign: successor set of the new node initialised by a copy (nothing changes it before its mirroring loop)", FILE, f"{G}.replace", _RP_HEAD,
      "self._successors[new_node] = set(self._successors[old_node])\n    self._predecessors[new_node] = set()\n" + _RP_L1 + _RP_L2_HEAD + "        self._predecessors[new_node].add(pred)\n", None),
    V("benign: predecessor set copied after the successors were rewired", FILE, f"{G}.replace", _RP_HEAD,
      "self._add_node(new_node)\n" + _RP_L1_FULL + "    self._predecessors[new_node] = self._predecessors[old_node].copy()\n" + _RP_L2_HEAD, None),
    V("benign: edge insertion guarded by a read of the adjacency set (both halves under the same test)", FILE, f"{G}.add",
      "self._successors[u].add(v)\n        self._predecessors[v].add(u)",
      "if not self._successors[u].issuperset({v}):\n            self._successors[u].add(v)\n            self._predecessors[v].add(u)", None),
    V("benign: default of remove_node changed -- no caller in /repo omits the flag there (remove_port passes it explicitly, forwarding kept)", FILE, f"{G}.remove_node",
      "prune_dead_end: bool=True", "prune_dead_end: bool=False", None),
    V("benign: mirrored statements swapped", FILE, f"{G}.add", "self._successors[u].add(v)\n        self._predecessors[v].add(u)", "self._predecessors[v].add(u)\n        self._successors[u].add(v)", None),
    V("benign: remove <-> discard", FILE, f"{G}.replace", ".remove(old_node)", ".discard(old_node)", None, count=2),
    V("benign: rename loop variables", FILE, f"{G}.remove_nodes", "for succ in self._successors[current]:\n            self._predecessors[succ].discard(current)",
      "for child in self._successors[current]:\n            self._predecessors[child].discard(current)", None),
    V("benign: temporary for the entry set", FILE, f"{G}.add", "self._successors[u].add(v)", "out_edges = self._successors[u]\n        out_edges.add(v)", None),
    V("benign: logging between mirrored statements", FILE, f"{G}.remove_nodes", "del self._successors[current]\n        del self._predecessors[current]",
      "del self._successors[current]\n        logger.debug('removed')\n        del self._predecessors[current]", None),
    V("benign: dels swapped and emptiness via len()", FILE, f"{DAG}.promote_to_source", "if not self._successors[pred]:", "if len(self._successors[pred]) == 0:", None),
    V("benign: plain emptiness in remove_nodes", FILE, f"{G}.remove_nodes", "not self._successors[pred].difference(stack)", "len(self._successors[pred].difference(stack)) == 0", None),
    V("benign: replace_token statements reordered", FILE, f"{MAPPER}.replace_token", "self.token_availability.pop(old_token_id)\n    self.token_instances.pop(old_token_id)",
      "self.token_instances.pop(old_token_id)\n    self.token_availability.pop(old_token_id)", None),
    V("benign: successors via frozenset copy", FILE, f"{G}.successors", "return set(self._successors[node])", "result = frozenset(self._successors[node])\n    return result", None),
    V("benign: back-reference loop extracted into a helper method", FILE, G, _RN_TAIL, _RN_TAIL_HELPER, None),
    V("benign: walrus split into two statements", FILE, f"{G}.remove_nodes", "if (current := stack.pop()) not in self._successors.keys():\n            continue",
      "current = stack.pop()\n        if current not in self._successors:\n            continue", None),
    V("benign: pop instead of del", FILE, f"{G}.remove_nodes", "del self._successors[current]\n        del self._predecessors[current]",
      "self._successors.pop(current)\n        self._predecessors.pop(current)", None),
    V("benign: nested ifs for the pruning guard", FILE, f"{G}.remove_nodes", "if prune_dead_end and (not self._successors[pred].difference(stack)):\n                stack.append(pred)",
      "if prune_dead_end:\n                if not self._successors[pred].difference(stack):\n                    stack.append(pred)", None),
    V("benign: contains() used for the replace guard", FILE, f"{G}.replace", "if new_node in self._successors.keys():", "if self.contains(new_node):", None),
]
