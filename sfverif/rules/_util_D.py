"""Helpers shared by the rule modules of group D (C16-C19: recovery).

Everything here works on the parsed program only (ast / CFG / def-use / class table).
"""

from __future__ import annotations

import ast
from typing import Callable, Iterable, Iterator

from ..cfg import ALL, NORMAL
from ..dataflow import defs_of, origins
from ..model import AnalysisError, Func, Program, dotted, parent, unparse, walk_no_nested

REC = "streamflow.core.recovery"
FM = "streamflow.recovery.failure_manager"
RFM = f"{FM}.RollbackFailureManager"
DFM = f"{FM}.DummyFailureManager"
UTILS = "streamflow.recovery.utils"
STATUS = "streamflow.core.workflow.Status"
REQ = f"{REC}.RecoveryRequest"
EXC = "streamflow.core.exception"

REC_FILE = "streamflow/core/recovery.py"
FM_FILE = "streamflow/recovery/failure_manager.py"
UTILS_FILE = "streamflow/recovery/utils.py"
STEP_FILE = "streamflow/workflow/step.py"
TOKEN_FILE = "streamflow/workflow/token.py"


class Uninterpretable(AnalysisError):
    """The construct exists but has a shape the rule cannot evaluate."""


# ------------------------------------------------------------------ expressions


def strip(expr: ast.AST) -> ast.AST:
    """Remove wrappers that do not change the denoted value: await, typing.cast, walrus."""
    while True:
        if isinstance(expr, ast.Await):
            expr = expr.value
        elif isinstance(expr, ast.NamedExpr):
            expr = expr.value
        elif (
            isinstance(expr, ast.Call)
            and (dotted(expr.func) or "").split(".")[-1] == "cast"
            and len(expr.args) == 2
        ):
            expr = expr.args[1]
        else:
            return expr


def is_builtin_call(prog: Program, f: Func, call: ast.AST, name: str) -> bool:
    """`call` invokes the builtin `name` (not shadowed by a module-level / imported / local name)."""
    if not (isinstance(call, ast.Call) and isinstance(call.func, ast.Name) and call.func.id == name):
        return False
    if name in f.module.imports or prog._is_local(f, name):
        return False
    q = f"{f.module.name}.{name}"
    return q not in prog.functions and q not in prog.classes


def resolves_to(prog: Program, f: Func, call: ast.AST, names: Iterable[str], *, attr_fallback: bool = True) -> bool:
    """`call` may invoke one of `names` (qualified names).  When the receiver cannot be typed the
    attribute name alone decides (`?.restore` matches `...Step.restore`)."""
    call = strip(call) if not isinstance(call, ast.Call) else call
    if not isinstance(call, ast.Call):
        return False
    names = list(names)
    for q in prog.resolve_call(f, call):
        if q in names:
            return True
        if attr_fallback and q.startswith("?."):
            if any(n.rpartition(".")[2] == q[2:] for n in names):
                return True
    return False


def calls_in(f: Func, pred: Callable[[ast.Call], bool]) -> list[ast.Call]:
    return [c for c in f.calls() if pred(c)]


def node_ids(g, expr: ast.AST) -> list[int]:
    return g.node_containing(expr)


def is_awaited(call: ast.AST) -> bool:
    return isinstance(parent(call), ast.Await)


def bind_args(callee: ast.FunctionDef | ast.AsyncFunctionDef, call: ast.Call, *, bound: bool = True) -> dict[str, ast.AST] | None:
    """Map parameter names of `callee` to the argument expressions of `call`
    (`bound`: the first parameter is the receiver).  None when the call uses * / ** forwarding."""
    a = callee.args
    pos = [x.arg for x in a.posonlyargs + a.args]
    if bound and pos and pos[0] in ("self", "cls"):
        pos = pos[1:]
    out: dict[str, ast.AST] = {}
    for i, arg in enumerate(call.args):
        if isinstance(arg, ast.Starred):
            return None
        if i < len(pos):
            out[pos[i]] = arg
    for k in call.keywords:
        if k.arg is None:
            return None
        out[k.arg] = k.value
    return out


def param_of_type(prog: Program, f: Func, cls_qualname: str) -> str | None:
    """Name of the (first) parameter of `f` annotated with class `cls_qualname`."""
    for p in f.params:
        t = prog.ann_to_class(f.module, f.param_annotation(p))
        if t == cls_qualname:
            return p
    return None


def expand(f: Func, expr: ast.AST, depth: int = 3) -> list[ast.AST]:
    """`expr` and what its local names denote (def-use, all reaching definitions)."""
    out = []
    for o in origins(f, expr, depth):
        out.append(o)
    return out


def mentions(f: Func, expr: ast.AST, pred: Callable[[ast.AST], bool], depth: int = 2, _seen: frozenset = frozenset()) -> bool:
    """Some sub-expression of `expr` satisfies `pred`; local names are followed through their
    plain assignments (depth-bounded)."""
    for n in [expr, *walk_no_nested(expr)]:
        if pred(n):
            return True
        if depth > 0 and isinstance(n, ast.Name) and isinstance(n.ctx, ast.Load) and n.id not in _seen:
            for d in defs_of(f, n.id):
                if d.kind in ("assign", "walrus") and d.value is not None:
                    if mentions(f, d.value, pred, depth - 1, _seen | {n.id}):
                        return True
    return False


def same_value(f: Func, a: ast.AST, b: ast.AST) -> bool:
    """Two expressions denote the same value as far as def-use can tell: equal text after
    replacing single-assignment locals by their definitions."""
    ta = {unparse(strip(o)) for o in origins(f, a)} | {unparse(a)}
    tb = {unparse(strip(o)) for o in origins(f, b)} | {unparse(b)}
    return bool(ta & tb)


# ------------------------------------------------------------------ branch facts


def implied(expr: ast.AST, truth: bool, out: list | None = None) -> list[tuple[ast.AST, bool]]:
    """Sub-expressions whose truth value is forced when `expr` evaluates to `truth`."""
    out = [] if out is None else out
    out.append((expr, truth))
    if isinstance(expr, ast.UnaryOp) and isinstance(expr.op, ast.Not):
        implied(expr.operand, not truth, out)
    elif isinstance(expr, ast.BoolOp):
        if (isinstance(expr.op, ast.And) and truth) or (isinstance(expr.op, ast.Or) and not truth) or len(expr.values) == 1:
            for v in expr.values:
                implied(v, truth, out)
    elif isinstance(expr, (ast.NamedExpr, ast.Await)):
        implied(expr.value, truth, out)
    elif isinstance(expr, ast.Compare) and len(expr.ops) == 1:
        op, l, r = expr.ops[0], expr.left, expr.comparators[0]
        for x, c in ((l, r), (r, l)):
            if isinstance(c, ast.Constant) and isinstance(c.value, bool):
                # (x is bool-valued at every use of this helper)
                if isinstance(op, (ast.Is, ast.Eq)):
                    implied(x, c.value if truth else (not c.value), out)
                elif isinstance(op, (ast.IsNot, ast.NotEq)):
                    implied(x, (not c.value) if truth else c.value, out)
    return out


def implies_empty(prog: Program, f: Func, test: ast.AST, truth: bool, is_coll: Callable[[ast.AST], bool]) -> bool:
    """The outcome `truth` of `test` forces the collection recognised by `is_coll` to be empty."""
    for n, v in implied(test, truth):
        if is_coll(strip(n)) or (isinstance(n, ast.NamedExpr) and is_coll(n)):
            if v is False:
                return True
        if is_builtin_call(prog, f, n, "len") and len(n.args) == 1 and _coll(n.args[0], is_coll) and v is False:
            return True
        if isinstance(n, ast.Compare) and len(n.ops) == 1:
            op, l, r = n.ops[0], n.left, n.comparators[0]
            for x, c, flip in ((l, r, False), (r, l, True)):
                if is_builtin_call(prog, f, x, "len") and len(x.args) == 1 and _coll(x.args[0], is_coll) and isinstance(c, ast.Constant):
                    k = c.value
                    o = type(op)
                    if flip:
                        o = {ast.Lt: ast.Gt, ast.Gt: ast.Lt, ast.LtE: ast.GtE, ast.GtE: ast.LtE}.get(o, o)
                    # len == 0 / len <= 0 / len < 1 true ; len != 0 / len > 0 / len >= 1 false
                    if v and ((o is ast.Eq and k == 0) or (o is ast.LtE and k == 0) or (o is ast.Lt and k == 1)):
                        return True
                    if not v and ((o is ast.NotEq and k == 0) or (o is ast.Gt and k == 0) or (o is ast.GtE and k == 1)):
                        return True
    return False


def _coll(e: ast.AST, is_coll) -> bool:
    return is_coll(e) or is_coll(strip(e))


def succ(g, nid: int, kind: str) -> list[int]:
    return [b for b, k in g.succ[nid] if k == kind]


def branch_edges(g, test_node, pred: Callable[[ast.AST, bool], bool]) -> list[str]:
    """Outcomes ('t'/'f') of a CFG test node that force some sub-expression/value pair accepted by `pred`."""
    out = []
    for kind, truth in (("t", True), ("f", False)):
        if any(pred(n, v) for n, v in implied(test_node.ast, truth)):
            out.append(kind)
    return out


def region(g, test_id: int, kind: str, kinds=NORMAL) -> set[int]:
    """Nodes reachable after taking outcome `kind` of test `test_id` without re-evaluating the test."""
    s = succ(g, test_id, kind)
    return g.reach(s, avoid=[test_id], kinds=kinds, include_src=True) if s else set()


def returns_of(g) -> list:
    return [n for n in g.nodes.values() if n.kind == "return"]


def const_of(expr: ast.AST | None):
    """(True, value) for a literal constant expression."""
    if expr is None:
        return True, None
    if isinstance(expr, ast.Constant):
        return True, expr.value
    return False, None


# ------------------------------------------------------------------ P10: finite-domain folding over Status


def status_members(prog: Program) -> list[str]:
    c = prog.cls(STATUS)
    out = []
    for n in c.node.body:
        if isinstance(n, ast.Assign) and len(n.targets) == 1 and isinstance(n.targets[0], ast.Name):
            out.append(n.targets[0].id)
    if len(out) < 8:
        raise AnalysisError(f"Status enum has only {len(out)} members: cannot tabulate")
    return out


def _status_const(prog: Program, f: Func, e: ast.AST) -> str | None:
    if isinstance(e, ast.Attribute) and prog.resolve_expr(f.module, e.value) == STATUS:
        return e.attr
    return None


def fold_status(prog: Program, f: Func, expr: ast.AST, is_var: Callable[[ast.AST], bool], member: str) -> bool:
    """Value of boolean `expr` when the status variable (recognised by `is_var`) equals Status.<member>.
    Only ==, !=, is, is not, in, not in, and, or, not over Status constants are folded."""
    expr = strip(expr) if isinstance(expr, ast.Await) else expr
    if isinstance(expr, ast.BoolOp):
        vals = [fold_status(prog, f, v, is_var, member) for v in expr.values]
        return all(vals) if isinstance(expr.op, ast.And) else any(vals)
    if isinstance(expr, ast.UnaryOp) and isinstance(expr.op, ast.Not):
        return not fold_status(prog, f, expr.operand, is_var, member)
    if isinstance(expr, ast.Constant) and isinstance(expr.value, bool):
        return expr.value
    if isinstance(expr, ast.Compare) and len(expr.ops) == 1:
        op, l, r = expr.ops[0], expr.left, expr.comparators[0]
        if isinstance(op, (ast.In, ast.NotIn)) and is_var(l):
            if isinstance(r, ast.Name):
                ds = defs_of(f, r.id)
                if len(ds) == 1 and ds[0].kind == "assign":
                    r = ds[0].value
            if isinstance(r, (ast.Tuple, ast.List, ast.Set)):
                ms = [_status_const(prog, f, e) for e in r.elts]
                if all(m is not None for m in ms):
                    res = member in ms
                    return res if isinstance(op, ast.In) else not res
        if isinstance(op, (ast.Eq, ast.Is, ast.NotEq, ast.IsNot)):
            for x, c in ((l, r), (r, l)):
                m = _status_const(prog, f, c)
                if is_var(x) and m is not None:
                    res = member == m
                    return res if isinstance(op, (ast.Eq, ast.Is)) else not res
    raise Uninterpretable(f"cannot fold `{unparse(expr)}` over Status in {f.qualname}")


def recovering_statuses(prog: Program, f: Func) -> set[str]:
    """Set of Status members for which `is_recovering` implementation `f` returns True."""
    rets = [n for n in f.body_nodes() if isinstance(n, ast.Return)]
    if len(rets) != 1 or rets[0].value is None:
        raise Uninterpretable(f"{f.qualname}: expected a single `return <predicate over status>`")
    expr = rets[0].value
    for o in origins(f, expr):
        expr = o
        break

    def is_var(e: ast.AST) -> bool:
        e = strip(e)
        if isinstance(e, ast.Name):
            return any(is_var(d.value) for d in defs_of(f, e.id) if d.kind in ("assign", "walrus") and d.value is not None)
        return isinstance(e, ast.Attribute) and e.attr == "status" and _is_allocation(e.value)

    def _is_allocation(e: ast.AST) -> bool:
        e = strip(e)
        if isinstance(e, ast.Name):
            return any(_is_allocation(d.value) for d in defs_of(f, e.id) if d.kind in ("assign", "walrus") and d.value is not None)
        return isinstance(e, ast.Call) and isinstance(e.func, ast.Attribute) and e.func.attr == "get_allocation"

    return {m for m in status_members(prog) if fold_status(prog, f, expr, is_var, m)}


# ------------------------------------------------------------------ P8: who-may-write an attribute

MUTATORS = {"append", "add", "pop", "discard", "remove", "clear", "setdefault", "update", "extend", "insert", "popitem", "__setitem__", "__delitem__"}


def attr_writes(prog: Program, attr: str) -> Iterator[tuple[Func, ast.AST, ast.AST, str]]:
    """Whole-program stores to `<recv>.<attr>`: (function, statement/call, receiver expr, kind)
    kind: 'assign' (attribute rebound), 'item' (X.attr[k] = / del), 'mut' (X.attr.<mutator>()), 'setattr'."""
    needle = "." + attr
    for m in prog.modules.values():
        if needle not in m.source and f'"{attr}"' not in m.source and f"'{attr}'" not in m.source:
            continue
        for f in prog.all_funcs():
            if f.module is not m:
                continue
            for n in f.body_nodes():
                tgts: list[ast.AST] = []
                if isinstance(n, ast.Assign):
                    tgts = list(n.targets)
                elif isinstance(n, (ast.AugAssign, ast.AnnAssign)):
                    if isinstance(n, ast.AnnAssign) and n.value is None and not isinstance(n.target, ast.Attribute):
                        continue
                    tgts = [n.target]
                elif isinstance(n, ast.Delete):
                    tgts = list(n.targets)
                elif isinstance(n, (ast.For, ast.AsyncFor)):
                    tgts = [n.target]
                elif isinstance(n, ast.Call):
                    fn = n.func
                    if isinstance(fn, ast.Attribute) and fn.attr in MUTATORS and isinstance(fn.value, ast.Attribute) and fn.value.attr == attr:
                        yield f, n, fn.value.value, "mut"
                    elif isinstance(fn, ast.Name) and fn.id in ("setattr", "delattr") and len(n.args) >= 2 and isinstance(n.args[1], ast.Constant) and n.args[1].value == attr:
                        yield f, n, n.args[0], "setattr"
                    continue
                flat: list[ast.AST] = []
                while tgts:
                    t = tgts.pop()
                    if isinstance(t, (ast.Tuple, ast.List)):
                        tgts.extend(t.elts)
                    elif isinstance(t, ast.Starred):
                        tgts.append(t.value)
                    else:
                        flat.append(t)
                for t in flat:
                    if isinstance(t, ast.Attribute) and t.attr == attr:
                        yield f, n, t.value, "assign"
                    elif isinstance(t, ast.Subscript) and isinstance(t.value, ast.Attribute) and t.value.attr == attr:
                        yield f, n, t.value.value, "item"


def receiver_may_be(prog: Program, f: Func, recv: ast.AST, cls_qualname: str) -> bool:
    """False only when the receiver's static class is known and unrelated to `cls_qualname`."""
    t = prog.type_of(f, recv)
    if t is None or t not in prog.classes:
        return True
    return prog.is_subclass(t, cls_qualname) or prog.is_subclass(cls_qualname, t)


# ------------------------------------------------------------------ exception classes

BUILTIN_BASES = {
    "BaseException": [],
    "Exception": ["BaseException"],
    "CancelledError": ["BaseException"],
    "KeyboardInterrupt": ["BaseException"],
    "SystemExit": ["BaseException"],
    "GeneratorExit": ["BaseException"],
    "ValueError": ["Exception", "BaseException"],
    "KeyError": ["LookupError", "Exception", "BaseException"],
    "RuntimeError": ["Exception", "BaseException"],
}


def exc_ancestors(prog: Program, name: str) -> list[str]:
    """Simple names of `name` and all its base classes (repo classes through the class table)."""
    if name in BUILTIN_BASES:
        return [name, *BUILTIN_BASES[name]]
    q = f"{EXC}.{name}"
    if q in prog.classes:
        out = []
        for k in prog.mro(q):
            s = k.rpartition(".")[2]
            out.append(s)
            if s in BUILTIN_BASES:
                out.extend(BUILTIN_BASES[s])
        return out
    raise Uninterpretable(f"unknown exception class {name}")


def handler_names(h: ast.ExceptHandler) -> list[str] | None:
    if h.type is None:
        return None
    ts = h.type.elts if isinstance(h.type, ast.Tuple) else [h.type]
    return [(dotted(t) or unparse(t)).split(".")[-1] for t in ts]


def first_handler(prog: Program, tr: ast.Try, exc_name: str) -> ast.ExceptHandler | None:
    anc = exc_ancestors(prog, exc_name)
    for h in tr.handlers:
        ns = handler_names(h)
        if ns is None or any(n in anc for n in ns):
            return h
    return None


def handler_region(g, h: ast.ExceptHandler, kinds=NORMAL) -> set[int]:
    ids = g.ids_of(h)
    return g.reach(ids, kinds=kinds, include_src=True)


__all__ = [n for n in dir() if not n.startswith("__")]
_ = (ALL,)
