"""Helpers shared by the rule modules of group D (C16-C19: recovery).

Everything here works on the parsed program only (ast / CFG / def-use / class table).
"""

from __future__ import annotations

import ast
from typing import Callable, Iterable, Iterator

from ..cfg import NORMAL
from ..dataflow import defs_of, origins
from ..model import AnalysisError, Func, Program, dotted, parent, unparse, walk_no_nested

REC = "streamflow.core.recovery"
FM = "streamflow.recovery.failure_manager"
RFM = f"{FM}.RollbackFailureManager"
DFM = f"{FM}.DummyFailureManager"
UTILS = "streamflow.recovery.utils"
STATUS = "streamflow.core.workflow.Status"
REQ = f"{REC}.RecoveryRequest"
EXC = "streamflow.core.exception"

REC_FILE = "streamflow/core/recovery.py"
FM_FILE = "streamflow/recovery/failure_manager.py"
UTILS_FILE = "streamflow/recovery/utils.py"
STEP_FILE = "streamflow/workflow/step.py"
TOKEN_FILE = "streamflow/workflow/token.py"


class Uninterpretable(AnalysisError):
    """The construct exists but has a shape the rule cannot evaluate."""


# ------------------------------------------------------------------ expressions


def strip(expr: ast.AST) -> ast.AST:
    """Remove wrappers that do not change the denoted value: await, typing.cast, walrus."""
    while True:
        if isinstance(expr, ast.Await):
            expr = expr.value
        elif isinstance(expr, ast.NamedExpr):
            expr = expr.value
        elif (
            isinstance(expr, ast.Call)
            and (dotted(expr.func) or "").split(".")[-1] == "cast"
            and len(expr.args) == 2
        ):
            expr = expr.args[1]
        else:
            return expr


def is_builtin_call(prog: Program, f: Func, call: ast.AST, name: str) -> bool:
    """`call` invokes the builtin `name` (not shadowed by a module-level / imported / local name)."""
    if not (isinstance(call, ast.Call) and isinstance(call.func, ast.Name) and call.func.id == name):
        return False
    if name in f.module.imports or prog._is_local(f, name):
        return False
    q = f"{f.module.name}.{name}"
    return q not in prog.functions and q not in prog.classes


def rcall(prog: Program, f: Func, call: ast.Call, fanout: bool = True) -> list[str]:
    """Program.resolve_call, memoised per program (rules ask about the same call sites many times)."""
    memo = getattr(prog, "_d_rcall", None)
    if memo is None:
        memo = prog._d_rcall = {}  # type: ignore[attr-defined]
    key = (f.qualname, id(call), fanout)
    r = memo.get(key)
    if r is None:
        r = memo[key] = prog.resolve_call(f, call, fanout=fanout)
    return r


def resolves_to(prog: Program, f: Func, call: ast.AST, names: Iterable[str], *, attr_fallback: bool = True) -> bool:
    """`call` may invoke one of `names` (qualified names).  When the receiver cannot be typed the
    attribute name alone decides (`?.restore` matches `...Step.restore`)."""
    call = strip(call) if not isinstance(call, ast.Call) else call
    if not isinstance(call, ast.Call):
        return False
    names = list(names)
    for q in rcall(prog, f, call):
        if q in names:
            return True
        if attr_fallback and q.startswith("?."):
            if any(n.rpartition(".")[2] == q[2:] for n in names):
                return True
    return False


def is_awaited(call: ast.AST) -> bool:
    return isinstance(parent(call), ast.Await)


def bind_args(callee: ast.FunctionDef | ast.AsyncFunctionDef, call: ast.Call, *, bound: bool = True) -> dict[str, ast.AST] | None:
    """Map parameter names of `callee` to the argument expressions of `call`
    (`bound`: the first parameter is the receiver).  None when the call uses * / ** forwarding."""
    a = callee.args
    pos = [x.arg for x in a.posonlyargs + a.args]
    if bound and pos and pos[0] in ("self", "cls"):
        pos = pos[1:]
    out: dict[str, ast.AST] = {}
    for i, arg in enumerate(call.args):
        if isinstance(arg, ast.Starred):
            return None
        if i < len(pos):
            out[pos[i]] = arg
    for k in call.keywords:
        if k.arg is None:
            return None
        out[k.arg] = k.value
    return out


def param_of_type(prog: Program, f: Func, cls_qualname: str) -> str | None:
    """Name of the (first) parameter of `f` annotated with class `cls_qualname`."""
    for p in f.params:
        t = prog.ann_to_class(f.module, f.param_annotation(p))
        if t == cls_qualname:
            return p
    return None


def mentions(f: Func, expr: ast.AST, pred: Callable[[ast.AST], bool], depth: int = 2, _seen: frozenset = frozenset()) -> bool:
    """Some sub-expression of `expr` satisfies `pred`; local names are followed through their
    plain assignments (depth-bounded)."""
    for n in [expr, *walk_no_nested(expr)]:
        if pred(n):
            return True
        if depth > 0 and isinstance(n, ast.Name) and isinstance(n.ctx, ast.Load) and n.id not in _seen:
            for d in defs_of(f, n.id):
                if d.kind in ("assign", "walrus") and d.value is not None:
                    if mentions(f, d.value, pred, depth - 1, _seen | {n.id}):
                        return True
    return False


def same_value(f: Func, a: ast.AST, b: ast.AST) -> bool:
    """Two expressions denote the same value as far as def-use can tell: equal text after
    replacing single-assignment locals by their definitions."""
    ta = {unparse(strip(o)) for o in origins(f, a)} | {unparse(a)}
    tb = {unparse(strip(o)) for o in origins(f, b)} | {unparse(b)}
    return bool(ta & tb)


def returned_exprs(f: Func, ret: ast.Return, depth: int = 3, with_stmt: bool = False) -> list:
    """The expressions a `return` statement may yield: its value, or - when the value is a bare local whose
    definitions reaching the statement (flow-sensitive) are all plain whole assignments - the assigned expressions
    (`tmp = <expr>; return tmp` reads like `return <expr>`).  Anything else is a leaf.  `with_stmt`: pairs
    (expression, statement that evaluates it)."""
    from ..dataflow import reaching_defs

    def go(e: ast.AST, at: ast.AST, d: int, seen: frozenset) -> list:
        if isinstance(e, ast.Name) and d > 0 and e.id not in seen:
            ds = reaching_defs(f, e.id, at)
            if ds and all(x.kind == "assign" and x.index is None and x.value is not None and x.stmt is not None for x in ds):
                out: list = []
                for x in ds:
                    out.extend(go(x.value, x.stmt, d - 1, seen | {e.id}))
                return out
        return [(e, at)]

    res = go(ret.value, ret, depth, frozenset()) if ret.value is not None else []
    return res if with_stmt else [e for e, _ in res]


# ------------------------------------------------------------------ branch facts


def implied(expr: ast.AST, truth: bool, out: list | None = None) -> list[tuple[ast.AST, bool]]:
    """Sub-expressions whose truth value is forced when `expr` evaluates to `truth`."""
    out = [] if out is None else out
    out.append((expr, truth))
    if isinstance(expr, ast.UnaryOp) and isinstance(expr.op, ast.Not):
        implied(expr.operand, not truth, out)
    elif isinstance(expr, ast.BoolOp):
        if (isinstance(expr.op, ast.And) and truth) or (isinstance(expr.op, ast.Or) and not truth) or len(expr.values) == 1:
            for v in expr.values:
                implied(v, truth, out)
    elif isinstance(expr, (ast.NamedExpr, ast.Await)):
        implied(expr.value, truth, out)
    elif isinstance(expr, ast.Compare) and len(expr.ops) == 1:
        op, l, r = expr.ops[0], expr.left, expr.comparators[0]
        for x, c in ((l, r), (r, l)):
            if isinstance(c, ast.Constant) and isinstance(c.value, bool):
                # (x is bool-valued at every use of this helper)
                if isinstance(op, (ast.Is, ast.Eq)):
                    implied(x, c.value if truth else (not c.value), out)
                elif isinstance(op, (ast.IsNot, ast.NotEq)):
                    implied(x, (not c.value) if truth else c.value, out)
    return out


def implies_empty(prog: Program, f: Func, test: ast.AST, truth: bool, is_coll: Callable[[ast.AST], bool]) -> bool:
    """The outcome `truth` of `test` forces the collection recognised by `is_coll` to be empty."""
    for n, v in implied(test, truth):
        if is_coll(strip(n)) or (isinstance(n, ast.NamedExpr) and is_coll(n)):
            if v is False:
                return True
        if is_builtin_call(prog, f, n, "len") and len(n.args) == 1 and _coll(n.args[0], is_coll) and v is False:
            return True
        if isinstance(n, ast.Compare) and len(n.ops) == 1:
            op, l, r = n.ops[0], n.left, n.comparators[0]
            for x, c, flip in ((l, r, False), (r, l, True)):
                if is_builtin_call(prog, f, x, "len") and len(x.args) == 1 and _coll(x.args[0], is_coll) and isinstance(c, ast.Constant):
                    k = c.value
                    o = type(op)
                    if flip:
                        o = {ast.Lt: ast.Gt, ast.Gt: ast.Lt, ast.LtE: ast.GtE, ast.GtE: ast.LtE}.get(o, o)
                    # len == 0 / len <= 0 / len < 1 true ; len != 0 / len > 0 / len >= 1 false
                    if v and ((o is ast.Eq and k == 0) or (o is ast.LtE and k == 0) or (o is ast.Lt and k == 1)):
                        return True
                    if not v and ((o is ast.NotEq and k == 0) or (o is ast.Gt and k == 0) or (o is ast.GtE and k == 1)):
                        return True
    return False


def _coll(e: ast.AST, is_coll) -> bool:
    return is_coll(e) or is_coll(strip(e))


def succ(g, nid: int, kind: str) -> list[int]:
    return [b for b, k in g.succ[nid] if k == kind]


def branch_edges(g, test_node, pred: Callable[[ast.AST, bool], bool]) -> list[str]:
    """Outcomes ('t'/'f') of a CFG test node that force some sub-expression/value pair accepted by `pred`."""
    out = []
    for kind, truth in (("t", True), ("f", False)):
        if any(pred(n, v) for n, v in implied(test_node.ast, truth)):
            out.append(kind)
    return out


def region(g, test_id: int, kind: str, kinds=NORMAL) -> set[int]:
    """Nodes reachable after taking outcome `kind` of test `test_id` without re-evaluating the test."""
    s = succ(g, test_id, kind)
    return g.reach(s, avoid=[test_id], kinds=kinds, include_src=True) if s else set()


def returns_of(g) -> list:
    return [n for n in g.nodes.values() if n.kind == "return"]


def const_of(expr: ast.AST | None):
    """(True, value) for a literal constant expression."""
    if expr is None:
        return True, None
    if isinstance(expr, ast.Constant):
        return True, expr.value
    return False, None


# ------------------------------------------------------------------ P10: finite-domain folding over Status


def status_members(prog: Program) -> list[str]:
    c = prog.cls(STATUS)
    out = []
    for n in c.node.body:
        if isinstance(n, ast.Assign) and len(n.targets) == 1 and isinstance(n.targets[0], ast.Name):
            out.append(n.targets[0].id)
    if len(out) < 8:
        raise AnalysisError(f"Status enum has only {len(out)} members: cannot tabulate")
    return out


def _status_const(prog: Program, f: Func, e: ast.AST) -> str | None:
    if isinstance(e, ast.Attribute) and prog.resolve_expr(f.module, e.value) == STATUS:
        return e.attr
    return None


def fold_status(prog: Program, f: Func, expr: ast.AST, is_var: Callable[[ast.AST], bool], member: str) -> bool:
    """Value of boolean `expr` when the status variable (recognised by `is_var`) equals Status.<member>.
    Only ==, !=, is, is not, in, not in, and, or, not over Status constants are folded."""
    expr = strip(expr) if isinstance(expr, ast.Await) else expr
    if isinstance(expr, ast.BoolOp):
        vals = [fold_status(prog, f, v, is_var, member) for v in expr.values]
        return all(vals) if isinstance(expr.op, ast.And) else any(vals)
    if isinstance(expr, ast.UnaryOp) and isinstance(expr.op, ast.Not):
        return not fold_status(prog, f, expr.operand, is_var, member)
    if isinstance(expr, ast.Constant) and isinstance(expr.value, bool):
        return expr.value
    if isinstance(expr, ast.Compare) and len(expr.ops) == 1:
        op, l, r = expr.ops[0], expr.left, expr.comparators[0]
        if isinstance(op, (ast.In, ast.NotIn)) and is_var(l):
            if isinstance(r, ast.Name):
                ds = defs_of(f, r.id)
                if len(ds) == 1 and ds[0].kind == "assign":
                    r = ds[0].value
            if isinstance(r, (ast.Tuple, ast.List, ast.Set)):
                ms = [_status_const(prog, f, e) for e in r.elts]
                if all(m is not None for m in ms):
                    res = member in ms
                    return res if isinstance(op, ast.In) else not res
        if isinstance(op, (ast.Eq, ast.Is, ast.NotEq, ast.IsNot)):
            for x, c in ((l, r), (r, l)):
                m = _status_const(prog, f, c)
                if is_var(x) and m is not None:
                    res = member == m
                    return res if isinstance(op, (ast.Eq, ast.Is)) else not res
    raise Uninterpretable(f"cannot fold `{unparse(expr)}` over Status in {f.qualname}")


def recovering_statuses(prog: Program, f: Func) -> set[str]:
    """Set of Status members for which `is_recovering` implementation `f` returns True."""
    rets = [n for n in f.body_nodes() if isinstance(n, ast.Return)]
    if len(rets) != 1 or rets[0].value is None:
        raise Uninterpretable(f"{f.qualname}: expected a single `return <predicate over status>`")
    expr = rets[0].value
    for o in origins(f, expr):
        expr = o
        break

    def is_var(e: ast.AST) -> bool:
        e = strip(e)
        if isinstance(e, ast.Name):
            return any(is_var(d.value) for d in defs_of(f, e.id) if d.kind in ("assign", "walrus") and d.value is not None)
        return isinstance(e, ast.Attribute) and e.attr == "status" and _is_allocation(e.value)

    def _is_allocation(e: ast.AST) -> bool:
        e = strip(e)
        if isinstance(e, ast.Name):
            return any(_is_allocation(d.value) for d in defs_of(f, e.id) if d.kind in ("assign", "walrus") and d.value is not None)
        return isinstance(e, ast.Call) and isinstance(e.func, ast.Attribute) and e.func.attr == "get_allocation"

    return {m for m in status_members(prog) if fold_status(prog, f, expr, is_var, m)}


# ------------------------------------------------------------------ P8: who-may-write an attribute

MUTATORS = {"append", "add", "pop", "discard", "remove", "clear", "setdefault", "update", "extend", "insert", "popitem", "__setitem__", "__delitem__"}


def _module_store_index(prog: Program, m) -> dict[str, list[tuple[str, ast.AST, ast.AST, str]]]:
    """`attr -> [(function qualname, statement/call, receiver expr, kind)]` for one module; cached on the
    Module object (variant programs share the Module objects of unchanged files)."""
    idx = getattr(m, "_d_stores", None)
    if idx is not None:
        return idx
    idx = {}

    def put(attr, f, n, recv, kind):
        idx.setdefault(attr, []).append((f.qualname, n, recv, kind))

    for f in funcs_by_module(prog).get(id(m), []):
        for n in f.body_nodes():
            tgts: list[ast.AST] = []
            if isinstance(n, ast.Assign):
                tgts = list(n.targets)
            elif isinstance(n, (ast.AugAssign, ast.AnnAssign)):
                if isinstance(n, ast.AnnAssign) and n.value is None and not isinstance(n.target, ast.Attribute):
                    continue
                tgts = [n.target]
            elif isinstance(n, ast.Delete):
                tgts = list(n.targets)
            elif isinstance(n, (ast.For, ast.AsyncFor)):
                tgts = [n.target]
            elif isinstance(n, ast.Call):
                fn = n.func
                if isinstance(fn, ast.Attribute) and fn.attr in MUTATORS and isinstance(fn.value, ast.Attribute):
                    put(fn.value.attr, f, n, fn.value.value, "mut")
                elif isinstance(fn, ast.Name) and fn.id in ("setattr", "delattr") and len(n.args) >= 2 and isinstance(n.args[1], ast.Constant) and isinstance(n.args[1].value, str):
                    put(n.args[1].value, f, n, n.args[0], "setattr")
                continue
            else:
                continue
            while tgts:
                t = tgts.pop()
                if isinstance(t, (ast.Tuple, ast.List)):
                    tgts.extend(t.elts)
                elif isinstance(t, ast.Starred):
                    tgts.append(t.value)
                elif isinstance(t, ast.Attribute):
                    put(t.attr, f, n, t.value, "assign")
                elif isinstance(t, ast.Subscript) and isinstance(t.value, ast.Attribute):
                    put(t.value.attr, f, n, t.value.value, "item")
    m._d_stores = idx
    return idx


def attr_writes(prog: Program, attr: str) -> Iterator[tuple[Func, ast.AST, ast.AST, str]]:
    """Whole-program stores to `<recv>.<attr>`: (function, statement/call, receiver expr, kind)
    kind: 'assign' (attribute rebound / deleted), 'item' (X.attr[k] = / del), 'mut' (X.attr.<mutator>()),
    'setattr'."""
    for m in prog.modules.values():
        if attr not in m.source:
            continue
        for fq, n, recv, kind in _module_store_index(prog, m).get(attr, ()):
            f = prog.functions.get(fq)
            if f is not None and f.module is m:
                yield f, n, recv, kind


def receiver_may_be(prog: Program, f: Func, recv: ast.AST, cls_qualname: str) -> bool:
    """False only when the receiver's static class is known and unrelated to `cls_qualname`."""
    t = prog.type_of(f, recv)
    if t is None or t not in prog.classes:
        return True
    return prog.is_subclass(t, cls_qualname) or prog.is_subclass(cls_qualname, t)


# ------------------------------------------------------------------ exception classes

BUILTIN_BASES = {
    "BaseException": [],
    "Exception": ["BaseException"],
    "CancelledError": ["BaseException"],
    "KeyboardInterrupt": ["BaseException"],
    "SystemExit": ["BaseException"],
    "GeneratorExit": ["BaseException"],
    "ValueError": ["Exception", "BaseException"],
    "KeyError": ["LookupError", "Exception", "BaseException"],
    "RuntimeError": ["Exception", "BaseException"],
}


def exc_ancestors(prog: Program, name: str) -> list[str]:
    """Simple names of `name` and all its base classes (repo classes through the class table)."""
    if name in BUILTIN_BASES:
        return [name, *BUILTIN_BASES[name]]
    q = f"{EXC}.{name}"
    if q in prog.classes:
        out = []
        for k in prog.mro(q):
            s = k.rpartition(".")[2]
            out.append(s)
            if s in BUILTIN_BASES:
                out.extend(BUILTIN_BASES[s])
        return out
    raise Uninterpretable(f"unknown exception class {name}")


def handler_names(h: ast.ExceptHandler) -> list[str] | None:
    if h.type is None:
        return None
    ts = h.type.elts if isinstance(h.type, ast.Tuple) else [h.type]
    return [(dotted(t) or unparse(t)).split(".")[-1] for t in ts]


def first_handler(prog: Program, tr: ast.Try, exc_name: str) -> ast.ExceptHandler | None:
    anc = exc_ancestors(prog, exc_name)
    for h in tr.handlers:
        ns = handler_names(h)
        if ns is None or any(n in anc for n in ns):
            return h
    return None


def handler_region(g, h: ast.ExceptHandler, kinds=NORMAL) -> set[int]:
    ids = g.ids_of(h)
    return g.reach(ids, kinds=kinds, include_src=True)




def funcs_by_module(prog: Program) -> dict[int, list[Func]]:
    idx = getattr(prog, "_d_funcs_by_mod", None)
    if idx is None:
        idx = {}
        for f in prog.all_funcs():
            idx.setdefault(id(f.module), []).append(f)
        prog._d_funcs_by_mod = idx  # type: ignore[attr-defined]
    return idx


def funcs_mentioning(prog: Program, *needles: str) -> Iterator[Func]:
    """Functions of the modules whose source text contains one of `needles` (cheap prefilter for
    whole-program sweeps; a construct cannot occur in a module whose text does not contain its name)."""
    idx = funcs_by_module(prog)
    for m in prog.modules.values():
        if any(n in m.source for n in needles):
            yield from idx.get(id(m), [])


def _module_call_index(prog: Program, m) -> dict[str, list[tuple[str, ast.Call]]]:
    """Syntactic index `simple callee name -> [(function qualname, call)]` of one module.  Cached on the
    Module object: variant programs share the Module objects (and ASTs) of unchanged files."""
    idx = getattr(m, "_d_calls", None)
    if idx is None:
        idx = {}
        for f in funcs_by_module(prog).get(id(m), []):
            for c in f.calls():
                fn = c.func
                nm = fn.attr if isinstance(fn, ast.Attribute) else (fn.id if isinstance(fn, ast.Name) else None)
                if nm is not None:
                    idx.setdefault(nm, []).append((f.qualname, c))
        m._d_calls = idx
    return idx


def callers_of(prog: Program, qualnames: Iterable[str]) -> list[tuple[Func, ast.Call]]:
    """Whole-program call sites that may invoke one of `qualnames` (same answer as Program.callers;
    only calls whose syntactic callee name matches are resolved)."""
    qualnames = set(qualnames)
    simple = {q.rpartition(".")[2] for q in qualnames}
    out: dict[int, tuple[Func, ast.Call]] = {}
    for m in prog.modules.values():
        idx = _module_call_index(prog, m)
        for nm in simple:
            for fq, c in idx.get(nm, ()):
                f = prog.functions.get(fq)
                if f is None or f.module is not m:
                    continue
                if any(q in qualnames for q in rcall(prog, f, c)):
                    out[id(c)] = (f, c)
    return list(out.values())


def call_sites(prog: Program, qualnames: Iterable[str], *, attr_fallback: bool = True) -> list[tuple[Func, ast.Call]]:
    """Like `callers_of`, but a call whose receiver cannot be typed (`?.name`) counts as a call site when
    the attribute name matches (over-approximation: no call site is lost to an untyped receiver).  Only
    the modules whose text contains the simple name are indexed."""
    qualnames = list(qualnames)
    simple = {q.rpartition(".")[2] for q in qualnames}
    out: dict[int, tuple[Func, ast.Call]] = {}
    for m in prog.modules.values():
        if not any(nm in m.source for nm in simple):
            continue
        idx = _module_call_index(prog, m)
        for nm in simple:
            for fq, c in idx.get(nm, ()):
                f = prog.functions.get(fq)
                if f is None or f.module is not m:
                    continue
                if resolves_to(prog, f, c, qualnames, attr_fallback=attr_fallback):
                    out[id(c)] = (f, c)
    return list(out.values())


def param_default(fn: ast.FunctionDef | ast.AsyncFunctionDef, name: str) -> ast.AST | None:
    """Default value expression of parameter `name` (None when it has none)."""
    a = fn.args
    pos = a.posonlyargs + a.args
    first = len(pos) - len(a.defaults)
    for i, x in enumerate(pos):
        if x.arg == name and i >= first:
            return a.defaults[i - first]
    for x, d in zip(a.kwonlyargs, a.kw_defaults):
        if x.arg == name:
            return d
    return None


def param_truth_domain(prog: Program, f: Func, name: str) -> set[bool]:
    """Truth values parameter `name` of `f` can have at entry: the constants bound by the call sites of the
    whole program (the default where a site omits it); both values as soon as one site passes something
    that is not a literal constant, forwards */**, or no call site is known."""
    both = {True, False}
    default = param_default(f.node, name)
    sites = call_sites(prog, [f.qualname])
    if not sites:
        return both
    out: set[bool] = set()
    for g, c in sites:
        b = bind_args(f.node, c, bound=f.cls is not None)
        if b is None:
            return both
        v = b.get(name, default)
        if v is None:
            return both
        vs = [strip(o) for o in origins(g, v)] or [strip(v)]
        for x in vs:
            if not isinstance(x, ast.Constant):
                return both
            out.add(bool(x.value))
    return out or both


# ------------------------------------------------------------------ short-circuit truth tables of a test


def _atoms(e: ast.AST, out: list) -> list:
    if isinstance(e, ast.BoolOp):
        for v in e.values:
            _atoms(v, out)
    elif isinstance(e, ast.UnaryOp) and isinstance(e.op, ast.Not):
        _atoms(e.operand, out)
    elif isinstance(e, (ast.NamedExpr, ast.Await)):
        _atoms(e.value, out)
    elif _bool_compare(e) is not None:
        _atoms(_bool_compare(e)[0], out)
    else:
        out.append(e)
    return out


def _bool_compare(e: ast.AST):
    """`x is True` / `x == False` / `x is not True` ... -> (x, value of the comparison when x is True)."""
    if isinstance(e, ast.Compare) and len(e.ops) == 1:
        op, l, r = e.ops[0], e.left, e.comparators[0]
        for x, c in ((l, r), (r, l)):
            if isinstance(c, ast.Constant) and isinstance(c.value, bool):
                if isinstance(op, (ast.Is, ast.Eq)):
                    return x, c.value
                if isinstance(op, (ast.IsNot, ast.NotEq)):
                    return x, not c.value
    return None


def _ev(e: ast.AST, val: dict, seen: set) -> bool:
    if isinstance(e, ast.BoolOp):
        if isinstance(e.op, ast.And):
            for v in e.values:
                if not _ev(v, val, seen):
                    return False
            return True
        for v in e.values:
            if _ev(v, val, seen):
                return True
        return False
    if isinstance(e, ast.UnaryOp) and isinstance(e.op, ast.Not):
        return not _ev(e.operand, val, seen)
    if isinstance(e, (ast.NamedExpr, ast.Await)):
        return _ev(e.value, val, seen)
    bc = _bool_compare(e)
    if bc is not None:
        x = _ev(bc[0], val, seen)
        return bc[1] if x else (not bc[1])
    seen.add(id(e))
    return val[id(e)]


def outcomes_when(test: ast.AST, is_target: Callable[[ast.AST], bool], value: bool) -> set[str] | None:
    """Outcomes ('t'/'f') the condition `test` can have in an evaluation (short-circuit semantics) that
    evaluates the atom recognised by `is_target` to `value`; every other atom ranges over both truth
    values.  None when the test has no such atom or too many atoms."""
    import itertools

    atoms = _atoms(test, [])
    tg = [a for a in atoms if is_target(a)]
    if len(tg) != 1 or len(atoms) > 8:
        return None
    others = [a for a in atoms if a is not tg[0]]
    out: set[str] = set()
    for bits in itertools.product((True, False), repeat=len(others)):
        val = {id(a): b for a, b in zip(others, bits)}
        val[id(tg[0])] = value
        seen: set = set()
        r = _ev(test, val, seen)
        if id(tg[0]) in seen:
            out.add("t" if r else "f")
    return out


# ------------------------------------------------------------------ following extracted helpers


def _matches(prog: Program, f: Func, c: ast.Call, names, attr_fallback: bool) -> bool:
    for q in rcall(prog, f, c):
        if q in names:
            return True
        if attr_fallback and q.startswith("?.") and any(n.rpartition(".")[2] == q[2:] for n in names):
            return True
    return False


def stage_calls(prog: Program, f: Func, names: Iterable[str], *, attr_fallback: bool = False, depth: int = 2,
                _memo: dict | None = None) -> list[tuple[ast.Call, Func | None]]:
    """Calls in `f` that perform the stage named by `names`: either directly -> (call, None), or by
    invoking a helper defined in the same module / class that (transitively, `depth` levels) does
    -> (call, helper).  Lets rules survive `extract method` refactorings."""
    names = list(names)
    memo = _memo if _memo is not None else {}
    out: list[tuple[ast.Call, Func | None]] = []
    for c in f.calls():
        if _matches(prog, f, c, names, attr_fallback):
            out.append((c, None))
            continue
        if depth <= 0:
            continue
        fn = c.func
        simple = isinstance(fn, ast.Name) or (isinstance(fn, ast.Attribute) and isinstance(fn.value, ast.Name) and fn.value.id in ("self", "cls"))
        if not simple:
            continue
        for q in rcall(prog, f, c, fanout=False):
            h = prog.functions.get(q)
            if h is None or h.module is not f.module or h is f:
                continue
            key = (h.qualname, depth)
            if key not in memo:
                memo[key] = None  # cycle guard
                memo[key] = bool(stage_calls(prog, h, names, attr_fallback=attr_fallback, depth=depth - 1, _memo=memo))
            if memo[key]:
                out.append((c, h))
                break
    return out


def helper_views(prog: Program, f: Func, expr: ast.AST, roles: dict[str, str], depth: int = 2, _seen: frozenset = frozenset()) -> list[tuple[Func, ast.AST, dict[str, str]]]:
    """[(function, expression, roles)]: `expr` as written in `f` and - `extract function` refactorings - the
    return expressions of every program function called inside it (locals followed, the callee resolved to exactly
    one definition, `depth` levels).  `roles` maps a role name to the local / parameter of `f` that plays it; in a
    helper the role is played by the parameter bound to exactly that name (absent when none is)."""
    out = [(f, expr, dict(roles))]
    if depth <= 0:
        return out
    for o in origins(f, expr) or [expr]:
        for x in [o, *walk_no_nested(o)]:
            if not isinstance(x, ast.Call):
                continue
            qs = rcall(prog, f, x, fanout=False)
            h = prog.functions.get(qs[0]) if len(qs) == 1 else None
            if h is None or h is f or h.is_abstract or h.qualname in _seen:
                continue
            b = bind_args(h.node, x, bound=h.cls is not None)
            if b is None:
                continue
            r2: dict[str, str] = {}
            for role, nm in roles.items():
                for pn, a in b.items():
                    if all(isinstance(strip(y), ast.Name) and strip(y).id == nm for y in (origins(f, a) or [a])):
                        r2[role] = pn
            for r in h.body_nodes():
                if isinstance(r, ast.Return) and r.value is not None:
                    out += helper_views(prog, h, r.value, r2, depth - 1, _seen | {f.qualname})
    return out


def lock_sites(p: Program, f: Func, depth: int = 2):
    """[(ast node evaluated at the acquisition, helper|None)]: `enter_async_context(x.lock)`, `async with x.lock`,
    `x.lock.acquire()`, directly or inside a helper of the same module."""
    out = []
    for n in f.body_nodes():
        if isinstance(n, ast.Attribute) and n.attr == "lock":
            par = parent(n)
            if isinstance(par, ast.Call) and isinstance(par.func, ast.Attribute) and par.func.attr == "enter_async_context":
                out.append((par, None))
            elif isinstance(par, ast.Attribute) and par.attr == "acquire":
                out.append((par, None))
            elif isinstance(par, ast.withitem):
                out.append((n, None))
    if depth > 0:
        for c in f.calls():
            fn = c.func
            if isinstance(fn, ast.Name) or (isinstance(fn, ast.Attribute) and isinstance(fn.value, ast.Name) and fn.value.id in ("self", "cls")):
                for q in rcall(p, f, c, fanout=False):
                    h = p.functions.get(q)
                    if h is not None and h.module is f.module and h is not f and lock_sites(p, h, depth - 1):
                        out.append((c, h))
    return out




def outcome_table(test: ast.AST, is_target: Callable[[ast.AST], bool]) -> list[tuple[str, bool, bool | None]] | None:
    """All evaluations of `test` (short-circuit semantics, every atom ranging over both truth values):
    (outcome 't'/'f', target atom evaluated?, value given to the target atom)."""
    import itertools

    atoms = _atoms(test, [])
    tg = [a for a in atoms if is_target(a)]
    if len(tg) != 1 or len(atoms) > 8:
        return None
    rows = set()
    for bits in itertools.product((True, False), repeat=len(atoms)):
        val = {id(a): b for a, b in zip(atoms, bits)}
        seen: set = set()
        r = _ev(test, val, seen)
        ev = id(tg[0]) in seen
        rows.add(("t" if r else "f", ev, val[id(tg[0])] if ev else None))
    return sorted(rows, key=str)


def effective_test(f: Func, expr: ast.AST) -> ast.AST:
    """The condition a test really evaluates: a bare local (or `not local`) assigned exactly once from a
    boolean expression is replaced by that expression."""
    if isinstance(expr, ast.UnaryOp) and isinstance(expr.op, ast.Not) and isinstance(expr.operand, ast.Name):
        inner = effective_test(f, expr.operand)
        if inner is not expr.operand:
            return ast.UnaryOp(op=ast.Not(), operand=inner)
        return expr
    if isinstance(expr, ast.Name):
        ds = defs_of(f, expr.id)
        if len(ds) == 1 and ds[0].kind == "assign" and ds[0].index is None and ds[0].value is not None:
            return ds[0].value
    return expr


# ------------------------------------------------------------------ facts established by dominating tests


def path_facts(g, nid: int) -> list[tuple[ast.AST, bool]]:
    """(sub-expression, truth value) pairs that hold whenever CFG node `nid` executes: for every test that
    dominates the node and from which the node is reachable through exactly one outcome, the facts forced
    by that outcome (see `implied`)."""
    facts: list[tuple[ast.AST, bool]] = []
    for t in g.nodes.values():
        if t.kind != "test" or t.id == nid or t.ast is None:
            continue
        if not g.dominates(t.id, nid):
            continue
        in_t = nid in region(g, t.id, "t")
        in_f = nid in region(g, t.id, "f")
        if in_t != in_f:
            facts += implied(t.ast, in_t)
    return facts


def expr_facts(expr: ast.AST) -> list[tuple[ast.AST, bool]]:
    """Facts established for sub-expression `expr` by the conditional expressions / comprehension filters
    that enclose it inside one statement (IfExp branches, `if` clauses of comprehensions)."""
    from ..model import parent as _parent

    facts: list[tuple[ast.AST, bool]] = []
    child, cur = expr, _parent(expr)
    while cur is not None and not isinstance(cur, ast.stmt):
        if isinstance(cur, ast.IfExp):
            if child is cur.body:
                facts += implied(cur.test, True)
            elif child is cur.orelse:
                facts += implied(cur.test, False)
        elif isinstance(cur, (ast.ListComp, ast.SetComp, ast.GeneratorExp, ast.DictComp)):
            elts = [cur.key, cur.value] if isinstance(cur, ast.DictComp) else [cur.elt]
            if any(child is e for e in elts):
                for gen in cur.generators:
                    for cond in gen.ifs:
                        facts += implied(cond, True)
        child, cur = cur, _parent(cur)
    return facts


def has_fact(facts, pred: Callable[[ast.AST], bool], value: bool) -> bool:
    return any(v is value and pred(e) for e, v in facts)


def membership_fact(facts, left: Callable[[ast.AST], bool], container: Callable[[ast.AST], bool]) -> bool | None:
    """True / False when the facts establish `left in container` / `left not in container`; None otherwise."""
    for e, v in facts:
        if isinstance(e, ast.Compare) and len(e.ops) == 1 and left(e.left) and container(e.comparators[0]):
            if isinstance(e.ops[0], ast.In):
                return v
            if isinstance(e.ops[0], ast.NotIn):
                return not v
    return None


# ------------------------------------------------------------------ coroutine calls that are never awaited

_ASYNC_LIB = {"asyncio.gather", "asyncio.sleep", "asyncio.wait_for", "asyncio.wait", "asyncio.shield"}
_SCHEDULERS = {"create_task", "ensure_future", "gather", "wait_for", "wait", "shield", "enter_async_context", "run_coroutine_threadsafe", "run"}


def _async_names(prog: Program) -> dict[str, tuple[int, int]]:
    idx = getattr(prog, "_d_async_names", None)
    if idx is None:
        idx = {}
        for f in prog.all_funcs():
            if f.cls is None and f.outer is None:
                continue
            a, n = idx.get(f.name, (0, 0))
            idx[f.name] = (a + (1 if f.is_async else 0), n + 1)
        prog._d_async_names = idx  # type: ignore[attr-defined]
    return idx


def is_coroutine_call(prog: Program, f: Func, c: ast.Call) -> bool:
    qs = rcall(prog, f, c)
    known = [prog.functions[q] for q in qs if q in prog.functions]
    if known:
        return all(h.is_async for h in known)
    if any(q in _ASYNC_LIB for q in qs):
        return True
    if len(qs) == 1 and qs[0].startswith("?."):
        a, n = _async_names(prog).get(qs[0][2:], (0, 0))
        return n > 0 and a == n
    return False


def unawaited_coroutines(prog: Program, f: Func) -> list[ast.Call]:
    """Calls in `f` that produce a coroutine / future which is neither awaited nor handed to a scheduler
    (create_task, gather, ...) nor returned."""
    from ..model import ancestors as _anc, parent as _parent

    out = []
    for c in f.calls():
        if not is_coroutine_call(prog, f, c):
            continue
        par = _parent(c)
        if isinstance(par, ast.Await) or isinstance(par, ast.Return):
            continue
        ok = False
        for a in _anc(c):
            if isinstance(a, ast.stmt):
                break
            if isinstance(a, ast.Call) and a is not c:
                nm = a.func.attr if isinstance(a.func, ast.Attribute) else (a.func.id if isinstance(a.func, ast.Name) else "")
                if nm in _SCHEDULERS:
                    ok = True
                    break
        if not ok:
            out.append(c)
    return out


def check_awaited(ctx, rule: str, qualnames: Iterable[str]) -> None:
    """One obligation per anchored function: every coroutine-producing call is awaited / scheduled."""
    for q in qualnames:
        f = ctx.prog.func(q)
        bad = unawaited_coroutines(ctx.prog, f)
        ctx.ob(rule, f"every coroutine call of {f.name} is awaited or scheduled", not bad, func=f, node=(bad[0] if bad else f.node),
               instance=f"awaited:{f.qualname}:" + (unparse(bad[0].func) if bad else ""),
               message=f"`{unparse(bad[0])[:100]}` creates a coroutine that is never awaited: its result is a coroutine object "
               "(always truthy) and its effect never happens" if bad else "")


# ------------------------------------------------------------------ names / attributes that are never defined

import builtins as _builtins

_BUILTIN_NAMES = set(dir(_builtins))


def _bound_names(fn_node: ast.AST) -> set[str]:
    """Names bound anywhere inside a function (parameters, assignments, loops, withs, walrus, comprehensions,
    imports, nested defs, except-as) - flow-insensitive."""
    out: set[str] = set()
    a = fn_node.args
    for x in a.posonlyargs + a.args + a.kwonlyargs + [y for y in (a.vararg, a.kwarg) if y]:
        out.add(x.arg)
    for n in ast.walk(fn_node):
        if isinstance(n, ast.Name) and isinstance(n.ctx, (ast.Store, ast.Del)):
            out.add(n.id)
        elif isinstance(n, (ast.FunctionDef, ast.AsyncFunctionDef, ast.ClassDef)) and n is not fn_node:
            out.add(n.name)
        elif isinstance(n, ast.ExceptHandler) and n.name:
            out.add(n.name)
        elif isinstance(n, (ast.Import, ast.ImportFrom)):
            for al in n.names:
                out.add((al.asname or al.name).split(".")[0])
        elif isinstance(n, ast.arg):
            out.add(n.arg)  # lambda / nested function parameters
        elif isinstance(n, (ast.Global, ast.Nonlocal)):
            out.update(n.names)
        elif isinstance(n, (ast.MatchAs, ast.MatchStar)) and n.name:
            out.add(n.name)
        elif isinstance(n, ast.MatchMapping) and n.rest:
            out.add(n.rest)
    return out


def _module_names(m) -> set[str]:
    cached = getattr(m, "_d_names", None)
    if cached is None:
        cached = set(m.imports)
        for n in ast.walk(m.tree):
            if isinstance(n, (ast.FunctionDef, ast.AsyncFunctionDef, ast.ClassDef)):
                cached.add(n.name)
        for n in m.tree.body:
            for x in ast.walk(n) if isinstance(n, (ast.Assign, ast.AnnAssign, ast.AugAssign, ast.For, ast.With, ast.If, ast.Try)) else []:
                if isinstance(x, ast.Name) and isinstance(x.ctx, ast.Store):
                    cached.add(x.id)
        m._d_names = cached
    return cached


def undefined_names(prog: Program, f: Func) -> list[ast.Name]:
    """Loads of a name that no scope visible from `f` ever binds (NameError / UnboundLocalError when reached)."""
    bound = set()
    h: Func | None = f
    while h is not None:
        bound |= _bound_names(h.node)
        h = h.outer
    bound |= _module_names(f.module) | _BUILTIN_NAMES | {"__class__", "__file__", "__name__", "__package__"}
    return [n for n in ast.walk(f.node) if isinstance(n, ast.Name) and isinstance(n.ctx, ast.Load) and n.id not in bound]


def undefined_self_attrs(prog: Program, cq: str) -> list[tuple[Func, ast.Attribute]]:
    """`self.<a>` reads in the methods of class `cq` where `<a>` is defined nowhere along the MRO (no method,
    no class-level name, no `self.<a> = ..` in any method, not in __slots__).  Classes outside the program
    in the MRO make the answer unknown -> nothing is reported for them."""
    defined: set[str] = set()
    for k in prog.mro(cq):
        c = prog.classes.get(k)
        if c is None:
            if k.rpartition(".")[2] not in ("ABC", "object", "Generic", "Protocol"):
                return []
            continue
        defined |= set(c.methods)
        for n in c.node.body:
            if isinstance(n, (ast.Assign, ast.AnnAssign)):
                for t in (n.targets if isinstance(n, ast.Assign) else [n.target]):
                    if isinstance(t, ast.Name):
                        defined.add(t.id)
                        if t.id == "__slots__" and getattr(n, "value", None) is not None:
                            defined |= {e.value for e in ast.walk(n.value) if isinstance(e, ast.Constant) and isinstance(e.value, str)}
        for m in c.methods.values():
            for n in ast.walk(m.node):
                if isinstance(n, ast.Attribute) and isinstance(n.ctx, ast.Store) and isinstance(n.value, ast.Name) and n.value.id == "self":
                    defined.add(n.attr)
    # __slots__ names are only *declared*: they still need an assignment; handled by removing them when unassigned
    out = []
    c = prog.classes.get(cq)
    if c is None:
        return out
    slots: set[str] = set()
    for n in c.node.body:
        if isinstance(n, ast.Assign) and any(isinstance(t, ast.Name) and t.id == "__slots__" for t in n.targets):
            slots = {e.value for e in ast.walk(n.value) if isinstance(e, ast.Constant) and isinstance(e.value, str)}
    assigned = set()
    for k in prog.mro(cq):
        ck = prog.classes.get(k)
        for m in (ck.methods.values() if ck else []):
            for n in ast.walk(m.node):
                if isinstance(n, ast.Attribute) and isinstance(n.ctx, ast.Store) and isinstance(n.value, ast.Name) and n.value.id == "self":
                    assigned.add(n.attr)
    defined -= {s_ for s_ in slots if s_ not in assigned}
    for m in c.methods.values():
        for n in ast.walk(m.node):
            if isinstance(n, ast.Attribute) and isinstance(n.ctx, ast.Load) and isinstance(n.value, ast.Name) and n.value.id == "self" and n.attr not in defined:
                if n.attr.startswith("__") and n.attr.endswith("__"):
                    continue
                out.append((m, n))
    return out


def check_defined(ctx, rule: str, qualnames: Iterable[str], classes: Iterable[str] = ()) -> None:
    """One obligation per anchored function / class: no name (no `self.<attr>`) is used that is bound nowhere."""
    for q in qualnames:
        f = ctx.prog.func(q)
        bad = undefined_names(ctx.prog, f)
        ctx.ob(rule, f"every name used by {f.name} is bound in some enclosing scope", not bad, func=f, node=(bad[0] if bad else f.node),
               instance=f"defined:{f.qualname}:" + (bad[0].id if bad else ""),
               message=f"`{bad[0].id}` is used in {f.qualname} but bound nowhere: NameError as soon as the statement runs" if bad else "")
    for cq in classes:
        c = ctx.prog.cls(cq)
        bad2 = undefined_self_attrs(ctx.prog, cq)
        ctx.ob(rule, f"every self.<attr> read by {c.name} is assigned somewhere in its class hierarchy", not bad2, qualname=cq,
               func=(bad2[0][0] if bad2 else None), node=(bad2[0][1] if bad2 else c.node), instance=f"attrs:{cq}:" + (bad2[0][1].attr if bad2 else ""),
               message=f"`self.{bad2[0][1].attr}` is read in {bad2[0][0].qualname} but never assigned in the class hierarchy: AttributeError" if bad2 else "")


# ------------------------------------------------------------------ retry guard tabulation (P10; C17.R1, C16.R7)
#
# `RollbackFailureManager._update_request` decides with a guard over (self.max_retries, <request>.version)
# whether a failed job is rolled back once more.  The guard is folded over a finite set of valuations by
# walking the CFG of the function; nothing of /repo is executed.


class GuardCrash(Exception):
    pass


def is_version(f, e) -> bool:
    return isinstance(e, ast.Attribute) and e.attr == "version"


def is_max(f, e) -> bool:
    return isinstance(e, ast.Attribute) and e.attr == "max_retries"


def guard_val(f, e, env, depth=0):
    e = strip(e)
    if is_version(f, e):
        return env["version"]
    if is_max(f, e):
        return env["max"]
    if isinstance(e, ast.Constant) and (e.value is None or isinstance(e.value, (int, bool))):
        return e.value
    if isinstance(e, ast.BinOp) and isinstance(e.op, (ast.Add, ast.Sub)):
        a, b = guard_val(f, e.left, env, depth), guard_val(f, e.right, env, depth)
        if a is None or b is None:
            raise GuardCrash(unparse(e))
        return a + b if isinstance(e.op, ast.Add) else a - b
    if isinstance(e, ast.Name) and depth < 3:
        ds = defs_of(f, e.id)
        if len(ds) == 1 and ds[0].kind in ("assign", "walrus") and ds[0].index is None:
            return guard_val(f, ds[0].value, env, depth + 1)
    raise Uninterpretable(unparse(e))


def guard_atom_key(f, e):
    """Identity of an atom outside the (version, max_retries) vocabulary.  A parameter that is never
    re-bound has one value per activation (its occurrences are correlated); anything else is an
    independent unknown per occurrence."""
    x = strip(e)
    if isinstance(x, ast.Name) and x.id in f.params and all(d.kind == "param" for d in defs_of(f, x.id)):
        return ("param", x.id)
    return ("expr", id(e))


def guard_interpretable(f, e) -> bool:
    try:
        guard_val(f, e, {"max": 1, "version": 1})
    except GuardCrash:
        return True
    except Uninterpretable:
        return False
    return True


def guard_free_atoms(f, e, out=None) -> dict:
    """key -> atom expression, for the atoms of guard `e` that `guard_val` cannot evaluate."""
    out = {} if out is None else out
    if isinstance(e, ast.BoolOp):
        for v in e.values:
            guard_free_atoms(f, v, out)
    elif isinstance(e, ast.UnaryOp) and isinstance(e.op, ast.Not):
        guard_free_atoms(f, e.operand, out)
    elif isinstance(e, ast.Compare):
        if not all(guard_interpretable(f, x) for x in [e.left, *e.comparators]) or not all(
            isinstance(op, (ast.Is, ast.IsNot, ast.Eq, ast.NotEq, ast.Lt, ast.LtE, ast.Gt, ast.GtE)) for op in e.ops
        ):
            out.setdefault(guard_atom_key(f, e), e)
    elif not guard_interpretable(f, e):
        out.setdefault(guard_atom_key(f, e), e)
    return out


def guard_truth(f, e, env):
    """Fold a guard over env = {version, max, free: {atom key: bool}}.  Atoms outside the
    (version, max_retries) vocabulary take the truth value `env['free']` gives them (the caller
    enumerates both); Uninterpretable only when the caller did not provide one."""
    free = env.get("free") or {}
    if free and not isinstance(e, (ast.BoolOp,)) and not (isinstance(e, ast.UnaryOp) and isinstance(e.op, ast.Not)):
        k = guard_atom_key(f, e)
        if k in free:
            return free[k]
    if isinstance(e, ast.BoolOp):
        if isinstance(e.op, ast.And):
            for v in e.values:
                if not guard_truth(f, v, env):
                    return False
            return True
        for v in e.values:
            if guard_truth(f, v, env):
                return True
        return False
    if isinstance(e, ast.UnaryOp) and isinstance(e.op, ast.Not):
        return not guard_truth(f, e.operand, env)
    if isinstance(e, ast.Compare):
        left = guard_val(f, e.left, env)
        for op, r in zip(e.ops, e.comparators):
            right = guard_val(f, r, env)
            if isinstance(op, ast.Is):
                res = left is right
            elif isinstance(op, ast.IsNot):
                res = left is not right
            elif isinstance(op, ast.Eq):
                res = left == right
            elif isinstance(op, ast.NotEq):
                res = left != right
            else:
                if left is None or right is None:
                    raise GuardCrash(unparse(e))
                res = {ast.Lt: left < right, ast.LtE: left <= right, ast.Gt: left > right, ast.GtE: left >= right}.get(type(op))
                if res is None:
                    raise Uninterpretable(unparse(e))
            if not res:
                return False
            left = right
        return True
    v = guard_val(f, e, env)
    return bool(v)


def guard_walk(f, env, avoid=()):
    """Nodes reachable from entry over normal edges when guards over (version, max_retries) are
    decided by `env`; other tests branch both ways.  Returns (reachable, crashed guard text | None)."""
    g = f.cfg
    avoid = set(avoid)
    seen = {g.entry}
    todo = [g.entry]
    crash = None
    while todo:
        a = todo.pop()
        n = g.nodes[a]
        kinds = NORMAL
        if n.kind == "test" and n.ast is not None and mentions(f, n.ast, lambda x: is_version(f, x) or is_max(f, x)):
            try:
                kinds = {"t"} if guard_truth(f, effective_test(f, n.ast), env) else {"f"}
            except GuardCrash as c:
                crash = str(c)
                continue
            except Uninterpretable:
                kinds = NORMAL  # an unknown the caller did not enumerate: both outcomes
        for b, k in g.succ[a]:
            if k in kinds and b not in seen and b not in avoid:
                seen.add(b)
                todo.append(b)
    return seen, crash


def retry_allowed(env) -> bool:
    return env["max"] is None or env["version"] < env["max"]


RETRY_ENVS = [{"max": m, "version": v} for m in (None, 1, 2, 3) for v in (1, 2, 3, 4, 5)]


def is_version_increment(n: ast.AST) -> bool:
    if isinstance(n, ast.AugAssign) and isinstance(n.op, ast.Add) and isinstance(n.value, ast.Constant) and n.value.value == 1:
        return isinstance(n.target, ast.Attribute) and n.target.attr == "version"
    if isinstance(n, ast.Assign) and len(n.targets) == 1 and isinstance(n.targets[0], ast.Attribute) and n.targets[0].attr == "version":
        v = n.value
        if isinstance(v, ast.BinOp) and isinstance(v.op, ast.Add):
            for a, b in ((v.left, v.right), (v.right, v.left)):
                if isinstance(a, ast.Attribute) and a.attr == "version" and unparse(a.value) == unparse(n.targets[0].value) and isinstance(b, ast.Constant) and b.value == 1:
                    return True
    return False


# ------------------------------------------------------------------ the `is this job already being recovered` decision
#
# `RollbackFailureManager._synchronize_workflows` decides per request between the hand-over (the job is being
# re-executed by another recovery) and the rollback (`_update_request`).  C17.R2 / C19.R5 / C19.R7 need the test that
# takes the decision, its two outcomes, the job it is about and - C19.R7 - every `is_recovering()` evaluation its
# value comes from.  The value may reach the test directly (`if await self.is_recovering(x)`), through a boolean
# local, through a helper returning it, or through a *snapshot*: membership in a collection filtered by
# `is_recovering` (comprehension or loop + add), a mapping name -> answer, possibly handed over as a parameter
# (the call sites are followed through the whole-program call index).


class RecDecision:
    """test: CFG test node of the synchronising function; cond: the condition it evaluates (boolean locals
    substituted); atom: the sub-expression of `cond` carrying the answer; yes / no: outcome kinds ('t'/'f') that
    mean `being recovered` / `not being recovered`; job: expression naming the job the answer is about;
    calls: [(function, is_recovering call)] whose result the answer is; snapshot: the answer is read from a
    collection computed elsewhere / earlier; traced: False when the test was only identified by what it guards."""

    __slots__ = ("test", "cond", "atom", "yes", "no", "job", "calls", "snapshot", "traced")

    def __init__(self, test, cond, atom, yes, no, job, calls, snapshot, traced):
        self.test, self.cond, self.atom, self.yes, self.no = test, cond, atom, yes, no
        self.job, self.calls, self.snapshot, self.traced = job, calls, snapshot, traced


def _is_rec_call(e: ast.AST) -> bool:
    return isinstance(e, ast.Call) and isinstance(e.func, ast.Attribute) and e.func.attr == "is_recovering"


def _rec_job_arg(c: ast.Call) -> ast.AST | None:
    if c.args:
        return c.args[0]
    return next((k.value for k in c.keywords if k.arg == "job_name"), None)


def _same_text(a: ast.AST | None, b: ast.AST | None) -> bool:
    return a is not None and b is not None and unparse(strip(a)) == unparse(strip(b))


def _uniq_calls(hits):
    """(call, value) facts, one per call node (`await c` and `c` are reported as two facts of the same value)."""
    out = {}
    for c, v in hits:
        out.setdefault(id(c), (c, v))
    return list(out.values())


_COLL_WRAP = ("set", "frozenset", "list", "tuple", "sorted")


def _rec_snapshot(prog: Program, f: Func, coll: ast.AST, depth: int, seen: frozenset = frozenset()):
    """`coll` (an expression of `f`) denotes a collection of job names selected by `is_recovering`, or a mapping
    job name -> answer: ('set' | 'map', polarity of membership, [(function, call)]) - None when it is not."""
    kinds, pols, calls = set(), set(), []

    def merge(r):
        if r is None:
            return False
        kinds.add(r[0])
        pols.add(r[1])
        calls.extend(r[2])
        return True

    c0 = strip(coll)
    filled = isinstance(c0, ast.Name) and (
        any(isinstance(c.func, ast.Attribute) and isinstance(c.func.value, ast.Name) and c.func.value.id == c0.id for c in f.calls())
        or any(isinstance(n, ast.Subscript) and isinstance(n.ctx, ast.Store) and isinstance(n.value, ast.Name) and n.value.id == c0.id for n in f.body_nodes()))
    srcs = [c0] if filled else (origins(f, coll) or [coll])  # (a local that is fed in place is examined as such, not replaced by its initial value)
    for o in srcs:
        o = strip(o)
        while isinstance(o, ast.Call) and isinstance(o.func, ast.Name) and o.func.id in _COLL_WRAP and len(o.args) == 1 and not prog._is_local(f, o.func.id):
            o = strip(o.args[0])
        if isinstance(o, (ast.SetComp, ast.ListComp, ast.GeneratorExp)) and len(o.generators) == 1:
            hit = _uniq_calls([(strip(e), v) for cond in o.generators[0].ifs for e, v in implied(cond, True) if _is_rec_call(strip(e))])
            if len(hit) != 1 or not _same_text(o.elt, _rec_job_arg(hit[0][0])):
                return None
            merge(("set", hit[0][1], [(f, hit[0][0])]))
        elif isinstance(o, ast.DictComp) and len(o.generators) == 1 and _is_rec_call(strip(o.value)) and not o.generators[0].ifs:
            c = strip(o.value)
            if not _same_text(o.key, _rec_job_arg(c)):
                return None
            merge(("map", True, [(f, c)]))
        elif isinstance(o, ast.Name) and o.id not in seen:
            ds = defs_of(f, o.id)
            if ds and all(d.kind == "param" for d in ds) and not filled:
                if depth <= 0:
                    return None
                sites = callers_of(prog, [f.qualname])
                if not sites:
                    return None
                for g_, c in sites:
                    b = bind_args(f.node, c, bound=f.cls is not None)
                    if b is None or o.id not in b or not merge(_rec_snapshot(prog, g_, b[o.id], depth - 1)):
                        return None
            else:
                # a local filled in a loop: `<x> = set()` ... `if await self.is_recovering(n): <x>.add(n)`
                g = f.cfg
                feeds = [c for c in f.calls() if isinstance(c.func, ast.Attribute) and isinstance(c.func.value, ast.Name) and c.func.value.id == o.id
                         and c.func.attr in ("add", "append", "discard", "remove", "update", "extend", "insert", "__setitem__", "setdefault")]
                stores = [n for n in f.body_nodes() if isinstance(n, ast.Subscript) and isinstance(n.ctx, ast.Store) and isinstance(n.value, ast.Name) and n.value.id == o.id]
                if not feeds and not stores:
                    return None
                for d in ds:
                    v = strip(d.value) if d.value is not None else None
                    empty = (isinstance(v, (ast.List, ast.Set, ast.Tuple)) and not v.elts) or (isinstance(v, ast.Dict) and not v.keys) or (
                        isinstance(v, ast.Call) and isinstance(v.func, ast.Name) and v.func.id in ("set", "list", "dict") and not v.args and not v.keywords)
                    if d.kind != "assign" or d.index is not None or not empty:
                        return None
                for c in feeds:
                    if c.func.attr not in ("add", "append") or len(c.args) != 1:
                        return None
                    hit = _uniq_calls([(strip(e), v) for i in g.node_containing(c) for e, v in path_facts(g, i) if _is_rec_call(strip(e))])
                    if len(hit) != 1 or not _same_text(c.args[0], _rec_job_arg(hit[0][0])):
                        return None
                    merge(("set", hit[0][1], [(f, hit[0][0])]))
                for s in stores:
                    par = parent(s)
                    v = strip(par.value) if isinstance(par, ast.Assign) and len(par.targets) == 1 else None
                    if v is None or not _is_rec_call(v) or not _same_text(s.slice, _rec_job_arg(v)):
                        return None
                    merge(("map", True, [(f, v)]))
        else:
            return None
    if len(kinds) != 1 or len(pols) != 1 or not calls:
        return None
    return next(iter(kinds)), next(iter(pols)), calls


def _rec_source(prog: Program, f: Func, atom: ast.AST, depth: int = 2):
    """What the truth of `atom` (an atom of a condition of `f`) says about `the job is being recovered`:
    (polarity, job expression, [(function, is_recovering call)], snapshot?) or None."""
    a = strip(atom)
    if _is_rec_call(a):
        return True, _rec_job_arg(a), [(f, a)], False
    if isinstance(a, ast.Name):
        ds = defs_of(f, a.id)
        vals = [strip(d.value) for d in ds if d.value is not None]
        if ds and all(d.kind in ("assign", "walrus") and d.index is None for d in ds) and vals and all(_is_rec_call(v) for v in vals):
            jobs = {unparse(strip(_rec_job_arg(v))) for v in vals if _rec_job_arg(v) is not None}
            return True, (_rec_job_arg(vals[0]) if len(jobs) == 1 else None), [(f, v) for v in vals], False
        return None
    if isinstance(a, ast.Compare) and len(a.ops) == 1 and isinstance(a.ops[0], (ast.In, ast.NotIn)):
        snap = _rec_snapshot(prog, f, a.comparators[0], depth)
        if snap is not None and snap[0] == "set":
            pol = snap[1] if isinstance(a.ops[0], ast.In) else (not snap[1])
            return pol, a.left, snap[2], True
        return None
    if isinstance(a, ast.Subscript):
        snap = _rec_snapshot(prog, f, a.value, depth)
        if snap is not None and snap[0] == "map":
            return True, a.slice, snap[2], True
        return None
    if isinstance(a, ast.Call) and isinstance(a.func, ast.Attribute) and a.func.attr == "get" and a.args:
        snap = _rec_snapshot(prog, f, a.func.value, depth)
        if snap is not None and snap[0] == "map":
            return True, a.args[0], snap[2], True
        return None
    if isinstance(a, ast.Call) and depth > 0:
        # an extracted predicate: every return of the (single) resolved program function is an is_recovering answer
        qs = rcall(prog, f, a, fanout=False)
        h = prog.functions.get(qs[0]) if len(qs) == 1 else None
        if h is not None and h is not f and not h.is_abstract:
            b = bind_args(h.node, a, bound=h.cls is not None)
            rets = [r.value for r in h.body_nodes() if isinstance(r, ast.Return)]
            if b is not None and rets and all(r is not None for r in rets):
                calls, job = [], None
                for r in rets:
                    for o in origins(h, r) or [r]:
                        o = strip(o)
                        if not _is_rec_call(o):
                            return None
                        calls.append((h, o))
                        j = _rec_job_arg(o)
                        if isinstance(j, ast.Name) and j.id in b:
                            job = b[j.id]
                return True, job, calls, False
    return None


def recovering_decision(prog: Program, f: Func, update_qualname: str) -> RecDecision:
    """The test of `f` (= _synchronize_workflows) that separates the hand-over from the rollback.  Raises
    Uninterpretable when no single such test exists or its two outcomes cannot be told apart."""
    g = f.cfg
    found = []
    for n in g.nodes.values():
        if n.kind != "test" or n.ast is None:
            continue
        cond = effective_test(f, n.ast)
        for a in _atoms(cond, []):
            src = _rec_source(prog, f, a)
            if src is not None:
                found.append((n, cond, a, src))
    # a test that only selects what goes into a snapshot read by another test is not the decision
    fed = {id(c) for _n, _c, _a, src in found if src[3] for _h, c in src[2]}
    found = [x for x in found if x[3][3] or not all(id(c) in fed for _h, c in x[3][2])]
    if len(found) > 1:
        raise Uninterpretable(f"expected one is_recovering test in {f.name}, found {len(found)}")
    if found:
        n, cond, a, (pol, job, calls, snap) = found[0]
        yes = outcomes_when(cond, lambda x: x is a, pol)
        no = outcomes_when(cond, lambda x: x is a, not pol)
        if not yes or not no or len(yes) != 1 or len(no) != 1 or yes == no:
            raise Uninterpretable(f"cannot separate the two outcomes of the is_recovering test `{unparse(cond)[:80]}` in {f.name}")
        return RecDecision(n, cond, a, next(iter(yes)), next(iter(no)), job, calls, snap, True)
    # no is_recovering answer reaches any test: the decision is the innermost test that lets exactly one of
    # its outcomes reach the counting call
    upd = [c for c in f.calls() if resolves_to(prog, f, c, [update_qualname], attr_fallback=False)]
    uids = [i for c in upd for i in g.node_containing(c)]
    best = None
    for n in g.nodes.values():
        if n.kind != "test" or n.ast is None or not uids or not all(g.dominates(n.id, u) for u in uids):
            continue
        rt, rf = region(g, n.id, "t"), region(g, n.id, "f")
        in_t, in_f = all(u in rt for u in uids), all(u in rf for u in uids)
        if in_t != in_f and not any(u in (rf if in_t else rt) for u in uids):
            if best is None or g.dominates(best[0].id, n.id):
                best = (n, "f" if in_t else "t", "t" if in_t else "f")
    if best is None:
        raise Uninterpretable(f"expected one is_recovering test in {f.name}, found 0")
    n, yes, no = best
    return RecDecision(n, effective_test(f, n.ast), None, yes, no, None, [], False, False)


# ------------------------------------------------------------------ value kinds (small annotation-driven typing)
#
# kind ::= 'int' | 'str' | 'bool' | 'T' (a type variable: whatever the container holds) | ('cls', qualname)
#        | ('coll', kind) | ('map', key kind, value kind) | None (unknown)

_COLL_ANN = {"MutableSet", "Set", "AbstractSet", "FrozenSet", "MutableSequence", "Sequence", "Iterable", "Collection", "Iterator", "list", "set", "frozenset",
             "tuple", "List", "Deque", "deque", "KeysView", "ValuesView"}
_MAP_ANN = {"MutableMapping", "Mapping", "dict", "Dict", "defaultdict", "OrderedDict"}


def ann_kind(prog: Program, m, ann: ast.AST | None):
    """Kind denoted by an annotation expression of module `m`."""
    if ann is None:
        return None
    if isinstance(ann, ast.Constant) and isinstance(ann.value, str):
        try:
            ann = ast.parse(ann.value, mode="eval").body
        except SyntaxError:
            return None
    if isinstance(ann, ast.Constant):
        return None
    if isinstance(ann, ast.BinOp) and isinstance(ann.op, ast.BitOr):
        ks = [ann_kind(prog, m, s) for s in (ann.left, ann.right) if not (isinstance(s, ast.Constant) and s.value is None)]
        return ks[0] if len(ks) == 1 or (ks and all(k == ks[0] for k in ks)) else None
    if isinstance(ann, ast.Subscript):
        head = (dotted(ann.value) or "").split(".")[-1]
        sl = ann.slice.elts if isinstance(ann.slice, ast.Tuple) else [ann.slice]
        if head in ("Optional", "Final", "ClassVar", "Annotated"):
            return ann_kind(prog, m, sl[0])
        if head in _MAP_ANN and len(sl) == 2:
            return ("map", ann_kind(prog, m, sl[0]), ann_kind(prog, m, sl[1]))
        if head in _COLL_ANN and sl:
            return ("coll", ann_kind(prog, m, sl[0]))
        return ann_kind(prog, m, ann.value)
    d = dotted(ann)
    if d is None:
        return None
    if d in ("int", "str", "bool"):
        return d
    q = prog.resolve_dotted(m, d)
    if q in prog.classes:
        return ("cls", q)
    if len(d) <= 2 and d.isupper():  # a TypeVar (T, K, V)
        return "T"
    return None


def attr_annotation(prog: Program, cq: str, attr: str):
    """(module, annotation expression) of attribute `attr` of class `cq` (class-level or `self.attr: ann = ..` in a
    method, first along the MRO), or None."""
    for k in prog.mro(cq):
        c = prog.classes.get(k)
        if c is None:
            continue
        for n in c.node.body:
            if isinstance(n, ast.AnnAssign) and isinstance(n.target, ast.Name) and n.target.id == attr:
                return c.module, n.annotation
        for f in c.methods.values():
            for n in f.body_nodes():
                if isinstance(n, ast.AnnAssign) and isinstance(n.target, ast.Attribute) and n.target.attr == attr and isinstance(n.target.value, ast.Name) \
                        and n.target.value.id == "self":
                    return c.module, n.annotation
    return None


def _elem(k):
    if isinstance(k, tuple) and k[0] == "coll":
        return k[1]
    if isinstance(k, tuple) and k[0] == "map":
        return k[1]  # iterating a mapping yields its keys
    return None


def _agree(ks):
    ks = [k for k in ks if k != "none"]
    return ks[0] if ks and all(k == ks[0] for k in ks) else None


def value_kind(prog: Program, f: Func, e: ast.AST | None, depth: int = 6, seen: frozenset = frozenset()):
    """Kind of the value of expression `e` in `f`, from annotations (parameters, attributes, return types) followed
    through locals, loop / comprehension targets, subscripts and the usual container methods.  None = unknown."""
    if e is None or depth <= 0:
        return None
    e = strip(e)
    rec = lambda x, s=seen: value_kind(prog, f, x, depth - 1, s)  # noqa: E731
    if isinstance(e, ast.Constant):
        if e.value is None:
            return "none"
        return {bool: "bool", int: "int", str: "str"}.get(type(e.value))
    if isinstance(e, ast.JoinedStr):
        return "str"
    if isinstance(e, ast.IfExp):
        return _agree([rec(e.body), rec(e.orelse)])
    if isinstance(e, (ast.List, ast.Set, ast.Tuple)):
        if not e.elts:
            return "none"  # an empty literal fits every collection
        return ("coll", _agree([rec(x) for x in e.elts]))
    if isinstance(e, (ast.ListComp, ast.SetComp, ast.GeneratorExp)):
        return ("coll", rec(e.elt))
    if isinstance(e, ast.BinOp) and isinstance(e.op, (ast.BitAnd, ast.BitOr, ast.Sub, ast.BitXor, ast.Add)):
        l, r = rec(e.left), rec(e.right)
        for k in (l, r):
            if isinstance(k, tuple) and k[0] == "coll" and k[1] is not None:
                return k
        return l if l == r else None
    if isinstance(e, ast.Attribute):
        base = prog.type_of(f, e.value)
        if base in prog.classes:
            a = attr_annotation(prog, base, e.attr)
            if a is not None:
                return ann_kind(prog, a[0], a[1])
            t = prog.attr_type(base, e.attr)
            return ("cls", t) if t else None
        bk = rec(e.value)
        if isinstance(bk, tuple) and bk[0] == "cls" and bk[1] in prog.classes:
            a = attr_annotation(prog, bk[1], e.attr)
            return ann_kind(prog, a[0], a[1]) if a is not None else None
        return None
    if isinstance(e, ast.Subscript):
        bk = rec(e.value)
        if isinstance(e.slice, ast.Slice):
            return bk
        if isinstance(bk, tuple) and bk[0] == "map":
            return bk[2]
        if isinstance(bk, tuple) and bk[0] == "coll":
            return bk[1]
        return None
    if isinstance(e, ast.Call):
        fn = e.func
        if isinstance(fn, ast.Attribute):
            bk = rec(fn.value)
            if isinstance(bk, tuple) and bk[0] == "map":
                if fn.attr in ("get", "pop", "setdefault"):
                    return bk[2]
                if fn.attr == "keys":
                    return ("coll", bk[1])
                if fn.attr == "values":
                    return ("coll", bk[2])
                if fn.attr == "copy":
                    return bk
            if isinstance(bk, tuple) and bk[0] == "coll":
                if fn.attr in ("pop", "popleft"):
                    return bk[1]
                if fn.attr in ("copy", "union", "intersection", "difference", "symmetric_difference"):
                    return bk
        if isinstance(fn, ast.Name) and fn.id in ("list", "set", "tuple", "frozenset", "sorted", "reversed", "iter", "deque") and len(e.args) == 1 and is_builtin_or_plain(prog, f, fn.id):
            k = rec(e.args[0])
            return ("coll", _elem(k)) if _elem(k) is not None else None
        if isinstance(fn, ast.Name) and fn.id in ("next", "min", "max") and len(e.args) >= 1:
            return _elem(rec(e.args[0]))
        if isinstance(fn, ast.Name) and fn.id in ("int", "len", "id", "hash"):
            return "int"
        if isinstance(fn, ast.Name) and fn.id in ("str", "repr"):
            return "str"
        ks = []
        for q in rcall(prog, f, e, fanout=False):
            if q in prog.classes:
                ks.append(("cls", q))
            elif q in prog.functions and prog.functions[q].node.returns is not None:
                g = prog.functions[q]
                ks.append(ann_kind(prog, g.module, g.node.returns))
            else:
                ks.append(None)
        return ks[0] if ks and all(k == ks[0] for k in ks) else None
    if isinstance(e, ast.Name):
        if e.id in seen:
            return None
        # a name bound by an enclosing comprehension
        for a in _ancestors(e):
            if isinstance(a, (ast.ListComp, ast.SetComp, ast.GeneratorExp, ast.DictComp)):
                for gen in a.generators:
                    if isinstance(gen.target, ast.Name) and gen.target.id == e.id:
                        return _elem(value_kind(prog, f, gen.iter, depth - 1, seen | {e.id}))
            elif isinstance(a, (ast.FunctionDef, ast.AsyncFunctionDef, ast.Lambda)):
                break
        ann = f.param_annotation(e.id)
        if ann is not None:
            return ann_kind(prog, f.module, ann)
        ks = []
        s2 = seen | {e.id}
        for d in defs_of(f, e.id):
            if d.kind == "param":
                return None
            if d.kind == "comp":
                continue
            if d.index is not None or d.value is None:
                ks.append(None)
            elif d.kind in ("assign", "walrus"):
                if isinstance(d.stmt, ast.AnnAssign):
                    ks.append(ann_kind(prog, f.module, d.stmt.annotation))
                else:
                    ks.append(value_kind(prog, f, d.value, depth - 1, s2))
            elif d.kind == "for":
                ks.append(_elem(value_kind(prog, f, d.value, depth - 1, s2)))
            else:
                ks.append(None)
        return _agree(ks) if ks and None not in ks else None
    return None


def _ancestors(n):
    from ..model import ancestors

    return ancestors(n)


def is_builtin_or_plain(prog: Program, f: Func, name: str) -> bool:
    """`name` is not shadowed by a local / module-level definition (deque from collections counts as plain)."""
    return not prog._is_local(f, name) and f"{f.module.name}.{name}" not in prog.functions and f"{f.module.name}.{name}" not in prog.classes


def kind_text(k) -> str:
    if k is None:
        return "an untyped value"
    if isinstance(k, tuple):
        if k[0] == "cls":
            return f"a {k[1].rpartition('.')[2]} object"
        if k[0] == "coll":
            return f"a collection of {kind_text(k[1])}"
        return f"a mapping {kind_text(k[1])} -> {kind_text(k[2])}"
    return {"int": "an int (id)", "str": "a str", "bool": "a bool", "T": "a node of the same graph", "none": "None"}.get(k, str(k))
