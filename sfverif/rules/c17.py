"""C17 Retries are bounded and exhausted retries fail the workflow.

R1 bounded counter: `RecoveryRequest.version` is written only by `RecoveryRequest.__init__`
   (constant 1 = the first execution) and by `RollbackFailureManager._update_request` (whole-program
   who-may-write); in `_update_request` every write is `+= 1`; `max_retries` is assigned once, from the constructor argument; tabulating the guards over
   (max_retries in {None,1,2,3}) x (version in 1..5) (P10, the CFG is walked per valuation):
   when `max_retries is None or version < max_retries` every normal path increments, otherwise no
   path increments, none returns normally and the raised class derives from
   `UnrecoverableWorkflowException` (anything else would be caught by the `recoverable` wrapper of
   `_do_handle_failure` and recovered again - an unbounded recursion).
R2 every recovery is counted: `_synchronize_workflows` dominates `executor.run()` in `_recover`;
   its not-recovering branch awaits `_update_request` for the tested job on every path (the test is located by
   the provenance of the is_recovering answer - direct call, boolean local, extracted predicate, snapshot
   collection / mapping, also handed over as a parameter: `_util_D.recovering_decision`, shared with C19.R5/R7,
   which decides *where* the answer may be obtained); the
   requests handed to it always contain the failed job's own request; the exhaustion raised below
   is not swallowed by `_do_handle_failure` / `recover`.
R3 the failed job is never mistaken for a recovering one: `recover` awaits
   `notify_status(job.name, Status.RECOVERY)` before `_do_handle_failure`; the status set of
   `is_recovering` (P10 fold over the Status enum) contains none of RECOVERY / FAILED / COMPLETED.
R4 without rollback the first failure fails the workflow: `DummyFailureManager.recover` has no
   normal exit and raises the exception it received; every other concrete `FailureManager.recover`
   either never returns normally or reaches the guarded counter of R1.
R5 (added) every coroutine call on the counting path is awaited.
R6 (added) an unrecovered failure fails the workflow: every call site of `FailureManager.recover` (whole
   program; the `recoverable` wrapper today) lets the exception of `recover` propagate - no path from the
   exception edge of the call to a normal return, handlers that only catch cancellation excluded; every
   call site of a function decorated with `core.recovery.recoverable` (enumerated through the decorator,
   not by name) either lets the exception that leaves the wrapper propagate or records the failure on
   every path from its handlers to the normal exit: `await <step>.terminate(Status.FAILED)`, or
   `<v> = Status.FAILED` with `<v>` the value of every later return and not re-assigned afterwards.  When
   the exception can leave a helper, its awaiting callers inherit the obligation (2 levels).  What happens
   to the recorded status afterwards (reduction, executor raise) is C04.R4-R6.
R7 (added, seeded change C17b-1) the recovery graphs are queried with the kind of key they are filled with: for every
   attribute holding a `recovery.utils.DirectedGraph` (class table: `dag_tokens`, `dcg_ports`) every call of a graph
   method on it (whole program; receiver aliases followed) is enumerated; the arguments bound to node parameters
   (those annotated with the class's type variable) are typed by a small annotation-driven inference
   (`_util_D.value_kind`: parameter / attribute / return annotations through locals, loop targets, subscripts and
   container methods).  The key kind of a graph is the one its fill sites (`add`, `replace(new_node)`: the parameters
   handed to `_add_node`) use; a node argument of another known kind (a Token object, a job name) is reported.
   Nec.: `mapper.dag_tokens.contains(job_token)` is always False on a graph keyed by persistent ids, so the outputs
   of a job that another recovery already re-executes are not handed over and the job is executed again without
   passing the counter of R1.  Arguments whose kind cannot be inferred are not reported (recorded as trivial).

Atoms of the guards of `_update_request` outside the (version, max_retries) vocabulary (a flag parameter, a
comparison of job names, a call) are not an analysis error: they range over both truth values - a parameter
that is never re-bound over the constants its call sites / default bind (whole-program call index, untyped
receivers included) - and are reported in the valuation for which the bound is not tested.
The tabulation machinery lives in `_util_D` (shared with C16.R7, which decides the converse: a retry that is
permitted - no limit configured, or version < max_retries - is not refused; refusing it keeps C17 and breaks C16).
Undecided: the exact number of executions.
"""

from __future__ import annotations

import ast
import itertools

from ..cfg import ALL, NORMAL
from ..dataflow import defs_of, origins
from ..model import unparse
from ..selftest import V
from ._util_D import (
    GuardCrash as _Crash,
    is_version as _is_version,
    is_max as _is_max,
    guard_val as _val,
    guard_atom_key as _atom_key,
    guard_interpretable as _interpretable,
    guard_free_atoms as _free_atoms,
    guard_truth as _truth,
    guard_walk as _walk,
    retry_allowed as _allowed,
    RETRY_ENVS as ENVS,
    is_version_increment as _is_increment,
    DFM,
    EXC,
    FM,
    FM_FILE,
    REC,
    REC_FILE,
    REQ,
    RFM,
    STATUS,
    STEP_FILE,
    Uninterpretable,
    UTILS,
    ann_kind,
    attr_writes,
    bind_args,
    branch_edges,
    call_sites,
    funcs_mentioning,
    handler_names,
    check_awaited,
    check_defined,
    effective_test,
    is_awaited,
    mentions,
    param_of_type,
    param_truth_domain,
    receiver_may_be,
    recovering_decision,
    recovering_statuses,
    resolves_to,
    stage_calls,
    strip,
    succ,
    value_kind,
    kind_text,
)

META = {
    "explanation": (
        "Who-may-write table of RecoveryRequest.version over the whole program; finite-domain tabulation (P10) of the "
        "guards of `_update_request` by walking its CFG for each valuation of (max_retries, version); CFG "
        "must-pass-through / dominance for the counting of every recovery and the propagation of the exhaustion; "
        "fold of `is_recovering` over the Status enum; exit analysis of every FailureManager.recover; exception-edge "
        "reachability from every call of FailureManager.recover and of every @recoverable phase to the caller's normal "
        "exit (must pass a recorded Status.FAILED); annotation-driven key-kind agreement between the fill sites and the "
        "query sites of the recovery graphs (R7). Guard atoms that are neither the counter nor the limit are enumerated "
        "over both truth values (parameters: over the constants bound by their call sites). Decides that "
        "each recovery attempt of a job passes the guarded counter exactly once and that exhaustion raises an "
        "unrecoverable exception; it does not count executions."
    ),
    "undecided": "the exact count of executions per job",
    "assumptions": ["max_retries is None or a positive int", "scheduler.notify_status records the status it is given"],
}

UNRECOVERABLE = f"{EXC}.UnrecoverableWorkflowException"


def _blocked(ctx, rule, what, func):
    """Keep the instance count stable when an instance cannot be examined because the construct it
    depends on is itself reported as a finding by this run."""
    ctx.ob(rule, what + " (not evaluated: the construct is missing, see the finding of this rule)", True, func=func, node=func.node, trivial=True)


# --------------------------------------------------------------------------- R1


def r1(ctx):
    p = ctx.prog
    init = p.func(f"{REQ}.__init__")
    upd = p.func(f"{RFM}._update_request")
    writers = []
    for f, n, recv, kind in attr_writes(p, "version"):
        if not receiver_may_be(p, f, recv, REQ):
            continue
        if f.cls is not None and f.cls.qualname != REQ and isinstance(recv, ast.Name) and recv.id == "self" and not p.is_subclass(f.cls.qualname, REQ):
            continue  # `self.version` of an unrelated class
        writers.append((f, n))
        ctx.ob("R1", "RecoveryRequest.version is written only by __init__ and _update_request", f.qualname in (init.qualname, upd.qualname),
               func=f, node=n, instance=f"write:{f.qualname}",
               message=f"{f.qualname} writes the retry counter (`{unparse(n)[:80]}`): the bound on retries no longer holds")
    ctx.require(any(f is init for f, _ in writers), "C17.R1: RecoveryRequest.__init__ does not initialise `version`")
    for f, n in writers:
        if f is init:
            v = getattr(n, "value", None)
            ctx.ob("R1", "the counter starts at 1 (the first execution)", isinstance(v, ast.Constant) and v.value == 1 and not isinstance(v.value, bool),
                   func=f, node=n, instance="init-value",
                   message=f"version starts at `{unparse(v) if v is not None else None}`: with the guard `version < max_retries` a job runs more than max_retries times")
    # the limit itself: set once from the constructor argument
    mgr_init = p.func(f"{RFM}.__init__")
    lim_writes = [(f, n, recv) for f, n, recv, kind in attr_writes(p, "max_retries")
                  if (f.cls is not None and p.is_subclass(f.cls.qualname, RFM) and isinstance(recv, ast.Name) and recv.id == "self") or p.type_of(f, recv) == RFM]
    ctx.require(bool(lim_writes), "C17.R1: RollbackFailureManager.max_retries is never assigned")
    for f, n, recv in lim_writes:
        v = strip(n.value) if getattr(n, "value", None) is not None else None
        ok = f is mgr_init and isinstance(v, ast.Name) and v.id in f.params and not isinstance(n, ast.AugAssign)
        ctx.ob("R1", "max_retries is set once, from the constructor argument", ok, func=f, node=n, instance=f"limit:{f.qualname}",
               message=f"`{unparse(n)}` in {f.qualname}: the configured retry limit is replaced, the bound no longer reflects the configuration")
    g = upd.cfg
    incs = []
    for f, n in writers:
        if f is upd:
            ok = _is_increment(n)
            ctx.ob("R1", "every write of version in _update_request is `+= 1`", ok, func=f, node=n, instance="increment-shape",
                   message=f"`{unparse(n)}` is not an increment by one")
            if ok:
                incs += g.ids_of(n)
    if not any(f is upd for f, _ in writers):
        ctx.ob("R1", "_update_request increments RecoveryRequest.version", False, func=upd, node=upd.node, instance="write:missing",
               message="_update_request never writes the retry counter: retries are unbounded")
        _blocked(ctx, "R1", "every write of version in _update_request is `+= 1`", upd)
    guards = [n for n in g.nodes.values() if n.kind == "test" and n.ast is not None and mentions(upd, n.ast, lambda x: _is_version(upd, x))]
    gnode = guards[0].ast if guards else upd.node  # (no guard at all: the tabulation below reports the unbounded increment)
    # atoms of the guards that are neither the counter nor the limit: a flag, a comparison of names, a
    # call ...  They range over both truth values (a parameter: over the values its call sites bind), so
    # that a path on which the bound is not tested shows up as an increment for an exhausted valuation.
    free: dict = {}
    for n in g.nodes.values():
        if n.kind == "test" and n.ast is not None and mentions(upd, n.ast, lambda x: _is_version(upd, x) or _is_max(upd, x)):
            _free_atoms(upd, effective_test(upd, n.ast), free)
    keys = sorted(free, key=lambda k: unparse(free[k]))
    if len(keys) > 6:
        valuations = [{}]  # too many unknowns: such tests branch both ways
    else:
        doms = [sorted(param_truth_domain(p, upd, k[1])) if k[0] == "param" else [False, True] for k in keys]
        valuations = [dict(zip(keys, bits)) for bits in itertools.product(*doms)]
    raises = [n for n in g.nodes.values() if n.kind == "raise_stmt"]
    bad_inc = bad_ret = bad_skip = crash = None
    exhausted_raises: set[int] = set()
    for env0 in ENVS:
        for fv in valuations:
            env = dict(env0, free=fv)
            reach, cr = _walk(upd, env)
            if cr is not None:
                crash = crash or (env, cr)
                continue
            if _allowed(env):
                r2_, _ = _walk(upd, env, avoid=incs)
                if g.exit in r2_:
                    bad_skip = bad_skip or env
            else:
                if any(i in reach for i in incs):
                    bad_inc = bad_inc or env
                if g.exit in reach:
                    bad_ret = bad_ret or env
                exhausted_raises |= {n.id for n in raises if n.id in reach}

    def fmt(env):
        extra = "".join(f", `{unparse(free[k])}` {'true' if v else 'false'}" for k, v in (env.get("free") or {}).items())
        return f"max_retries={env['max']}, version={env['version']}{extra}"

    ctx.ob("R1", "the guard can be evaluated for every (max_retries, version)", crash is None, func=upd, node=gnode, instance="guard:total",
           message=f"the guard raises TypeError for {fmt(crash[0])} (`{crash[1]}`)" if crash else "")
    ctx.ob("R1", "no increment once version >= max_retries", bad_inc is None, func=upd, node=gnode, instance="guard:bound",
           message=f"the counter is incremented and the job re-run for {fmt(bad_inc)}: the retry is permitted on a path that does not test "
           "the bound (more than max_retries executions)" if bad_inc else "")
    ctx.ob("R1", "exhausted retries never return normally", bad_ret is None, func=upd, node=gnode, instance="guard:raise",
           message=f"_update_request returns normally for {fmt(bad_ret)}: the recovery proceeds although the retries are exhausted" if bad_ret else "")
    ctx.ob("R1", "a permitted retry is always counted", bad_skip is None, func=upd, node=gnode, instance="guard:counted",
           message=f"_update_request can return without incrementing version for {fmt(bad_skip)}: retries are not counted (unbounded)" if bad_skip else "")
    ctx.require(bool(exhausted_raises) or bad_ret is not None or crash is not None, "C17.R1: no raise statement on the exhausted branch of _update_request")
    if not exhausted_raises:
        _blocked(ctx, "R1", "exhaustion raises an UnrecoverableWorkflowException", upd)
    for i in sorted(exhausted_raises):
        n = g.nodes[i]
        exc = n.ast.exc
        cls = None
        if exc is not None:
            e = strip(exc)
            if isinstance(e, ast.Name):
                for o in origins(upd, e):
                    e = strip(o)
                    break
            target = e.func if isinstance(e, ast.Call) else e
            cls = p.resolve_expr(upd.module, target)
        ok = cls in p.classes and p.is_subclass(cls, UNRECOVERABLE)
        ctx.ob("R1", "exhaustion raises an UnrecoverableWorkflowException", bool(ok), func=upd, node=n.ast, instance="exhausted-class",
               message=f"exhaustion raises `{unparse(exc) if exc else 'raise'}` ({cls}) which the recoverable wrapper of "
               "_do_handle_failure treats as recoverable: the recovery recurses instead of failing the workflow")


# --------------------------------------------------------------------------- R2


def r2(ctx):
    p = ctx.prog
    f = p.func(f"{RFM}._recover")
    g = f.cfg
    sync_all = stage_calls(p, f, [f"{RFM}._synchronize_workflows"])
    sync = [c for c, h in sync_all if h is None]
    runs = [c for c, _ in stage_calls(p, f, ["streamflow.workflow.executor.StreamFlowExecutor.run"])]
    ctx.require(bool(runs), "C17.R2: executor.run() not found in _recover")
    ctx.require(bool(sync) or not sync_all, "C17.R2: _synchronize_workflows is only called through a helper of _recover: cannot bind its arguments")
    sids = [i for c in sync for i in g.node_containing(c)]
    for c in runs:
        rid = g.node_containing(c)
        ok = bool(sids) and all(g.dominates(sids, i) for i in rid) and all(is_awaited(s) for s in sync)
        ctx.ob("R2", "every path to executor.run() passes through `await _synchronize_workflows`", ok, func=f, node=c, instance="sync-dominates-run",
               message="a recovery workflow can be executed without passing the retry counter",
               witness=g.describe(g.path(g.entry, rid, avoid=sids) or []))
    # the failed job's own request is always among the synchronised ones
    sync_def = p.func(f"{RFM}._synchronize_workflows")
    fjob = param_of_type(p, f, "streamflow.core.workflow.Job")
    ctx.require(fjob is not None, "C17.R2: _recover has no Job parameter")
    for c in sync:
        b = bind_args(sync_def.node, c) or {}
        rr = b.get("retry_requests")

        def own_name(n):
            return isinstance(n, ast.Attribute) and n.attr == "name" and isinstance(n.value, ast.Name) and n.value.id == fjob

        def elem_of_names(n):
            # the failed job's name as an element of the iterated collection of names (not merely mentioned)
            if isinstance(n, (ast.Set, ast.List, ast.Tuple)):
                return any(own_name(strip(e)) for e in n.elts)
            return False

        ok = False
        for o in origins(f, rr) if rr is not None else []:
            o = strip(o)
            if isinstance(o, (ast.ListComp, ast.SetComp, ast.GeneratorExp)) and len(o.generators) == 1:
                elt = strip(o.elt)
                if isinstance(elt, ast.Call) and resolves_to(p, f, elt, [f"{RFM}.get_request"], attr_fallback=False):
                    ok = mentions(f, o.generators[0].iter, elem_of_names) and not o.generators[0].ifs
            elif isinstance(o, (ast.List, ast.Tuple, ast.Set)):
                ok = any(isinstance(strip(e), ast.Call) and mentions(f, strip(e), own_name, depth=0) for e in o.elts)
        ctx.ob("R2", "the failed job's own request is always synchronised (and therefore counted)", ok, func=f, node=c, instance="own-request",
               message="the requests passed to _synchronize_workflows do not always include the failed job: its retries may go uncounted")
    # _synchronize_workflows: not recovering => _update_request(job)
    f = sync_def
    g = f.cfg
    # the test that separates `being recovered elsewhere` from `to be rolled back (and counted)`: a direct
    # is_recovering() call, a boolean local, an extracted predicate or a snapshot of the answers (shared finder;
    # *where* the answer is obtained is C19.R7's obligation, not a matter of counting)
    try:
        dec = recovering_decision(p, f, f"{RFM}._update_request")
    except Uninterpretable as e:
        ctx.require(False, f"C17.R2: {e}")
    t, tested = dec.test, dec.job
    rparam = "retry_requests" if "retry_requests" in f.params else None
    loop = next((a for a in _ancestors_loops(t.ast) if isinstance(a, ast.For)), None)
    ok_loop = loop is not None and rparam is not None and isinstance(strip(loop.iter), ast.Name) and strip(loop.iter).id == rparam
    ctx.ob("R2", "_synchronize_workflows examines every request it is given", ok_loop, func=f, node=(loop or t.ast), instance="sync:loop",
           message="the is_recovering test is not evaluated for each element of `retry_requests`")
    upd_calls = [c for c in f.calls() if resolves_to(p, f, c, [f"{RFM}._update_request"], attr_fallback=False)]
    uids = [i for c in upd_calls for i in g.node_containing(c)]
    starts = succ(g, t.id, dec.no)
    heads = g.ids_of(loop) if loop is not None else []
    esc = None
    for s in starts:
        if s in uids:
            continue
        esc = esc or g.path(s, [g.exit, *heads], avoid=uids)
        if s in (g.exit, *heads):
            esc = [s]

    def _of_request(e):
        return e is not None and loop is not None and isinstance(loop.target, ast.Name) and all(
            isinstance(strip(o), ast.Attribute) and strip(o).attr == "name" and isinstance(strip(o).value, ast.Name) and strip(o).value.id == loop.target.id
            for o in origins(f, e))

    if tested is not None:
        same_job = all(
            c.args and unparse(strip(c.args[0])) == unparse(strip(tested)) if c.args else False for c in upd_calls
        ) if upd_calls else False
        # ... and that job is the one the examined request stands for
        same_job = same_job and _of_request(tested)
    else:
        # the decision is not an is_recovering answer about a nameable job (C19.R7 reports that): the counted job
        # must still be the one the examined request stands for
        same_job = bool(upd_calls) and all(bool(c.args) and _of_request(c.args[0]) for c in upd_calls)
    ctx.ob("R2", "a job that is not recovering is counted by `await _update_request(job)` on every path", bool(uids) and esc is None and same_job and all(is_awaited(c) for c in upd_calls),
           func=f, node=t.ast, instance="sync:update",
           message="the not-recovering branch can be left without `await self._update_request(<tested job>)`: the retry is not counted",
           witness=g.describe(esc or []))
    # exhaustion is not swallowed on the way out
    for q, callee in ((f"{RFM}._do_handle_failure", f"{RFM}._recover"), (f"{RFM}.recover", f"{RFM}._do_handle_failure")):
        f = p.func(q)
        g = f.cfg
        cs = [c for c in f.calls() if resolves_to(p, f, c, [callee], attr_fallback=False)]
        if not cs:
            ctx.ob("R2", f"{f.name} does not swallow a failure of {callee.rpartition('.')[2]}", False, func=f, node=f.node, instance=f"propagate:{f.name}",
                   message=f"{f.name} never calls {callee.rpartition('.')[2]}: the failure is neither recovered nor counted")
            continue
        leak = None
        for c in cs:
            for i in g.node_containing(c):
                for b in succ(g, i, "exc"):
                    if b == g.raise_:
                        continue
                    pth = g.path(b, [g.exit], kinds=ALL, exc_from=lambda n: n.kind == "raise_stmt")
                    if pth is not None:
                        leak = [i, *pth]
        ctx.ob("R2", f"{f.name} does not swallow a failure of {callee.rpartition('.')[2]}", leak is None and all(is_awaited(c) for c in cs), func=f, node=cs[0],
               instance=f"propagate:{f.name}", message=f"an exception of {callee.rpartition('.')[2]} (e.g. exhausted retries) ends in a normal return of {f.name}",
               witness=g.describe(leak or []))


def _ancestors_loops(node):
    from ..model import ancestors

    return [a for a in ancestors(node) if isinstance(a, (ast.For, ast.AsyncFor, ast.While))]


# --------------------------------------------------------------------------- R3


def r3(ctx):
    p = ctx.prog
    f = p.func(f"{RFM}.recover")
    g = f.cfg
    job = param_of_type(p, f, "streamflow.core.workflow.Job")
    ctx.require(job is not None, "C17.R3: recover has no Job parameter")
    notif = []
    for c in f.calls():
        if isinstance(c.func, ast.Attribute) and c.func.attr == "notify_status" and resolves_to(p, f, c, ["streamflow.core.scheduling.Scheduler.notify_status"]):
            b = bind_args(p.func("streamflow.core.scheduling.Scheduler.notify_status").node, c) or {}
            st = b.get("status")
            st = strip(origins(f, st)[0]) if st is not None else None
            is_rec = isinstance(st, ast.Attribute) and st.attr == "RECOVERY" and p.resolve_expr(f.module, st.value) == STATUS
            jn = b.get("job_name")
            own = jn is not None and mentions(f, jn, lambda n: isinstance(n, ast.Attribute) and n.attr == "name" and isinstance(n.value, ast.Name) and n.value.id == job)
            if is_rec and own and is_awaited(c):
                notif.append(c)
    nids = [i for c in notif for i in g.node_containing(c)]
    handles = [c for c in f.calls() if resolves_to(p, f, c, [f"{RFM}._do_handle_failure"], attr_fallback=False)]
    if not handles:
        ctx.ob("R3", "recover awaits notify_status(job.name, Status.RECOVERY) before handling the failure", bool(nids), func=f, node=f.node,
               instance="recovery-first", message="recover neither marks the job RECOVERY nor handles the failure")
    for c in handles:
        hid = g.node_containing(c)
        ok = bool(nids) and all(g.dominates(nids, i) for i in hid)
        ctx.ob("R3", "recover awaits notify_status(job.name, Status.RECOVERY) before handling the failure", ok, func=f, node=c, instance="recovery-first",
               message="the failed job is not marked RECOVERY before _do_handle_failure: is_recovering may see it as RUNNING and its retry is not counted",
               witness=g.describe(g.path(g.entry, hid, avoid=nids) or []))
    for impl in p.concrete_impls(f"{REC}.FailureManager", "is_recovering"):
        rets = [n for n in impl.body_nodes() if isinstance(n, ast.Return)]
        if len(rets) == 1 and isinstance(rets[0].value, ast.Constant) and rets[0].value.value is False:
            ctx.ob("R3", f"{impl.qualname} is constantly False", True, func=impl, node=impl.node, instance="is_recovering:const", trivial=True)
            continue
        try:
            st = recovering_statuses(p, impl)
        except Uninterpretable as e:
            ctx.require(False, f"C17.R3: {e}")
        bad = sorted(st & {"RECOVERY", "FAILED", "COMPLETED"})
        ctx.ob("R3", "is_recovering is False for RECOVERY, FAILED and COMPLETED jobs", not bad, func=impl, node=impl.node, instance="is_recovering:set",
               message=f"is_recovering holds for status {bad}: a job that just failed takes the `recovering` branch and its retry is never counted")


# --------------------------------------------------------------------------- R4


def _reaches_counter(p, f, depth=4, seen=None) -> bool:
    seen = seen if seen is not None else set()
    if f.qualname in seen or depth < 0:
        return False
    seen.add(f.qualname)
    if f.qualname == f"{RFM}._update_request":
        return True
    for c in f.calls():
        for q in p.resolve_call(f, c, fanout=False):
            h = p.functions.get(q)
            if h is not None and h.module.name in (FM, REC) and _reaches_counter(p, h, depth - 1, seen):
                return True
    return False


def r4(ctx):
    p = ctx.prog
    p.cls(DFM)
    impls = p.concrete_impls(f"{REC}.FailureManager", "recover")
    ctx.require(any(f.qualname == f"{DFM}.recover" for f in impls), "C17.R4: DummyFailureManager.recover not found")
    for f in impls:
        g = f.cfg
        normal = g.path(g.entry, [g.exit], kinds=NORMAL)
        if f.qualname == f"{DFM}.recover" or normal is None:
            exc_param = f.params[3] if len(f.params) > 3 else None
            raised = [n for n in g.nodes.values() if n.kind == "raise_stmt"]
            same = bool(raised) and all(
                n.ast.exc is not None and isinstance(strip(n.ast.exc), ast.Name) and strip(n.ast.exc).id == exc_param for n in raised
            )
            ctx.ob("R4", f"{f.cls.name}.recover never returns normally and re-raises the job's exception", normal is None and same, func=f, node=f.node,
                   instance="fail-fast",
                   message=(f"{f.cls.name}.recover can return normally: without a rollback manager a job failure is silently ignored"
                            if normal is not None else f"{f.cls.name}.recover raises something other than the received exception"),
                   witness=g.describe(normal or []))
        else:
            ctx.ob("R4", f"{f.cls.name}.recover goes through the guarded retry counter", _reaches_counter(p, f), func=f, node=f.node, instance="counted-manager",
                   message=f"{f.qualname} can return normally but never reaches RollbackFailureManager._update_request: its retries are unbounded")


def r5(ctx):
    """No coroutine of the counting path is created without being awaited (an un-awaited `is_recovering(..)`
    is always truthy: no job would ever be counted)."""
    p = ctx.prog
    names = [f"{RFM}.recover", f"{RFM}._do_handle_failure", f"{RFM}._recover", f"{RFM}._synchronize_workflows", f"{RFM}._update_request"]
    names += [f.qualname for f in p.concrete_impls(f"{REC}.FailureManager", "recover") if f.qualname not in names]
    check_awaited(ctx, "R5", names)
    check_defined(ctx, "R5", names, classes=[RFM, REQ])


# --------------------------------------------------------------------------- R6

DECORATOR = f"{REC}.recoverable"
STEP_CLS = "streamflow.core.workflow.Step"
_CANCEL_ONLY = {"CancelledError", "KeyboardInterrupt", "SystemExit", "GeneratorExit"}


def _cancel_handlers(g) -> set[int]:
    out = set()
    for n in g.nodes.values():
        if n.kind == "handler":
            names = handler_names(n.ast)
            if names is not None and set(names) <= _CANCEL_ONLY:
                out.add(n.id)
    return out


def _failure_leak(g, call, commit=()):
    """Witness path: the call raises (a job failure / exhausted retries) and the function nevertheless
    reaches its normal exit without passing a node of `commit`.  Handlers that only catch
    cancellation-like BaseExceptions are not routes of a failure; inside handlers only explicit
    `raise` statements propagate."""
    skip = set(commit) | _cancel_handlers(g)
    for i in g.node_containing(call):
        for b in succ(g, i, "exc"):
            if b == g.raise_ or b in skip:
                continue
            pth = g.path(b, [g.exit], avoid=skip, kinds=ALL, exc_from=lambda n: n.kind == "raise_stmt")
            if pth is not None:
                return [i, *pth]
    return None


def _may_propagate(g, call) -> bool:
    skip = _cancel_handlers(g)
    for i in g.node_containing(call):
        if g.path(i, [g.raise_], avoid=skip, kinds=ALL, exc_from=lambda n, i=i: n.id == i or n.kind == "raise_stmt") is not None:
            return True
    return False


def _is_failed(p, f, e) -> bool:
    for o in origins(f, e):
        o = strip(o)
        if not (isinstance(o, ast.Attribute) and o.attr == "FAILED" and p.resolve_expr(f.module, o.value) == STATUS):
            return False
    return True


def _failed_commits(p, f) -> set[int]:
    """CFG nodes of `f` after which the failure is on record: `await <step>.terminate(Status.FAILED)`, or
    `<name> = Status.FAILED` when every return reachable from there returns that name and no other
    assignment of the name is reachable from there."""
    g = f.cfg
    out: set[int] = set()
    for c in f.calls():
        if isinstance(c.func, ast.Attribute) and c.func.attr == "terminate" and is_awaited(c) and len(c.args) == 1 and not c.keywords and _is_failed(p, f, c.args[0]):
            out.update(g.node_containing(c))
    assigns: dict[str, list[tuple[int, bool]]] = {}
    for n in g.nodes.values():
        if n.kind == "stmt" and isinstance(n.ast, (ast.Assign, ast.AnnAssign, ast.AugAssign)):
            tgts = n.ast.targets if isinstance(n.ast, ast.Assign) else [n.ast.target]
            for t in tgts:
                for x in ast.walk(t):
                    if isinstance(x, ast.Name) and isinstance(x.ctx, ast.Store):
                        plain = isinstance(n.ast, (ast.Assign, ast.AnnAssign)) and x is t and n.ast.value is not None
                        assigns.setdefault(x.id, []).append((n.id, plain and _is_failed(p, f, n.ast.value)))
    rets = [n for n in g.nodes.values() if n.kind == "return"]
    for name, ws in assigns.items():
        for nid, failed in ws:
            if not failed:
                continue
            after = g.reach([nid], kinds=NORMAL)
            rr = [r for r in rets if r.id in after]
            if not rr or g.exit not in after:
                continue
            if all(isinstance(r.ast.value, ast.Name) and r.ast.value.id == name for r in rr) and not any(i in after for i, _ in ws):
                out.add(nid)
    return out


def r6(ctx):
    """An unrecovered failure (no rollback manager, retries exhausted) fails the workflow: what leaves
    `FailureManager.recover` leaves its caller, and what leaves a `@recoverable` phase is never turned into a
    normal return of the calling step method without Status.FAILED being recorded."""
    p = ctx.prog
    base = p.func(f"{REC}.FailureManager.recover")
    impls = [f.qualname for f in p.overrides(f"{REC}.FailureManager", "recover")] or [base.qualname]
    sites = []
    for f, c in call_sites(p, impls):
        recv = unparse(c.func.value) if isinstance(c.func, ast.Attribute) else ""
        b = bind_args(base.node, c)
        typed = any(q in impls for q in p.resolve_call(f, c))
        # (untyped receivers: `recover` is also a method of generated parser classes)
        if typed or recv.endswith("failure_manager") or (is_awaited(c) and b is not None and len(b) == 3):
            sites.append((f, c))
    ctx.require(bool(sites), "C17.R6: no call of FailureManager.recover found")
    for f, c in sites:
        leak = _failure_leak(f.cfg, c)
        ctx.ob("R6", f"{f.qualname}: an exception of failure_manager.recover leaves the caller", leak is None and is_awaited(c), func=f, node=c,
               instance=f"recover-propagates:{f.qualname}",
               message=f"{f.qualname}: the exception raised by failure_manager.recover (first failure without a rollback manager, exhausted retries) "
               "can end in a normal return: the phase looks successful and the workflow does not fail",
               witness=f.cfg.describe(leak or []))
    phases = [f for f in funcs_mentioning(p, "recoverable") if any(p.resolve_expr(f.module, d) == DECORATOR for d in f.decorators)]
    ctx.require(bool(phases), "C17.R6: no function decorated with `recoverable` found")
    todo = [(f, c, 0) for f, c in call_sites(p, [h.qualname for h in phases], attr_fallback=False)]
    ctx.require(bool(todo), "C17.R6: no call of a @recoverable phase found")
    seen = set()
    while todo:
        f, c, depth = todo.pop(0)
        if id(c) in seen:
            continue
        seen.add(id(c))
        g = f.cfg
        what = unparse(c.func)
        same = [x for x in f.calls() if unparse(x.func) == what]
        if len(same) > 1:
            what += f"#{[id(x) for x in same].index(id(c)) + 1}"
        if not is_awaited(c):
            ctx.ob("R6", f"{f.qualname}: `{what}` is awaited or scheduled as a task", any(isinstance(a, ast.Call) and (unparse(a.func).rpartition('.')[2] in ("create_task", "ensure_future", "gather")) for a in _anc(c)),
                   func=f, node=c, instance=f"phase-failure:{f.qualname}:{what}", message=f"{f.qualname}: `{what}(..)` is neither awaited nor scheduled")
            continue
        leak = _failure_leak(g, c, commit=_failed_commits(p, f))
        ctx.ob("R6", f"{f.qualname}: a failure leaving `{what}` propagates or is recorded as Status.FAILED", leak is None, func=f, node=c,
               instance=f"phase-failure:{f.qualname}:{what}",
               message=f"{f.qualname}: an exception leaving `{what}` (unrecovered job failure, exhausted retries) can reach the normal exit without "
               "`await self.terminate(Status.FAILED)` / a returned Status.FAILED: the step does not end FAILED and the workflow does not fail",
               witness=g.describe(leak or []))
        # the exception may leave f: its awaiting callers inherit the obligation (helpers extracted from run())
        is_run = f.cls is not None and f.name == "run" and p.is_subclass(f.cls.qualname, STEP_CLS)
        if depth < 2 and not is_run and f.qualname not in impls and _may_propagate(g, c):
            todo += [(f2, c2, depth + 1) for f2, c2 in call_sites(p, [f.qualname], attr_fallback=False)]


def _anc(node):
    from ..model import ancestors

    return list(ancestors(node))

# --------------------------------------------------------------------------- R7

GRAPH = f"{UTILS}.DirectedGraph"


def _graph_api(p):
    """(graph classes, {method: {parameter: 'one' | 'many'}} for the parameters that denote nodes (annotated with the
    class's type variable / a collection of it), {method: parameters that are inserted as new nodes})."""
    gclasses = [GRAPH, *[c for c in p.subclasses(GRAPH) if c != GRAPH]]
    node_params: dict[str, dict[str, str]] = {}
    fills: dict[str, set[str]] = {}
    for cq in gclasses:
        for name, m in p.cls(cq).methods.items():
            if name.startswith("_"):
                continue
            for prm in m.params[1:]:
                k = ann_kind(p, m.module, m.param_annotation(prm))
                if k == "T":
                    node_params.setdefault(name, {})[prm] = "one"
                elif k == ("coll", "T"):
                    node_params.setdefault(name, {})[prm] = "many"
            for c in m.calls():
                if isinstance(c.func, ast.Attribute) and c.func.attr == "_add_node" and isinstance(c.func.value, ast.Name) and c.func.value.id == "self":
                    for a in c.args:
                        if isinstance(a, ast.Name) and a.id in node_params.get(name, {}):
                            fills.setdefault(name, set()).add(a.id)
    return gclasses, node_params, fills


def r7(ctx):
    """The recovery graphs are queried with the kind of key they are filled with."""
    p = ctx.prog
    p.cls(GRAPH)
    gclasses, node_params, fills = _graph_api(p)
    ctx.require(bool(fills) and "contains" in node_params and "successors" in node_params, "C17.R7: the node API of DirectedGraph (add / contains / successors) was not found")
    # attributes that hold such a graph
    attrs: set[str] = set()
    for f in funcs_mentioning(p, *[c.rpartition(".")[2] for c in gclasses]):
        for n in f.body_nodes():
            if isinstance(n, ast.AnnAssign) and isinstance(n.target, ast.Attribute) and p.ann_to_class(f.module, n.annotation) in gclasses:
                attrs.add(n.target.attr)
            elif isinstance(n, ast.Assign) and isinstance(n.value, ast.Call) and any(q in gclasses for q in p.resolve_call(f, n.value, fanout=False)):
                attrs.update(t.attr for t in n.targets if isinstance(t, ast.Attribute))
    ctx.require(bool(attrs), "C17.R7: no attribute holds a DirectedGraph")
    sites: dict[str, list] = {}
    for f in funcs_mentioning(p, *sorted(attrs)):
        if f.cls is not None and f.cls.qualname in gclasses:
            continue
        for c in f.calls():
            if not (isinstance(c.func, ast.Attribute) and c.func.attr in node_params):
                continue
            recvs = [strip(o) for o in origins(f, c.func.value)]
            if not (len(recvs) == 1 and isinstance(recvs[0], ast.Attribute) and recvs[0].attr in attrs):
                continue
            t = p.type_of(f, recvs[0])
            if t is not None and t not in gclasses:
                continue
            meth = next((p.cls(cq).methods[c.func.attr] for cq in ([t] if t else []) + gclasses if c.func.attr in p.cls(cq).methods), None)
            if meth is None:
                continue
            b = bind_args(meth.node, c)
            if b is None:
                continue
            for prm, card in node_params[c.func.attr].items():
                a = b.get(prm)
                if a is None:
                    continue
                k = value_kind(p, f, a)
                if card == "many" and isinstance(k, tuple) and k[0] == "coll":
                    k = k[1]
                elif card == "many":
                    k = None
                sites.setdefault(recvs[0].attr, []).append((f, c, prm, a, k, prm in fills.get(c.func.attr, ())))
    ctx.require(any(fill for ss in sites.values() for *_x, fill in ss), "C17.R7: no call fills a recovery graph")
    for attr, ss in sorted(sites.items()):
        concrete = lambda k: k not in (None, "T", "none")  # noqa: E731
        fk = {}
        for f, c, prm, a, k, fill in ss:
            if fill and concrete(k):
                fk.setdefault(k, (f, c))
        for f, c, prm, a, k, fill in ss:
            what = f"`{attr}`: node arguments have the kind of key the graph is filled with"
            if not concrete(k) or not fk:
                ctx.ob("R7", what + " (kind of the argument unknown)", True, func=f, node=c, trivial=True)
                continue
            # the key kind of the graph: the one most of its fill sites use (a single deviating site is the one reported)
            votes = {k2: sum(1 for *_y, k3, fl in ss if fl and k3 == k2) for k2 in fk}
            expected = max(fk, key=lambda k2: votes[k2])
            ok = k == expected
            other = (expected, fk[expected])
            ctx.ob("R7", what, ok, func=f, node=c, instance=f"graph-key:{attr}:{c.func.attr}:{unparse(a)}",
                   message=f"`{unparse(c)[:100]}` in {f.qualname} passes {kind_text(k)} (`{unparse(a)}`) as node of the `{attr}` graph, which is keyed by "
                   f"{kind_text(other[0])} (`{unparse(other[1][1])[:80]}` in {other[1][0].qualname}): the look-up can never match - contains() is always False, "
                   "successors() / predecessors() raise KeyError - so the outputs of a job that another recovery already re-executes are not handed over and the "
                   "job is executed again by this recovery without passing the retry counter")


RULES = [("R1", r1), ("R2", r2), ("R3", r3), ("R4", r4), ("R5", r5), ("R6", r6), ("R7", r7)]
FLOORS = {"R1": 10, "R2": 6, "R3": 3, "R4": 2, "R5": 14, "R6": 6, "R7": 8}

_UPD = f"{RFM}._update_request"
STEPM = "streamflow.workflow.step"
_SYNC = f"{RFM}._synchronize_workflows"

_SYNC_TEST = "    for retry_request in retry_requests:\n        job_name = retry_request.name\n        if await self.is_recovering(job_name):"

VARIANTS = [
    V("`<` becomes `<=`", FM_FILE, _UPD, "retry_request.version < self.max_retries", "retry_request.version <= self.max_retries", "R1", control=True),
    V("increment moved out of the guard", FM_FILE, _UPD, "    if self.max_retries is None or retry_request.version < self.max_retries:\n        retry_request.version += 1",
      "    retry_request.version += 1\n    if self.max_retries is None or retry_request.version < self.max_retries:\n        pass", "R1"),
    V("increment dropped", FM_FILE, _UPD, "        retry_request.version += 1\n", "        pass\n", "R1"),
    V("else branch logs instead of raising", FM_FILE, _UPD, "        raise FailureHandlingException(f'FAILED Job {job_name} {retry_request.version} times. Execution aborted')", "        pass", "R1"),
    V("exhaustion raises a recoverable exception", FM_FILE, _UPD, "raise FailureHandlingException(", "raise WorkflowExecutionException(", "R1"),
    V("`or` becomes `and`", FM_FILE, _UPD, "self.max_retries is None or retry_request", "self.max_retries is None and retry_request", "R1"),
    V("counter starts at 0", REC_FILE, f"{REQ}.__init__", "self.version: int = 1", "self.version: int = 0", "R1"),
    V("counter reset by another method", FM_FILE, _SYNC, "retry_request.workflow = workflow", "retry_request.workflow = workflow\n            retry_request.version = 1", "R1", control=True),
    V("external writer of version", FM_FILE, None, None, None, "R1", append="""
      def _forgive(request: RecoveryRequest) -> None:
          request.version -= 1
      """),
    V("configured limit ignored", FM_FILE, f"{RFM}.__init__", "self.max_retries: int | None = max_retries", "self.max_retries: int | None = None", "R1"),
    V("_update_request dropped from the rollback branch", FM_FILE, _SYNC, "            await self._update_request(job_name)\n", "", "R2", control=True),
    V("_update_request only when debugging", FM_FILE, _SYNC, "rollback')\n            await self._update_request(job_name)", "rollback')\n                await self._update_request(job_name)", "R2"),
    V("_update_request for the failed job instead of the tested one", FM_FILE, _SYNC, "await self._update_request(job_name)", "await self._update_request(failed_job)", "R2"),
    V("failed job not among the requests", FM_FILE, f"{RFM}._recover", "{*(t.value.name for t in job_tokens), failed_job.name}", "{*(t.value.name for t in job_tokens)}", "R2"),
    V("is_recovering not awaited", FM_FILE, _SYNC, "if await self.is_recovering(job_name):", "if self.is_recovering(job_name):", "R5"),
    V("the failed job is tested for every request", FM_FILE, _SYNC, "job_name = retry_request.name", "job_name = failed_job", "R2"),
    V("_do_handle_failure swallows the exhaustion", FM_FILE, f"{RFM}._do_handle_failure", "        raise e", "        pass", "R2"),
    V("synchronisation only when tokens are lost", FM_FILE, f"{RFM}._recover", "        await self._synchronize_workflows(", "        if job_tokens:\n            await self._synchronize_workflows(", "R2"),
    V("RECOVERY added to is_recovering", FM_FILE, f"{RFM}.is_recovering", "Status.FIREABLE)", "Status.FIREABLE, Status.RECOVERY)", "R3", control=True),
    V("is_recovering by exclusion", FM_FILE, f"{RFM}.is_recovering", "status in (Status.ROLLBACK, Status.RUNNING, Status.FIREABLE)", "status not in (Status.WAITING, Status.SKIPPED, Status.CANCELLED, Status.RECOVERED)", "R3"),
    V("RECOVERY notified after the handling", FM_FILE, f"{RFM}.recover",
      "await self.context.scheduler.notify_status(job.name, Status.RECOVERY)\n    await self._do_handle_failure(job, step)",
      "await self._do_handle_failure(job, step)\n    await self.context.scheduler.notify_status(job.name, Status.RECOVERY)", "R3"),
    V("wrong status notified", FM_FILE, f"{RFM}.recover", "Status.RECOVERY", "Status.RUNNING", "R3"),
    V("recover returns without handling the failure", FM_FILE, f"{RFM}.recover", "    await self._do_handle_failure(job, step)", "    pass", "R4"),
    V("DummyFailureManager.recover returns", FM_FILE, f"{DFM}.recover", "    raise exception", "    return None", "R4"),
    V("DummyFailureManager.recover raises only when logging", FM_FILE, f"{DFM}.recover", "    raise exception", "        raise exception", "R4"),
    V("third failure manager without a counter", FM_FILE, None, None, None, "R4", append="""
      class _RetryForever(FailureManager):
          async def close(self) -> None: ...
          async def is_recovering(self, job_name: str) -> bool:
              return False
          async def notify(self, output_port, output_token, job_token=None) -> None: ...
          async def recover(self, job: Job, step: Step, exception: BaseException) -> None:
              await step.run()
      """),
    # -- R1: a path that counts / permits a retry without testing the bound (seeded change C17/2)
    V("bound skipped through a flag whose default the callers rely on", FM_FILE, _UPD,
      "async def _update_request(self, job_name: str) -> None:\n    retry_request = self._retry_requests[job_name]\n    if self.max_retries is None or",
      "async def _update_request(self, job_name: str, check_limit: bool=False) -> None:\n    retry_request = self._retry_requests[job_name]\n    if not check_limit or self.max_retries is None or", "R1"),
    V("bound bypassed by an unrelated condition", FM_FILE, _UPD, "    if self.max_retries is None or retry_request.version < self.max_retries:",
      "    if retry_request.workflow is None or self.max_retries is None or retry_request.version < self.max_retries:", "R1"),
    V("bound tested only for some job names", FM_FILE, _UPD, "    if self.max_retries is None or retry_request.version < self.max_retries:",
      "    if self.max_retries is None or not job_name.endswith('/0') or retry_request.version < self.max_retries:", "R1"),
    V("guard removed", FM_FILE, _UPD, "    if self.max_retries is None or retry_request.version < self.max_retries:", "    if job_name:", "R1"),
    # -- R6: the unrecovered failure must fail the workflow (seeded changes C17/1, C17/3)
    V("wrapper re-raises only a different exception", REC_FILE, DECORATOR, "                    logger.exception(ie)\n                raise", "                    logger.exception(ie)\n                    raise", "R6"),
    V("wrapper logs the failed recovery and returns", REC_FILE, DECORATOR, "                    logger.exception(ie)\n                raise", "                    logger.exception(ie)\n                return", "R6"),
    V("TransferStep.run failure handler falls through to the default status", STEP_FILE, f"{STEPM}.TransferStep.run",
      "logger.exception(e)\n            await self.terminate(Status.FAILED)", "logger.exception(e)", "R6", control=True),
    V("ScheduleStep.run reports a failed schedule as SKIPPED", STEP_FILE, f"{STEPM}.ScheduleStep.run", "await self.terminate(Status.FAILED)", "await self.terminate(Status.SKIPPED)", "R6"),
    V("_run_job reports an exception as COMPLETED", STEP_FILE, f"{STEPM}.ExecuteStep._run_job", "logger.error(err)\n        job_status = Status.FAILED\n    finally:",
      "logger.error(err)\n        job_status = Status.COMPLETED\n    finally:", "R6"),
    V("_run_job overwrites the failure status before returning", STEP_FILE, f"{STEPM}.ExecuteStep._run_job", "    if logger.isEnabledFor(logging.DEBUG):\n        logger.debug(f'{job_status.name} Job",
      "    job_status = Status.COMPLETED\n    if logger.isEnabledFor(logging.DEBUG):\n        logger.debug(f'{job_status.name} Job", "R6"),
    V("_run_job returns something else than the recorded status", STEP_FILE, f"{STEPM}.ExecuteStep._run_job", "    return job_status", "    return Status.COMPLETED", "R6"),
    V("phase called through a helper whose caller swallows the failure", STEP_FILE, None, None, None, "R6", append="""
      class _LenientTransferStep(TransferStep):
          async def _one(self, job: Job, token: Token) -> None:
              await self._run_transfer(job=job, inputs={}, port_name="p", token=token)
          async def transfer(self, job: Job, token: Token) -> Token:
              return token
          async def run(self) -> None:
              try:
                  await self._one(None, None)
              except Exception as e:
                  logger.exception(e)
              await self.terminate(Status.COMPLETED)
      """),
    # -- R7: the recovery graphs are queried with the kind of key they are filled with (seeded change C17b-1)
    V("graph membership tested with the JobToken object instead of its id (seeded)", FM_FILE, _SYNC, "if mapper.dag_tokens.contains(job_token.persistent_id) else []",
      "if mapper.dag_tokens.contains(job_token) else []", "R7"),
    V("successors looked up with the JobToken object through a local", FM_FILE, _SYNC,
      "            for token_id in mapper.dag_tokens.successors(job_token.persistent_id) if",
      "            node = job_token\n            for token_id in mapper.dag_tokens.successors(node) if", "R7"),
    V("graph membership tested with the job name", FM_FILE, _SYNC, "if mapper.dag_tokens.contains(job_token.persistent_id) else []",
      "if mapper.dag_tokens.contains(job_name) else []", "R7"),
    V("provenance graph filled with Token objects", "streamflow/recovery/utils.py", f"{UTILS}.ProvenanceGraph.add",
      "self.dag_tokens.add(src_token.persistent_id, dst_token.persistent_id if dst_token is not None else None)",
      "self.dag_tokens.add(src_token, dst_token)", "R7"),
    V("token promoted to root by its instance", "streamflow/recovery/utils.py", f"{UTILS}.GraphMapper.move_token_to_root",
      "self.dag_tokens.promote_to_source(token_id)", "self.dag_tokens.promote_to_source(self.token_instances[token_id])", "R7"),
    # benign
    V("job token id through a temporary, graph through an alias", FM_FILE, _SYNC,
      "            for token_id in mapper.dag_tokens.successors(job_token.persistent_id) if mapper.dag_tokens.contains(job_token.persistent_id) else []:",
      "            graph = mapper.dag_tokens\n            jid = job_token.persistent_id\n            for token_id in graph.successors(jid) if graph.contains(jid) else []:", None),
    V("successors guarded by an if statement", FM_FILE, _SYNC,
      "            for token_id in mapper.dag_tokens.successors(job_token.persistent_id) if mapper.dag_tokens.contains(job_token.persistent_id) else []:",
      "            shared = set()\n            if mapper.dag_tokens.contains(job_token.persistent_id):\n                shared = mapper.dag_tokens.successors(job_token.persistent_id)\n            for token_id in shared:", None),
    V("flag parameter that every caller leaves at its checking default", FM_FILE, _UPD,
      "async def _update_request(self, job_name: str) -> None:\n    retry_request = self._retry_requests[job_name]\n    if self.max_retries is None or",
      "async def _update_request(self, job_name: str, check_limit: bool=True) -> None:\n    retry_request = self._retry_requests[job_name]\n    if not check_limit or self.max_retries is None or", None),
    V("guard through a boolean temporary", FM_FILE, _UPD, "    if self.max_retries is None or retry_request.version < self.max_retries:",
      "    allowed = self.max_retries is None or retry_request.version < self.max_retries\n    if allowed:", None),
    V("extra conjunct that can only make the guard stricter", FM_FILE, _UPD, "    if self.max_retries is None or retry_request.version < self.max_retries:",
      "    if job_name in self._retry_requests and (self.max_retries is None or retry_request.version < self.max_retries):", None),
    V("wrapper re-raises the caught object explicitly", REC_FILE, DECORATOR, "                    logger.exception(ie)\n                raise", "                    logger.exception(ie)\n                raise ie", None),
    V("failure status through a local", STEP_FILE, f"{STEPM}.TransferStep.run", "await self.terminate(Status.FAILED)", "failure = Status.FAILED\n            await self.terminate(failure)", None),
    V("_run_job handlers merged", STEP_FILE, f"{STEPM}.ExecuteStep._run_job", "    except FailureHandlingException as err:\n        logger.error(err)\n        job_status = Status.FAILED\n", "", None),
    V("phase called through a helper, failure recorded by run", STEP_FILE, None, None, None, None, append="""
      class _StrictTransferStep(TransferStep):
          async def _one(self, job: Job, token: Token) -> None:
              await self._run_transfer(job=job, inputs={}, port_name="p", token=token)
          async def transfer(self, job: Job, token: Token) -> Token:
              return token
          async def run(self) -> None:
              try:
                  await self._one(None, None)
              except Exception as e:
                  logger.exception(e)
                  await self.terminate(Status.FAILED)
              await self.terminate(Status.COMPLETED)
      """),
    V("request through a renamed local", FM_FILE, _UPD,
      "    retry_request = self._retry_requests[job_name]\n    if self.max_retries is None or retry_request.version < self.max_retries:\n        retry_request.version += 1",
      "    req = self._retry_requests[job_name]\n    retry_request = req\n    if self.max_retries is None or req.version < self.max_retries:\n        req.version += 1", None),
    V("operands of the bound swapped", FM_FILE, _UPD, "retry_request.version < self.max_retries", "self.max_retries > retry_request.version", None),
    V("limit through a temporary", FM_FILE, _UPD, "    if self.max_retries is None or retry_request.version < self.max_retries:",
      "    limit = self.max_retries\n    if limit is None or retry_request.version < limit:", None),
    V("inverted guard with early raise", FM_FILE, _UPD,
      "    if self.max_retries is None or retry_request.version < self.max_retries:\n        retry_request.version += 1",
      "    if self.max_retries is not None and retry_request.version >= self.max_retries:\n        raise FailureHandlingException('exhausted')\n    if True:\n        retry_request.version += 1", None),
    # the recovering / rollback decision in other shapes (shared finder `_util_D.recovering_decision`; seeded change C19/1
    # made this rule refuse): where the is_recovering answer is obtained is C19.R7's obligation, counting is unaffected
    V("is_recovering answers collected before the loop of _synchronize_workflows", FM_FILE, _SYNC, _SYNC_TEST,
      "    active = {r.name: await self.is_recovering(r.name) for r in retry_requests}\n" + _SYNC_TEST.replace("await self.is_recovering(job_name)", "active[job_name]"), None),
    V("is_recovering answers collected as a set of names before the loop", FM_FILE, _SYNC, _SYNC_TEST,
      "    busy = set()\n    for r in retry_requests:\n        if await self.is_recovering(r.name):\n            busy.add(r.name)\n"
      + _SYNC_TEST.replace("await self.is_recovering(job_name)", "job_name in busy"), None),
    V("is_recovering answer through a boolean local", FM_FILE, _SYNC, "        if await self.is_recovering(job_name):",
      "        being_recovered = await self.is_recovering(job_name)\n        if being_recovered:", None),
    V("decision by the recorded workflow (not an is_recovering answer: C19.R7), rollback branch still counted", FM_FILE, _SYNC,
      "if await self.is_recovering(job_name):", "if retry_request.workflow is not None:", None),
    V("snapshot of is_recovering answers read with the wrong polarity", FM_FILE, _SYNC, _SYNC_TEST,
      "    active = {r.name: await self.is_recovering(r.name) for r in retry_requests}\n" + _SYNC_TEST.replace("await self.is_recovering(job_name)", "not active[job_name]"), "R2"),
    V("set snapshot holds the jobs that are NOT recovering", FM_FILE, _SYNC, _SYNC_TEST,
      "    busy = {r.name for r in retry_requests if not await self.is_recovering(r.name)}\n" + _SYNC_TEST.replace("await self.is_recovering(job_name)", "job_name in busy"), "R2"),
    V("logging added to recover", FM_FILE, f"{RFM}.recover", "    await self._do_handle_failure(job, step)", "    logger.debug('handling')\n    await self._do_handle_failure(job, step)", None),
    V("is_recovering with a named tuple of statuses", FM_FILE, f"{RFM}.is_recovering",
      "    return self.context.scheduler.get_allocation(job_name).status in (Status.ROLLBACK, Status.RUNNING, Status.FIREABLE)",
      "    active = (Status.ROLLBACK, Status.RUNNING, Status.FIREABLE)\n    status = self.context.scheduler.get_allocation(job_name).status\n    return status in active", None),
]
