"""C27 Batch jobs complete only after leaving the queue.

Clauses decided:
R1 order in `QueueManagerConnector.run` (CFG dominance / must-pass-through, batch branch):
   `_run_batch_command` < `_scheduled_jobs[job_id] = ...` < `_jobs_cache.clear()` < every `_get_running_jobs`;
   the clear and every poll hold the same `asyncio.Lock` (an in-flight poll that started before the
   registration would otherwise store its stale listing *after* the clear); the result is returned only through
   the exit edge of the test `job_id not in <listing of the latest poll>`, every further round re-polls, and
   `_scheduled_jobs.pop(job_id)` lies on every path from that exit edge to the function exit and nowhere before it.
   "Nowhere before it" and "returned only through the exit edge" are also decided over the exception (`exc`) and
   cancellation (`cexc`) edges of the CFG, finally bodies being duplicated per continuation: no removal of the id
   (`pop` / `del`) and no return of the batch branch may be reachable from the function entry without crossing the
   exit edge of the test.  A `finally:` / `except ...:` around the wait that deregisters the id (seeded C27-2) runs
   when the waiting task is cancelled or a poll raises while the job is still queued; undeploy, which cancels exactly
   the registered ids (R3), then leaves that job in the queue.  (A handler that first cancels the job itself and then
   removes the id is reported too: run() has no such route today and it would need its own obligation.)
   `_scheduled_jobs` follows the queue without a window: undeploy cancels exactly the registered ids (R3) and asyncio
   can run it only while run() is suspended, so (a) no suspension point (await, async for / async with entry or exit)
   lies on any normal or exception path between the exit edge of the test -- where run() learns that the job left the
   queue -- and the removal of the id (seeded C27b-2 moved the pop behind the awaited `_get_output` /
   `_get_returncode`: an undeploy landing there cancels a job that already left the queue), an await evaluated inside
   the removing statement before the removal (Python evaluation order) included; and (b) none lies between the
   completed submission and the registration (an undeploy landing there leaves the queued job in the queue).
   Releasing the jobs-cache lock (type-checked to be an asyncio.Lock, whose `__aexit__` never yields) is not a
   suspension point, acquiring it is.
R2 siblings: every concrete `_get_running_jobs` (Slurm, PBS, Flux -- enumerated through the class table) that is
   memoised is memoised on exactly the cache object `run` clears (`self._jobs_cache`), and every call site of
   `_get_running_jobs` in the program holds the jobs-cache lock.  The `cache=` argument is interpreted as the callable
   cachebox applies to the connector (`cache(args[0])`): a lambda, a named function (module level, imported, or
   defined earlier in the class body), a module-level name bound once to such a callable, or
   `operator.attrgetter('<attr>')` is accepted iff *every* return path yields `<its first argument>.<cleared attr>`
   (local aliases / temporaries, `getattr`, conditional expressions and delegation to another such getter are
   followed, inlining bound 3; a rebound argument, a fall-through, another attribute or a cache object that does
   not depend on the connector are reported).
R3 `undeploy` cancels exactly the queued ids: the ids handed to `_remove_jobs` are collected by complete,
   unconditional iteration over `self._scheduled_jobs`; the map is emptied on every path; walking back from the
   emptying, the last read of the map is reached before any suspension point (otherwise an id registered by a
   concurrent `run()` during that await is wiped without being cancelled -- finding S14, repaired in /repo); nothing
   outside `__init__`/`run`/`undeploy` writes `_scheduled_jobs` or clears/replaces `_jobs_cache`.
R4 own result: the id returned by `_run_batch_command` is the one registered, tested, popped and passed to
   `_get_output` / `_get_returncode`, and the batch branch returns that return code.
R5 (added) locations are unwrapped exactly once: every sibling command (`_get_output`, `_get_returncode`,
   `_get_running_jobs`, `_remove_jobs`, `_run_batch_command`, ...) hands its own location parameter unchanged to
   `super().run`, whose non-batch branch applies `get_inner_location` once, and every caller inside
   `QueueManagerConnector` passes them a *wrapping* location (def-use count of `get_inner_location` applications,
   through local maps).  `undeploy` passing an already unwrapped location to `_remove_jobs` was finding S13
   (repaired in /repo): with one-level stacking the second unwrap raises and no queued job is cancelled.
   R3 and R5 follow values through the local maps of `undeploy` by element position (B34-3): the maps may hold the ids
   and the location side by side (`m.setdefault(k, (location, []))`); tuple displays, unpacking targets (`_, ids = ..`,
   `for loc, ids in m.values()`, `for k, (loc, ids) in m.items()`), constant subscripts and single-definition
   temporaries are followed, so the cancelled ids must be the very list element that is filled in the loop over
   `_scheduled_jobs` and the location the element stored next to it.  A location argument traced to a list / dict /
   constant display is reported (no location at all) rather than refused.

Where the batch branch lives (B16-5: run split in two cooperating methods).  R1/R4 (and the lock / cache facts R2 uses)
are decided on the function that contains the submission `job_id = await self._run_batch_command(...)`: `run` itself,
or the private helper `run` reaches through resolved `self._helper(...)` calls (bound 2; only plain, undecorated,
concrete methods defined in QueueManagerConnector and overridden nowhere are followed, so the analysed body is the
code that runs).  Findings then name the helper and say through which call it was reached.  The links of the chain
carry their own obligations, so nothing the un-split `run` was checked for is lost: R3 only `__init__`, the helper
and `undeploy` write `_scheduled_jobs` / `_jobs_cache` (the remaining `run` may not); R4 every link awaits the helper
and returns its result unchanged on every path (`id:forwarded:*`); R5 the helper receives a wrapping location
(`unwrap:<caller>-><helper>`).
A *partial* split (B22-3: registration, cache clear, wait loop and pop moved into `_wait_for_job`, which run awaits between
the submission and the result collection; or the other way round: a helper submits and registers, run waits).  The order
and atomicity clauses of R1 are CFG relations between constructs that then live in two functions, so they are decided
on the code that runs: the body of every private helper that touches the bookkeeping (`_scheduled_jobs`, `_jobs_cache`,
its lock, `_get_running_jobs`, `_get_output`, `_get_returncode`; `_run_batch_command` for the reverse split) is spliced
into a private copy of the caller at the call statement (at most 3 bodies, helpers of helpers included) and R1/R4, the
lock scopes of R2 and the location def-use of R5 look at that function.  Spliced are only calls for which this is exact:
`[T =|return] [await] self._helper(...)` as a whole statement, of a plain (undecorated, concrete, defined once in the
class tree) method of QueueManagerConnector, awaited iff it is a coroutine (`await coro()` runs the body in the caller's
task and is not a suspension point by itself); arguments are bound left to right before the body (a never rebound
parameter that receives a plain name *is* that name, the helper's other locals are renamed apart); `return` only where
it ends the helper (last statement, last `if`/`with`, or a guard clause whose other arm takes the rest), no nested
def / generator / global.  Own obligations: R3 the helper is referenced nowhere but at the spliced call
(`part-only-in-run:<helper>`: any other user would run the registration / wait / removal outside the decided order),
and only then are its writes of the bookkeeping allowed.  Findings are keyed on the function the bodies were spliced
into and say so.
Not decided: a helper holding a part of the batch branch that is *not* called in such a shape (started as a task, used
inside a larger expression, returning from inside a loop / try): it is not spliced, the rules then see the bare call --
R3 reports its writes of the bookkeeping, or the tree is refused (ANALYSIS-ERROR) when an anchor (the poll) is missing.

Left out (DESIGN C27.R2 "key_maker=_const_key_maker" and "queries self._scheduled_jobs.keys()"): neither is a
necessary condition.  `clear()` empties the cache whatever the keys are, and a listing that is *not* restricted
to `_scheduled_jobs` is a superset, for which `job_id not in running_jobs` is still right; removing either is
behaviour-preserving for this property (it only costs queue-manager calls), so arming them would fire on
correct code.  A disagreement between the siblings' cache keys is printed as an observation instead.
"""

from __future__ import annotations

import ast

from ..cfg import ALLC
from ..dataflow import defs_of, origins
from ..model import ancestors, dotted, unparse
from ..selftest import V
from ._util_F import bind_args, call_is, compare_pair, edge_succ, enclosing_loops, fold3, strip_await

MOD = "streamflow.deployment.connector.queue_manager"
QMC = f"{MOD}.QueueManagerConnector"
FILE = "streamflow/deployment/connector/queue_manager.py"
JOBS = "_scheduled_jobs"

META = {
    "explanation": (
        "CFG rules on the batch branch of QueueManagerConnector.run -- in run itself or in the private helper it was split into, found through "
        "resolved self-calls (bound 2), whose call chain must await and return the helper's result unchanged; bodies of private helpers "
        "holding a part of the batch branch are spliced in at their (statement-level, awaited) call, bound 3 -- (dominance and must-pass-through between submission, registration, "
        "cache invalidation, polling, loop exit test, pop and return; lexical lock scope of the invalidation and of every "
        "poll), decorator facts of every concrete _get_running_jobs found through the class table, whole-program call "
        "sites and writers of _get_running_jobs/_scheduled_jobs/_jobs_cache, def-use of the job id, and def-use counting of "
        "get_inner_location applications on every location handed to the wrapped connector. Decides necessary "
        "structural conditions; the queue manager itself is not executed."
    ),
    "undecided": "behaviour of squeue/qstat/flux themselves, parsing of their output, timing of the polling interval",
    "assumptions": [
        "cachebox.cached stores the result of an async function when its await completes (inside the caller's lock scope)",
        "asyncio.Lock is fair and asyncio runs other tasks only at await points",
        "asyncio.Lock.__aexit__ releases the lock without yielding to the event loop (acquiring it may yield)",
    ],
}


def _norm(node) -> str:
    return " ".join(unparse(node).split())[:90] if node is not None else "<missing>"


def _lock_of(node: ast.AST, stop: ast.AST) -> set[str]:
    """dotted context expressions of the `async with` statements lexically around node."""
    out = set()
    for a in ancestors(node):
        if isinstance(a, ast.AsyncWith):
            for it in a.items:
                d = dotted(it.context_expr)
                if d:
                    out.add(d)
        if a is stop:
            break
    return out


def _nodes_calling(g, pred) -> list:
    return [n for n in g.nodes.values() if any(pred(c) for c in n.calls())]


def _is_attr_call(c: ast.Call, recv: str, attr: str) -> bool:
    return isinstance(c.func, ast.Attribute) and c.func.attr == attr and dotted(c.func.value) == recv


def _by_name(g, name: str) -> list:
    """CFG nodes containing a call `<x>.name(...)` / `name(...)` (cheap syntactic pre-filter)."""
    return [n for n in g.nodes.values() if any(
        (isinstance(c.func, ast.Attribute) and c.func.attr == name) or (isinstance(c.func, ast.Name) and c.func.id == name) for c in n.calls())]


def _run_facts(ctx):
    cached = getattr(ctx, "_c27_run_facts", None)
    if cached is not None:
        return cached
    res = _run_facts_uncached(ctx)
    ctx._c27_run_facts = res
    return res


_HELPER_BOUND = 2  # `run -> self._helper(...) -> self._helper2(...)`: resolved private helpers followed to find the batch branch


def _submits(p, fn) -> list:
    return [n for n in _by_name(fn.cfg, "_run_batch_command") if any(call_is(p, fn, c, f"{QMC}._run_batch_command") for c in n.calls())]


def _helper_def(p, me: str, c: ast.Call):
    """the plain, private, concrete method of QueueManagerConnector itself that `me._name(...)` certainly runs (defined
    once in the class tree -- no override in a subclass --, undecorated, not abstract); None otherwise"""
    if not (isinstance(c.func, ast.Attribute) and dotted(c.func.value) == me and c.func.attr.startswith("_") and not c.func.attr.startswith("__")):
        return None
    defs = p.overrides(QMC, c.func.attr)
    if len(defs) != 1 or defs[0].cls is None or defs[0].cls.qualname != QMC or defs[0].is_abstract or defs[0].decorators:
        return None
    return defs[0]


def _self_helper_calls(p, fn) -> list:
    """(call, callee) for every `self._name(...)` in fn that resolves to exactly one plain, private, concrete method
    defined in QueueManagerConnector itself (no override in a subclass, no decorator): the only callees whose body is
    certainly the code that runs, so the only ones a split-off part of `run` is looked for in."""
    if not fn.params:
        return []
    me, out = fn.params[0], []
    for c in fn.calls():
        callee = _helper_def(p, me, c)
        if callee is not None:
            out.append((c, callee))
    return out


def _batch_chains(p, fn, depth: int, seen: frozenset) -> list:
    """call chains [(caller, call, callee), ...] from fn to the function that submits the batch job ([] = fn itself)"""
    if _submits(p, fn):
        return [[]]
    if depth <= 0:
        return []
    out = []
    for c, callee in _self_helper_calls(p, fn):
        if callee.qualname in seen:
            continue
        for ch in _batch_chains(p, callee, depth - 1, seen | {callee.qualname}):
            out.append([(fn, c, callee), *ch])
    return out


# --------------------------------------------------------------------------- partial splits: helper bodies spliced in
#
# B22-3 moved a *part* of the batch branch (registration, cache invalidation, wait loop, pop) into a private coroutine
# that run awaits between the submission and the result collection.  The clauses of R1 are CFG relations (dominance,
# must-pass-through, suspension windows) between constructs that now live in two functions.  They are decided on the
# code that runs: the body of the helper is spliced into a private copy of the caller at the call statement (bounded),
# and every rule that looked at `run` looks at that function instead.  Splicing is exact for the shapes accepted below
# (directly awaited call of a plain coroutine: `await coro()` runs the body in the caller's task and does not yield by
# itself; arguments are bound left to right before the body; `return` only where it ends the body), everything else is
# left alone -- the rules then see the un-inlined call and report / refuse as before.

_INLINE_CALLS = 3  # helper bodies spliced into the batch function
_BATCH_ATTRS = frozenset({JOBS, "_jobs_cache", "_jobs_cache_lock", "_get_running_jobs", "_get_output", "_get_returncode"})
_NESTED = (ast.FunctionDef, ast.AsyncFunctionDef, ast.ClassDef)


def _mentions_batch(p, fn, depth: int, submit: bool) -> bool:
    """fn (or a private helper it calls, bound `depth`) touches the bookkeeping of the batch branch"""
    for n in fn.body_nodes():
        if isinstance(n, ast.Attribute) and (n.attr in _BATCH_ATTRS or (submit and n.attr == "_run_batch_command")):
            return True
    return depth > 0 and any(_mentions_batch(p, callee, depth - 1, submit) for _, callee in _self_helper_calls(p, fn))


def _own_walk(root):
    """nodes of a function body (root: def node or statement) without nested defs / classes"""
    stack = [root]
    while stack:
        n = stack.pop()
        yield n
        for c in ast.iter_child_nodes(n):
            if not isinstance(c, _NESTED):
                stack.append(c)


def _stmt_lists(root):
    """every statement list (body / orelse / finalbody / handler and case bodies) of a def, nested defs excluded"""
    for n in _own_walk(root):
        for name in ("body", "orelse", "finalbody"):
            lst = getattr(n, name, None)
            if isinstance(lst, list) and lst and isinstance(lst[0], ast.stmt):
                yield lst


def _call_stmt(stmt):
    """(call, form, awaited) when stmt is `[await] x.h(...)`, `T = [await] x.h(...)` or `return [await] x.h(...)`"""
    if isinstance(stmt, ast.Expr):
        v, form = stmt.value, "expr"
    elif isinstance(stmt, ast.Assign):
        v, form = stmt.value, "assign"
    elif isinstance(stmt, ast.AnnAssign) and stmt.value is not None:
        v, form = stmt.value, "assign"
    elif isinstance(stmt, ast.Return) and stmt.value is not None:
        v, form = stmt.value, "return"
    else:
        return None
    awaited = isinstance(v, ast.Await)
    if awaited:
        v = v.value
    return (v, form, awaited) if isinstance(v, ast.Call) else None


def _has_return(stmts) -> bool:
    return any(isinstance(x, ast.Return) for s in stmts for x in _own_walk(s))


def _always_leaves(stmts) -> bool:
    """the statement list never falls through (ends in return / raise on every branch)"""
    if not stmts:
        return False
    last = stmts[-1]
    if isinstance(last, (ast.Return, ast.Raise)):
        return True
    if isinstance(last, ast.If):
        return _always_leaves(last.body) and _always_leaves(last.orelse)
    return False


def _tailify(stmts: list, on_return) -> list | None:
    """Rewrite a helper body so that it has no `return`: a return that ends the body (directly, in the last `if` /
    `with` of the body, or in a guard clause whose other arm takes the rest of the body) is replaced by
    `on_return(value)`; None when a return sits anywhere else (loop, try, ...): not spliced."""
    out = []
    for i, s in enumerate(stmts):
        rest = stmts[i + 1:]
        if isinstance(s, ast.Return):
            out.extend(on_return(s))
            return out  # what follows is dead code
        if not _has_return([s]):
            out.append(s)
            continue
        if isinstance(s, ast.If):
            if _always_leaves(s.body):
                body, orelse = _tailify(s.body, on_return), _tailify(s.orelse + rest, on_return)
            elif _always_leaves(s.orelse):
                body, orelse = _tailify(s.body + rest, on_return), _tailify(s.orelse, on_return)
            elif not rest:
                body, orelse = _tailify(s.body, on_return), _tailify(s.orelse, on_return)
            else:
                return None
            if body is None or orelse is None:
                return None
            s.body, s.orelse = body or [ast.copy_location(ast.Pass(), s)], orelse
            out.append(s)
            return out
        if isinstance(s, (ast.With, ast.AsyncWith)) and not rest:
            body = _tailify(s.body, on_return)
            if body is None:
                return None
            s.body = body or [ast.copy_location(ast.Pass(), s)]
            out.append(s)
            return out
        return None
    return out


def _pos(n) -> tuple:
    return (n.lineno, n.col_offset, getattr(n, "end_lineno", None), getattr(n, "end_col_offset", None))


class _Splicer:
    """private copy of one function of queue_manager.py (re-parsed from the module source, so real line numbers and no
    engine nodes) into which bodies of private helpers are spliced"""

    def __init__(self, p, base):
        self.p, self.base = p, base
        tree = ast.parse(base.module.source)
        self.defs = {(n.name, n.lineno, n.col_offset): n for n in ast.walk(tree) if isinstance(n, (ast.FunctionDef, ast.AsyncFunctionDef))}
        self.node = self._copy(base)
        self.me = base.params[0]
        self.inlined = []  # (callee Func, position of the call, position of `self._helper`, line of the call)

    def _copy(self, fn):
        import copy

        src = self.defs.get((fn.node.name, fn.node.lineno, fn.node.col_offset))
        return copy.deepcopy(src) if src is not None else None  # own, parent-less nodes

    def candidates(self, submit: bool):
        for lst in _stmt_lists(self.node):
            for i, st in enumerate(lst):
                cs = _call_stmt(st)
                if cs is None:
                    continue
                callee = _helper_def(self.p, self.me, cs[0])
                if callee is not None and callee.qualname != self.base.qualname and _mentions_batch(self.p, callee, _HELPER_BOUND, submit):
                    yield lst, i, st, cs, callee

    def splice_one(self, submit: bool) -> bool:
        for lst, i, st, (call, form, awaited), callee in self.candidates(submit):
            new = self._expand(st, call, form, awaited, callee)
            if new is not None:
                self.inlined.append((callee, _pos(call), _pos(call.func), call.lineno))
                lst[i:i + 1] = new
                return True
        return False

    def _expand(self, st, call, form, awaited, callee) -> list | None:
        h = self._copy(callee)
        a = h.args if h is not None else None
        if h is None or callee.is_async != awaited or a.vararg or a.kwarg or not (a.posonlyargs + a.args):
            return None
        if any(isinstance(x, ast.Starred) for x in call.args) or any(k.arg is None for k in call.keywords):
            return None
        body = h.body
        if body and isinstance(body[0], ast.Expr) and isinstance(body[0].value, ast.Constant) and isinstance(body[0].value.value, str):
            body = body[1:]  # docstring
        inner = [x for s in body for x in _own_walk(s)]
        if any(isinstance(x, (ast.Global, ast.Nonlocal, ast.Yield, ast.YieldFrom, ast.Import, ast.ImportFrom, ast.Match, *_NESTED)) for x in inner):
            return None
        # ---- bind the arguments (receiver first, positional, keywords; constant defaults)
        pos = [x.arg for x in a.posonlyargs + a.args]
        params = pos + [x.arg for x in a.kwonlyargs]
        bound: dict[str, ast.AST] = {}
        if len(call.args) > len(pos) - 1:
            return None
        for name, arg in zip(pos[1:], call.args):
            bound[name] = arg
        for k in call.keywords:
            if k.arg in bound or k.arg not in params[1:] or k.arg in [x.arg for x in a.posonlyargs]:
                return None
            bound[k.arg] = k.value
        defaults = dict(zip(reversed(pos), reversed(a.defaults)))
        defaults.update({k.arg: d for k, d in zip(a.kwonlyargs, a.kw_defaults) if d is not None})
        late = []
        for name in params[1:]:
            if name not in bound:
                if not isinstance(defaults.get(name), ast.Constant):
                    return None
                late.append(name)
        # ---- names: locals of the helper are renamed apart from every name of the caller; a parameter that is never
        # rebound and receives a plain name *is* that name
        stored = {x.id for x in inner if isinstance(x, ast.Name) and isinstance(x.ctx, (ast.Store, ast.Del))}
        stored |= {x.name for x in inner if isinstance(x, ast.ExceptHandler) and x.name}
        local = set(params) | stored
        free = {x.id for x in inner if isinstance(x, ast.Name)} - local
        caller_all = {x.id for x in _own_walk(self.node) if isinstance(x, ast.Name)} | {x.arg for x in ast.walk(self.node.args) if isinstance(x, ast.arg)}
        caller_local = ({x.id for x in _own_walk(self.node) if isinstance(x, ast.Name) and isinstance(x.ctx, (ast.Store, ast.Del))}
                        | {x.arg for x in ast.walk(self.node.args) if isinstance(x, ast.arg)}
                        | {x.name for x in _own_walk(self.node) if isinstance(x, ast.ExceptHandler) and x.name})
        if free & caller_local:
            return None  # a global of the helper would be captured by a local of the caller
        if any(isinstance(x, ast.Lambda) and ({y.arg for y in ast.walk(x.args) if isinstance(y, ast.arg)} & local) for x in inner):
            return None
        used = caller_all | caller_local | free
        ren: dict[str, str] = {params[0]: self.me}
        prologue_names = {}
        for name in sorted(local - {params[0]}):
            arg = bound.get(name)
            if arg is not None and isinstance(arg, ast.Name) and name not in stored:
                ren[name] = arg.id
                continue
            new = name
            while new in used:
                new = f"{new}__{callee.name.strip('_')}"
            used.add(new)
            ren[name] = new
            if name in params:
                prologue_names[name] = new
        for x in inner:
            if isinstance(x, ast.Name) and x.id in ren:
                x.id = ren[x.id]
            elif isinstance(x, ast.ExceptHandler) and x.name in ren:
                x.name = ren[x.name]
        prologue = []
        for name, arg in list(bound.items()) + [(n, defaults[n]) for n in late]:
            if name in prologue_names:
                prologue.append(ast.copy_location(ast.Assign(targets=[ast.copy_location(ast.Name(id=prologue_names[name], ctx=ast.Store()), st)], value=arg), st))
            elif not isinstance(arg, (ast.Name, ast.Constant)):
                prologue.append(ast.copy_location(ast.Expr(value=arg), st))  # unused parameter: the argument is still evaluated
        # ---- returns
        import copy

        if form == "return":
            if not _always_leaves(body):
                body = body + [ast.copy_location(ast.Return(value=ast.copy_location(ast.Constant(value=None), st)), body[-1] if body else st)]
        else:
            def on_return(r):
                if form == "expr":
                    return [ast.copy_location(ast.Expr(value=r.value), r)] if r.value is not None and not isinstance(r.value, (ast.Name, ast.Constant)) else []
                tpl = copy.deepcopy(st)  # own, parent-less nodes
                tpl.value = r.value if r.value is not None else ast.copy_location(ast.Constant(value=None), r)
                return [ast.copy_location(tpl, r)]

            if form == "assign" and not _always_leaves(body):
                body = body + [ast.copy_location(ast.Return(value=None), body[-1] if body else st)]
            body = _tailify(body, on_return)
            if body is None:
                return None
        out = prologue + body
        return out or [ast.copy_location(ast.Pass(), st)]

    def func(self):
        from ..model import Func, set_parents

        ast.fix_missing_locations(self.node)
        set_parents(self.node)
        self.node._parent = getattr(self.base.node, "_parent", None)
        return Func(self.base.qualname, self.node, self.base.module, self.base.cls, self.base.outer)


def _inline_helpers(p, base, submit: bool = False):
    """(function to analyse, [(helper Func, call position, `self._helper` position, line)]): base itself when no
    private helper holding a part of the batch branch is called in a spliceable way"""
    if not base.params or not any(_mentions_batch(p, callee, _HELPER_BOUND, submit) for _, callee in _self_helper_calls(p, base)):
        return base, []
    sp = _Splicer(p, base)
    if sp.node is None:
        return base, []
    for _ in range(_INLINE_CALLS):
        if not sp.splice_one(submit):
            break
    if not sp.inlined:
        return base, []
    return sp.func(), sp.inlined


def _polls(p, fn) -> list:
    return [n for n in _by_name(fn.cfg, "_get_running_jobs") if any(call_is(p, fn, c, f"{QMC}._get_running_jobs") for c in n.calls())]


def _run_facts_uncached(ctx):
    p = ctx.prog
    run = p.func(f"{QMC}.run")
    # the batch branch (submission .. wait .. result) is analysed where it lives: in run itself, or -- when the long
    # method was split -- in the private helper of QueueManagerConnector that run reaches through resolved
    # `self._helper(...)` calls (bound _HELPER_BOUND).  The links of that chain get their own obligations (R3: only the
    # helper writes the bookkeeping, R4: its result is awaited and returned unchanged, R5: it receives a wrapping location).
    chains = _batch_chains(p, run, _HELPER_BOUND, frozenset({run.qualname}))
    ctx.require(len(chains) == 1, "C27: `job_id = await self._run_batch_command(...)` not found in QueueManagerConnector.run"
                                  + (f" nor in a private helper it calls (bound {_HELPER_BOUND})" if not chains else ": several helper routes submit a batch job (shape not interpretable)"))
    chain = chains[0]
    real = chain[-1][2] if chain else run
    # a *part* of the batch branch moved into a private coroutine (B22-3: registration .. wait loop .. pop in
    # `_wait_for_job`, awaited by run between submission and result collection): its body is spliced in at the call
    f, inlined = _inline_helpers(p, real)
    if chain and not _polls(p, f):
        # the split the other way round: the helper submits (and registers), run waits and collects -- decided on run
        # with the submitting helper spliced in
        f2, inl2 = _inline_helpers(p, run, submit=True)
        if inl2 and _submits(p, f2) and _polls(p, f2):
            f, inlined, chain, real = f2, inl2, [], run
    via = ""
    if chain:
        via = (" [`run` is the batch branch of QueueManagerConnector.run, followed through the resolved call(s) "
               + " -> ".join(f"`{caller.params[0]}.{callee.name}(...)` at L{call.lineno} of {caller.name}" for caller, call, callee in chain) + f" into {f.qualname}]")
    if inlined:
        via += (f" [decided on {real.name} with the body of " + ", ".join(f"`{f.params[0]}.{callee.name}(...)` (called at L{line}, {callee.qualname})" for callee, _, _, line in inlined)
                + " spliced in at the call]")
    g = f.cfg
    me = f.params[0]
    A = _submits(p, f)
    ctx.require(len(A) == 1 and isinstance(A[0].ast, ast.Assign) and len(A[0].ast.targets) == 1 and isinstance(A[0].ast.targets[0], ast.Name),
                f"C27: `job_id = await self._run_batch_command(...)` not found in {f.qualname}")
    jid = A[0].ast.targets[0].id
    ctx.require(len([d for d in defs_of(f, jid)]) == 1, f"C27: `{jid}` is assigned more than once in {f.name} (shape not interpretable)")
    jobs = f"{me}.{JOBS}"
    B = [n for n in g.nodes.values() if n.kind == "stmt" and isinstance(n.ast, ast.Assign)
         and any(isinstance(t, ast.Subscript) and dotted(t.value) == jobs for t in n.ast.targets)]
    D = _polls(p, f)
    ctx.require(bool(D), f"C27: {f.name} no longer polls _get_running_jobs")
    # the cache cleared by run
    C = [n for n in g.nodes.values() if any(isinstance(c.func, ast.Attribute) and c.func.attr == "clear" and (dotted(c.func.value) or "").startswith(me + ".")
                                             and "cache" in c.func.value.attr for c in n.calls())]
    return dict(f=f, g=g, me=me, A=A[0], jid=jid, jobs=jobs, B=B, C=C, D=D, chain=chain, via=via, run=run, real=real, inlined=inlined)


def _obv(ctx, F):
    """ctx.ob whose finding text says where the batch branch was found when it is not run itself"""
    via = F["via"]

    def ob(*a, **kw):
        if via and kw.get("message"):
            kw["message"] = kw["message"] + via
        return ctx.ob(*a, **kw)

    return ob


def _forwarded(caller, call) -> tuple[bool, list]:
    """the result of `call` (a helper holding the batch branch) is awaited and is what `caller` returns on every normal
    path behind it (directly or through local temporaries): (ok, witness path that ends without returning it)"""
    g = caller.cfg
    if not isinstance(getattr(call, "_parent", None), ast.Await):
        return False, []
    good = set()
    for n in g.nodes.values():
        if n.kind == "return" and n.ast.value is not None:
            vals = origins(caller, n.ast.value)
            if vals and all(v is call for v in vals):
                good.add(n.id)
    if not good:
        return False, []
    for i in g.node_containing(call):
        if i in good:
            continue
        w = g.escape(i, good)
        if w:
            return False, g.describe(w)
    return True, []


def _path_without_edges(g, src: int, dsts: set[int], banned) -> list[int] | None:
    """Shortest path src -> dsts over all edge kinds (normal, exception, cancellation) that never follows an edge
    (a, kind) for which `banned(a, kind)` holds."""
    if not dsts:
        return None
    prev, todo = {src: None}, [src]
    while todo:
        nxt = []
        for a in todo:
            for b, k in g.succ[a]:
                if k not in ALLC or b in prev or banned(a, k):
                    continue
                prev[b] = a
                if b in dsts:
                    out = [b]
                    while prev[out[-1]] is not None:
                        out.append(prev[out[-1]])
                    return out[::-1]
                nxt.append(b)
        todo = nxt
    return None


def _route(g, path) -> str:
    """name the first exceptional edge of a witness path"""
    for a, b in zip(path, path[1:]):
        k = next((k for x, k in g.succ[a] if x == b and k in ("exc", "cexc")), None)
        if k:
            return f"{'cancellation' if k == 'cexc' else 'exception / cancellation'} raised at L{g.nodes[a].lineno} `{g.nodes[a].text(50)}`"
    return "normal control flow"


def _is_jid(f, e, jid) -> bool:
    """e denotes the submitted job's id: the variable the submission was assigned to, or a local alias of it (`origins`
    expands an alias down to the awaited submission itself)"""
    sub = [strip_await(d.value) for d in defs_of(f, jid) if d.kind == "assign" and d.index is None and d.value is not None]
    return any((isinstance(o, ast.Name) and o.id == jid) or any(o is x for x in sub) for o in [e, *origins(f, e)])


# =========================================================================== R1


def r1(ctx):
    p = ctx.prog
    F = _run_facts(ctx)
    f, g, me, A, jid, B, C, D = F["f"], F["g"], F["me"], F["A"], F["jid"], F["B"], F["C"], F["D"]
    ob = _obv(ctx, F)
    Bi, Ci, Di = [n.id for n in B], [n.id for n in C], [n.id for n in D]
    # 1. registration after submission, before every poll
    ok = bool(B) and all(g.dominates(A.id, b) for b in Bi) and all(g.dominates(Bi, d) for d in Di)
    ob("R1", "the job id is registered after submission and before every poll", ok, func=f, node=B[0].ast if B else A.ast, instance="run:register",
           message="run: `_scheduled_jobs[job_id] = ...` does not lie between the submission and the first _get_running_jobs: the listing may not cover the job")
    # 2. cache invalidated between registration and every poll
    w = None
    for b in Bi or [A.id]:
        for d in Di:
            w = w or g.path(b, [d], avoid=Ci)
    ob("R1", "the jobs cache is cleared between registration and every poll", bool(C) and w is None, func=f, node=C[0].ast if C else A.ast, instance="run:clear",
           message="run: a path from the registration of the job id to _get_running_jobs avoids `_jobs_cache.clear()`: a listing cached before the "
                   "registration (without this job) makes the job look finished at once", witness=g.describe(w) if w else [])
    # 3. lock scope
    locks = [_lock_of(c, f.node) for n in C for c in n.calls() if isinstance(c.func, ast.Attribute) and c.func.attr == "clear"]
    lock = None
    cand = set.intersection(*locks) if locks else set()
    cand = {x for x in cand if x.startswith(me + ".")}
    if len(cand) == 1:
        lock = next(iter(cand))
    ob("R1", "the cache is cleared under the jobs-cache lock", lock is not None, func=f, node=C[0].ast if C else f.node, instance="run:clear-locked",
           message="run clears the jobs cache outside `async with self._jobs_cache_lock`: an in-flight poll stores its stale listing after the clear")
    if lock is not None:
        t = p.attr_type(f.cls.qualname, lock.split(".", 1)[1])
        ctx.require(t in ("asyncio.Lock", "asyncio.locks.Lock"), f"C27.R1: `{lock}` is a {t}, not an asyncio.Lock")
    for n in D:
        for c in n.calls():
            if isinstance(c.func, ast.Attribute) and c.func.attr == "_get_running_jobs" and call_is(p, f, c, f"{QMC}._get_running_jobs"):
                ob("R1", "every poll holds the jobs-cache lock", lock is not None and lock in _lock_of(c, f.node), func=f, node=c, instance="run:poll-locked",
                       message="run polls _get_running_jobs outside the jobs-cache lock: its (possibly stale) listing can be stored after another job's cache clear")
    # 4. exit test
    listing = set()
    for n in D:
        if isinstance(n.ast, ast.Assign) and len(n.ast.targets) == 1 and isinstance(n.ast.targets[0], ast.Name):
            listing.add(n.ast.targets[0].id)
    tests = []
    for n in g.nodes.values():
        if n.kind != "test":
            continue
        hit = []

        def atom(e, _hit=hit):
            cp = compare_pair(e)
            if cp and isinstance(cp[1], (ast.In, ast.NotIn)) and _is_jid(f, cp[0], jid) and isinstance(cp[2], ast.Name) and cp[2].id in listing:
                _hit.append(e)
                return isinstance(cp[1], ast.In)  # value while the job is still listed
            return None

        v = fold3(n.ast, atom)
        if hit and v is not None:
            tests.append((n, v))
    rets = [n for n in g.nodes.values() if n.kind == "return" and n.id in g.reach([A.id], kinds=ALLC)]
    ctx.require(any(n.id in g.reach([A.id]) for n in rets), "C27.R1: the batch branch of run has no return")
    ob("R1", "run tests `job_id not in <latest listing>`", len(tests) >= 1, func=f, node=tests[0][0].ast if tests else A.ast, instance="run:exit-test",
           message="run no longer tests whether the job id left the listing returned by _get_running_jobs")
    Ei = [n.id for n, _ in tests]
    still = [s for n, v in tests for s in edge_succ(g, n.id, "t" if v else "f")]
    done = [s for n, v in tests for s in edge_succ(g, n.id, "f" if v else "t")]
    in_wait = g.reach(still, avoid=Ei, include_src=True) if tests else set()
    done_kind = {n.id: ("f" if v else "t") for n, v in tests}
    for r in rets:
        # over normal, exception and cancellation routes (a handler that returns or leaves the loop counts too)
        unobserved = _path_without_edges(g, A.id, {r.id}, lambda a, k: done_kind.get(a) == k)
        ok = bool(tests) and g.dominates(Ei, r.id) and r.id not in in_wait and unobserved is None
        ob("R1", "the result is returned only after the job left the listing", ok, func=f, node=r.ast, instance="run:return-after-exit",
               message="run can return the job's result while the job id is still in the running-jobs listing (or without testing it)"
                       + (f" -- {_route(g, unobserved)}" if unobserved else ""), witness=g.describe(unobserved) if unobserved else [])
    ok = bool(tests) and all(g.dominates(Di, e) for e in Ei)
    stale = None
    for s in still:
        stale = stale or g.path(s, Ei, avoid=Di)
    ob("R1", "every round of the wait loop tests a fresh listing", ok and stale is None, func=f, node=tests[0][0].ast if tests else A.ast, instance="run:fresh-listing",
           message="run re-tests the job id against a listing that was not re-polled (or never tests it)", witness=g.describe(stale) if stale else [])
    # 5. pop
    P = _nodes_calling(g, lambda c: _is_attr_call(c, F["jobs"], "pop")) + [
        n for n in g.nodes.values() if n.kind == "stmt" and isinstance(n.ast, ast.Delete) and any(isinstance(t, ast.Subscript) and dotted(t.value) == F["jobs"] for t in n.ast.targets)]
    Pi = [n.id for n in P]
    early = [x for x in Pi if not (tests and g.dominates(Ei, x)) or x in in_wait]
    ob("R1", "the job id is removed from _scheduled_jobs only after the job left the listing", bool(P) and not early, func=f, node=P[0].ast if P else A.ast, instance="run:pop-after-exit",
           message="run removes the job id from _scheduled_jobs before the exit test succeeded (queries restricted to _scheduled_jobs then miss the job)" if P else
                   "run never removes the finished job id from _scheduled_jobs")
    # 5b. ... also on the exception / cancellation routes (handlers, finally copies): a removal reached without
    # crossing the exit edge of the test deregisters a job that is still queued, so undeploy no longer cancels it
    failing = _path_without_edges(g, g.entry, set(Pi) - set(early), lambda a, k: done_kind.get(a) == k) if tests else None
    bad = g.nodes[failing[-1]] if failing else None
    ob("R1", "no exception / cancellation route removes the job id while the job may still be queued", bool(tests) and failing is None, func=f,
           node=bad.ast if bad is not None else (P[0].ast if P else A.ast), instance="run:pop-on-failure-route",
           message=(f"run executes `{bad.text(60)}` on a route that did not observe the job leaving the queue ({_route(g, failing)}): when the wait is "
                    "cancelled or a poll raises, the still queued job is deregistered and undeploy no longer cancels it") if bad is not None else
                   "run has no exit test, so every removal of the job id is unobserved",
           witness=g.describe(failing) if failing else [])
    esc = None
    for s in done:
        esc = esc or (g.escape(s, Pi) if s not in Pi else None)
    ob("R1", "every path from the loop exit removes the job id", bool(P) and bool(done) and esc is None, func=f, node=P[0].ast if P else A.ast, instance="run:pop-always",
           message="run can finish without removing the job id from _scheduled_jobs: undeploy would cancel a job that already left the queue",
           witness=g.describe(esc) if esc else [])
    # 6. _scheduled_jobs follows the queue without a window: undeploy (R3) cancels exactly the registered ids, and
    # asyncio runs it only at a suspension point of run().  So no suspension point may lie (a) between the exit edge
    # of the test (run learnt that the job left the queue) and the removal of the id -- an undeploy landing there
    # cancels a job that already left the queue (seeded C27b-2: pop moved behind the awaited _get_output /
    # _get_returncode) -- nor (b) between the completed submission and the registration -- an undeploy landing
    # there leaves the freshly queued job in the queue.  Releasing the (type-checked) asyncio.Lock is no suspension.
    def _lock_release(n) -> bool:
        return (lock is not None and n.kind == "with_exit" and isinstance(n.ast, ast.AsyncWith)
                and all(dotted(it.context_expr) == lock for it in n.ast.items))

    susp = {i for i in g.suspension_nodes() if not _lock_release(g.nodes[i])}
    pop_calls = [c for n in P for c in n.calls() if _is_attr_call(c, F["jobs"], "pop")]

    def _pop_late(n):
        """an await of pop node n that completes before its removal takes effect"""
        if isinstance(n.ast, ast.Delete):
            return next((x for x in n.walk() if isinstance(x, ast.Await)), None)
        for c in n.calls():
            if c in pop_calls:
                for x in n.walk():
                    if isinstance(x, ast.Await) and _evaluated_before(x, c):
                        return x
        return None

    w = _window(g, done, set(Pi), susp, lambda n: _pop_late(n) is not None) if P and done else None
    wn = g.nodes[w[-1]] if w else None
    ob("R1", "no suspension point between the loop exit and the removal of the job id", bool(P) and bool(done) and w is None, func=f,
           node=wn.ast if wn is not None else (P[0].ast if P else A.ast), instance="run:pop-atomic",
           message=(f"run suspends at `{wn.text(70)}` (L{wn.lineno}) after it learnt that the job left the queue and before `{_norm(P[0].ast)}`: "
                    "an undeploy running during that await still finds the id in _scheduled_jobs and cancels a job that already left the queue") if wn is not None else
                   "run has no removal of the job id behind the exit test", witness=g.describe(w) if w else [])
    after_submit = [b for b, k in g.succ[A.id] if k in ("n", "t", "f")]
    w = _window(g, after_submit, set(Bi), susp, lambda n: n.has_await()) if B else None
    wn = g.nodes[w[-1]] if w else None
    ob("R1", "no suspension point between the submission and the registration of the job id", bool(B) and w is None, func=f,
           node=wn.ast if wn is not None else (B[0].ast if B else A.ast), instance="run:register-atomic",
           message=(f"run suspends at `{wn.text(70)}` (L{wn.lineno}) between the submission and `{_norm(B[0].ast)}`: an undeploy running during that await "
                    "does not find the queued job in _scheduled_jobs and leaves it in the queue") if wn is not None else "run does not register the job id",
           witness=g.describe(w) if w else [])


def _evaluated_before(w: ast.AST, c: ast.AST) -> bool:
    """expression w (an await) of the same statement completes before call c is executed (Python evaluation order:
    operands and arguments left to right before the call, assigned value before targets, IfExp test before arms)"""
    aw, ac = [w, *ancestors(w)], [c, *ancestors(c)]
    if c in aw:
        return True  # inside the receiver / arguments of c
    if w in ac:
        return False  # c is (part of) the awaited expression
    common = next((x for x in aw if x in ac), None)
    if common is None:
        return False
    bw, bc = aw[aw.index(common) - 1], ac[ac.index(common) - 1]
    if isinstance(common, ast.IfExp):
        return bw is common.test
    if isinstance(common, (ast.Assign, ast.AnnAssign, ast.AugAssign)):
        return bw is common.value and bc is not common.value
    return (w.lineno, w.col_offset) < (c.lineno, c.col_offset)


def _window(g, srcs, stops: set[int], susp: set[int], stop_is_late) -> list[int] | None:
    """Shortest path (normal and exception edges) from one of srcs to a suspension node that is reached before any
    node of `stops`; a stop node itself counts when `stop_is_late(node)` (it awaits before taking effect)."""
    prev = {}
    todo = []
    for s in srcs:
        if s not in prev:
            prev[s] = None
            todo.append(s)
    while todo:
        nxt = []
        for a in todo:
            hit = stop_is_late(g.nodes[a]) if a in stops else a in susp
            if hit:
                out = [a]
                while prev[out[-1]] is not None:
                    out.append(prev[out[-1]])
                return out[::-1]
            if a in stops:
                continue
            for b, k in g.succ[a]:
                if k in ("n", "t", "f", "exc") and b not in prev:
                    prev[b] = a
                    nxt.append(b)
        todo = nxt
    return None


# =========================================================================== R2


def _cache_decorators(p, f):
    out = []
    for d in f.decorators:
        if isinstance(d, ast.Call):
            names = p.resolve_call(f, d, fanout=False)
            if any(q.split(".")[-1] in ("cached", "cachedmethod") for q in names):
                out.append(d)
        elif (dotted(d) or "").split(".")[-1] in ("cached", "cachedmethod", "cache", "lru_cache"):
            out.append(d)
    return out


_INLINE = 3  # bound on getter -> getter / alias -> getter indirections followed


def _first_positional(args: ast.arguments) -> str | None:
    """name of the parameter that receives the single positional argument of `getter(obj)`; None when the
    callable cannot be called with exactly one positional argument"""
    pos = [*args.posonlyargs, *args.args]
    if not pos:
        return None
    n_required = len(pos) - len(args.defaults)
    if n_required > 1 or any(d is None for d in args.kw_defaults):
        return None
    return pos[0].arg


def _denotes(f, e, name: str) -> bool:
    """every value local expression `e` may denote is the (never rebound) parameter `name`"""
    if f is None:  # lambda: no statements, so no rebinding (a walrus inside is refused)
        return isinstance(e, ast.Name) and e.id == name
    if [d.kind for d in defs_of(f, name)] != ["param"]:
        return False
    os_ = origins(f, e)
    return bool(os_) and all(isinstance(o, ast.Name) and o.id == name for o in os_)


def _yields_attr(p, mod, f, e, obj: str, attr: str, depth: int) -> bool:
    """expression `e` (evaluated in function `f`, or in a lambda when f is None) is `<obj>.<attr>`, where obj is
    the callable's own first argument: attribute access / getattr through local aliases and temporaries, either
    arm of a conditional expression, or the result of another recognised getter applied to obj."""
    vals = origins(f, e) if f is not None else ([e.body, e.orelse] if isinstance(e, ast.IfExp) else [e])
    if not vals:
        return False
    for v in vals:
        if v is not e and isinstance(v, ast.IfExp):
            if not _yields_attr(p, mod, f, v, obj, attr, depth):
                return False
            continue
        if isinstance(v, ast.Attribute):
            if not (v.attr == attr and _denotes(f, v.value, obj)):
                return False
        elif isinstance(v, ast.Call) and not v.keywords and isinstance(v.func, ast.Name) and v.func.id == "getattr" and len(v.args) == 2:
            if p.resolve_dotted(mod, "getattr") != "getattr":
                return False
            a = v.args[1]
            if not (isinstance(a, ast.Constant) and a.value == attr and _denotes(f, v.args[0], obj)):
                return False
        elif isinstance(v, ast.Call) and not v.keywords and len(v.args) == 1 and not isinstance(v.args[0], ast.Starred):
            if f is not None and isinstance(v.func, ast.Name) and defs_of(f, v.func.id):
                return False  # a local callable: not followed
            if not (_denotes(f, v.args[0], obj) and _getter_yields(p, mod, None, v.func, attr, depth - 1)):
                return False
        else:
            return False
    return True


def _module_bindings(m, name: str) -> list:
    """values bound to module-level `name` in module m: the assigned expression for a plain `name = <expr>`, None for
    every other kind of (re)binding (unpacking, augmented, loop / with target, del, `global name` in a function)"""
    out = []
    for n in ast.walk(m.tree):
        if isinstance(n, ast.Global):
            if name in n.names:
                out.append(None)
            continue
        if isinstance(n, (ast.FunctionDef, ast.AsyncFunctionDef, ast.ClassDef)):
            tg, val = ([ast.Name(id=n.name)], None)
        elif isinstance(n, (ast.Assign, ast.Delete)):
            tg, val = n.targets, getattr(n, "value", None)
        elif isinstance(n, (ast.AnnAssign, ast.AugAssign, ast.NamedExpr, ast.For, ast.AsyncFor)):
            tg, val = [n.target], (n.value if isinstance(n, ast.AnnAssign) else None)
        elif isinstance(n, (ast.With, ast.AsyncWith)):
            tg, val = [i.optional_vars for i in n.items if i.optional_vars is not None], None
        elif isinstance(n, (ast.Import, ast.ImportFrom)):
            tg, val = [ast.Name(id=(a.asname or a.name).split(".")[0]) for a in n.names], None
        else:
            continue
        if any(isinstance(a, (ast.FunctionDef, ast.AsyncFunctionDef, ast.ClassDef, ast.Lambda)) for a in ancestors(n)):
            continue  # not module scope
        for t in tg:
            if isinstance(t, ast.Name) and t.id == name:
                out.append(val)
            elif any(isinstance(x, ast.Name) and x.id == name for x in ast.walk(t)):
                out.append(None)
    return out


def _getter_yields(p, mod, cls, ce, attr: str, depth: int = _INLINE) -> bool:
    """The callable expression `ce` (written in module `mod`, class body `cls` or None), applied to one positional
    argument `obj`, returns `obj.<attr>` on every path.  This is what cachebox's `cached(cache=<callable>)` does with it
    (`cache(args[0])`, args[0] being the connector).  Accepted: a lambda, a named function (module level, imported, or
    defined in the same class body), a module-level name bound once to such a callable, `operator.attrgetter('<attr>')`;
    function bodies may use local aliases / temporaries, `getattr(obj, '<attr>')`, and may delegate to another
    recognised getter (bounded inlining).  Anything else is not recognised (=> the rule reports)."""
    if depth <= 0 or ce is None:
        return False
    if isinstance(ce, ast.Lambda):
        obj = _first_positional(ce.args)
        if obj is None or any(isinstance(x, ast.NamedExpr) for x in ast.walk(ce.body)):
            return False
        return _yields_attr(p, mod, None, ce.body, obj, attr, depth)
    if isinstance(ce, ast.Call):
        q = p.resolve_expr(mod, ce.func)
        if q == "operator.attrgetter":
            return len(ce.args) == 1 and not ce.keywords and isinstance(ce.args[0], ast.Constant) and ce.args[0].value == attr
        return False
    d = dotted(ce)
    if d is None:
        return False
    fn = None
    if cls is not None and isinstance(ce, ast.Name):
        # a name in a class body (decorator argument) sees the functions defined earlier in that class body
        cand = cls.methods.get(ce.id)
        if cand is not None and cand.node.lineno < ce.lineno:
            if any((dotted(x) or "").split(".")[-1] != "staticmethod" for x in cand.decorators):
                return False
            fn = cand
    if fn is None:
        q = p.resolve_dotted(mod, d)
        if q is None:
            return False
        fn = p.functions.get(q)
        if fn is not None and (fn.cls is not None or fn.decorators):
            return False  # bound methods / wrapped functions: not interpreted
    if fn is None:
        # a module-level name bound exactly once, by a plain assignment, to a recognised callable
        mname, _, name = q.rpartition(".")
        m2 = p.modules.get(mname)
        if m2 is None:
            return False
        binds = _module_bindings(m2, name)
        if len(binds) != 1 or binds[0] is None:
            return False
        return _getter_yields(p, m2, None, binds[0], attr, depth - 1)
    # a named function: plain `def`, undecorated (or a staticmethod of the class body), not a generator
    node = fn.node
    if fn.is_async or any(isinstance(x, (ast.Yield, ast.YieldFrom)) for x in fn.body_nodes()):
        return False
    obj = _first_positional(node.args)
    if obj is None:
        return False
    g = fn.cfg
    rets = [n for n in g.nodes.values() if n.kind == "return"]
    if not rets:
        return False
    # no fall-through (implicit `return None`): every normal predecessor of the exit is a return statement
    ret_ids = {n.id for n in rets}
    for a, succs in g.succ.items():
        if a not in ret_ids and any(b == g.exit and k in ("n", "t", "f") for b, k in succs):
            return False
    live = g.reach([g.entry], include_src=True)
    for r in rets:
        if r.id not in live:
            continue
        if r.ast.value is None or not _yields_attr(p, fn.module, fn, r.ast.value, obj, attr, depth):
            return False
    return True


def r2(ctx):
    p = ctx.prog
    F = _run_facts(ctx)
    me = F["me"]
    cleared = {c.func.value.attr for n in F["C"] for c in n.calls() if isinstance(c.func, ast.Attribute) and c.func.attr == "clear" and isinstance(c.func.value, ast.Attribute)}
    ctx.require(len(cleared) <= 1, "C27.R2: run clears several caches (shape not interpretable)")
    cache_attr = next(iter(cleared), "_jobs_cache")
    impls = p.concrete_impls(QMC, "_get_running_jobs")
    ctx.require(bool(impls), "C27.R2: no concrete _get_running_jobs found")
    keymakers = {}
    for m in impls:
        decs = _cache_decorators(p, m)
        if not decs:
            ctx.ob("R2", f"{m.cls.name}._get_running_jobs is not memoised", True, func=m, node=m.node, instance="sibling:cache", trivial=True)
            keymakers[m.cls.name] = "<not cached>"
            continue
        for d in decs:
            ok = False
            got = "?"
            if isinstance(d, ast.Call):
                ce = next((k.value for k in d.keywords if k.arg == "cache"), d.args[0] if d.args else None)
                got = _norm(ce)
                # cachebox calls a callable `cache` as cache(args[0]) (args[0]: the connector): lambda, named function,
                # module-level alias, attrgetter -- whatever the spelling, it must yield <connector>.<cache_attr>
                ok = _getter_yields(p, m.module, m.cls, ce, cache_attr)
                km = next((k.value for k in d.keywords if k.arg == "key_maker"), None)
                keymakers[m.cls.name] = _norm(km) if km is not None else "<default>"
            else:
                got = _norm(d)
            ctx.ob("R2", f"{m.cls.name}._get_running_jobs is memoised on the cache that run clears", ok, func=m, node=d, instance="sibling:cache",
                   message=f"{m.cls.name}._get_running_jobs is cached on `{got}`, not on self.{cache_attr}: run's clear() does not invalidate it and a listing "
                           "taken before a submission makes the new job look finished")
    if len(set(keymakers.values())) > 1:
        ctx.observe(f"C27.R2: sibling _get_running_jobs implementations use different cache keys {keymakers} (not armed: clear() empties the cache whatever the key)")
    # every call site holds the lock
    lock = f"{me}._jobs_cache_lock"
    sites = {}
    family = {f"{QMC}._get_running_jobs"} | {m.qualname for m in impls}
    cands = []
    spliced = {callee.qualname for callee, _, _, _ in F["inlined"]}
    for fn in p.all_funcs():
        if "_get_running_jobs" not in fn.module.source:
            continue
        if fn.qualname in spliced:
            continue  # its body is part of F["f"] (spliced in at the only place it is used, R3): judged there, under the caller's locks too
        if fn.qualname == F["f"].qualname:
            fn = F["f"]
        for c in fn.calls():
            if (isinstance(c.func, ast.Attribute) and c.func.attr == "_get_running_jobs") or (isinstance(c.func, ast.Name) and c.func.id == "_get_running_jobs"):
                cands.append((fn, c))
    for caller, call in cands:
        names = p.resolve_call(caller, call)
        foreign = [q for q in names if q in p.functions and q not in family]
        if foreign and not (set(names) & family):
            continue  # another class's method of the same name (DefaultScheduler._get_running_jobs)
        sites[id(call)] = (caller, call)
    ctx.require(bool(sites), "C27.R2: no call site of _get_running_jobs found")
    for caller, call in sites.values():
        recv = call.func.value if isinstance(call.func, ast.Attribute) else None
        locks = _lock_of(call, caller.node)
        want = f"{dotted(recv)}._jobs_cache_lock" if recv is not None and dotted(recv) else lock
        ctx.ob("R2", "call site of _get_running_jobs holds the jobs-cache lock", want in locks, func=caller, node=call, instance=f"callsite:{caller.name}",
               message=f"{caller.qualname} calls _get_running_jobs outside `async with {want}`")


# =========================================================================== R3


def r3(ctx):
    p = ctx.prog
    f = p.func(f"{QMC}.undeploy")
    g = f.cfg
    me = f.params[0]
    jobs = f"{me}.{JOBS}"
    rem = [c for c in f.calls() if isinstance(c.func, ast.Attribute) and c.func.attr == "_remove_jobs" and call_is(p, f, c, f"{QMC}._remove_jobs")]
    ctx.require(bool(rem), "C27.R3: undeploy no longer calls _remove_jobs")
    sig = p.func(f"{QMC}._remove_jobs").node
    for c in rem:
        a = bind_args(c, sig, skip_self=True).get("jobs")
        ctx.require(a is not None, "C27.R3: `jobs` argument of _remove_jobs not found")
        chain, ok, why = _ids_from_scheduled(f, a, jobs)
        ctx.ob("R3", "the cancelled ids are exactly the ids in _scheduled_jobs", ok, func=f, node=c, instance="undeploy:ids",
               message=f"undeploy cancels `{_norm(a)}`, which is not collected by complete iteration over self._scheduled_jobs ({why})", witness=chain)
    # emptied on every path (before or after the cancellation)
    def _empties(n) -> bool:
        if n.kind == "stmt" and isinstance(n.ast, ast.Assign):
            for t in n.ast.targets:
                pairs = list(zip(t.elts, n.ast.value.elts)) if isinstance(t, ast.Tuple) and isinstance(n.ast.value, ast.Tuple) and len(t.elts) == len(n.ast.value.elts) else [(t, n.ast.value)]
                for tt, vv in pairs:
                    if dotted(tt) == jobs and ((isinstance(vv, ast.Dict) and not vv.keys) or (isinstance(vv, ast.Call) and isinstance(vv.func, ast.Name) and vv.func.id == "dict" and not vv.args and not vv.keywords)):
                        return True
        return any(_is_attr_call(c, jobs, "clear") for c in n.calls())

    rn = [i for c in rem for i in g.node_containing(c)]
    empt = [n.id for n in g.nodes.values() if _empties(n)]
    esc = None
    for r in rn:
        if not g.dominates(empt, r):
            esc = esc or g.escape(r, empt)
    ctx.ob("R3", "undeploy empties _scheduled_jobs on every path", bool(empt) and esc is None, func=f, node=f.node, instance="undeploy:emptied",
           message="undeploy can finish without emptying _scheduled_jobs: a later undeploy/poll would act on ids that were already cancelled",
           witness=g.describe(esc) if esc else [])

    # the emptying discards only what was captured: walking back from the emptying, the last read of the map is
    # reached before any suspension point (otherwise ids registered by run() during that await are forgotten
    # without being cancelled)
    def _reads(n) -> bool:
        for x in n.walk():
            if isinstance(x, ast.Attribute) and isinstance(x.ctx, ast.Load) and dotted(x) == jobs:
                par = getattr(x, "_parent", None)
                if isinstance(par, ast.Attribute) and par.attr == "clear":
                    continue
                return True
        return False

    readers = {n.id for n in g.nodes.values() if _reads(n)}
    susp = g.suspension_nodes()
    for e in empt:
        lost = None
        if e not in readers:
            seen, stack = {e}, [e]
            while stack and lost is None:
                a = stack.pop()
                for b, k in g.pred[a]:
                    if k not in ("n", "t", "f") or b in seen:
                        continue
                    seen.add(b)
                    if b in readers:
                        continue
                    if b in susp:
                        lost = b
                        break
                    stack.append(b)
        ctx.ob("R3", "no suspension point between the last read of _scheduled_jobs and its emptying", lost is None, func=f, node=g.nodes[e].ast, instance="undeploy:atomic-reset",
               message=(f"undeploy awaits `{g.nodes[lost].text(60)}` between reading _scheduled_jobs and `{g.nodes[e].text(40)}`: an id registered by run() during that "
                        "await is dropped without being cancelled (the job stays in the queue, its run() fails on pop)") if lost is not None else "",
               witness=g.describe([lost, e]) if lost is not None else [])
    # writers of the two fields
    # `run` = the function holding the batch branch (run itself, or the helper it was split into: R1 decides the
    # bookkeeping there, so nothing else -- not even the remaining run -- may write it)
    F = _run_facts(ctx)
    batch = F["f"]
    # helpers whose body was spliced into the batch function hold a part of it: R1 decided their writes in place, provided
    # the splice site is the only place they are used (any other caller would run the bookkeeping outside the decided order)
    parts = {callee.qualname: callee for callee, _, _, _ in F["inlined"]}
    allowed = {f"{QMC}.__init__", batch.qualname, f"{QMC}.undeploy"} | set(parts)
    spliced_at = {fpos for _, _, fpos, _ in F["inlined"]}
    for callee in parts.values():
        stray = []
        for m in p.modules.values():
            if callee.name not in m.source:
                continue
            for n in ast.walk(m.tree):
                if isinstance(n, ast.Attribute) and n.attr == callee.name and not (m is callee.module and _pos(n) in spliced_at):
                    stray.append((m, n))
                elif isinstance(n, ast.Name) and n.id == callee.name and m is callee.module:
                    stray.append((m, n))
        ctx.ob("R3", f"{callee.name} (a part of the batch branch of run) is used only where run awaits it", not stray, func=callee,
               node=stray[0][1] if stray else callee.node, instance=f"part-only-in-run:{callee.name}",
               message=(f"{callee.qualname} holds a part of the batch branch of run (it writes / polls the bookkeeping of the queued jobs) but is also referenced at "
                        + ", ".join(f"{m.relpath}:{n.lineno} `{_norm(getattr(n, '_parent', n))}`" for m, n in stray[:3])
                        + ": there the registration / wait / removal runs outside the order decided for run") if stray else "")
    mutators = {"pop", "clear", "update", "setdefault", "popitem", "__setitem__", "__delitem__"}
    found = 0
    for fn in p.all_funcs():
        if JOBS not in fn.module.source and "_jobs_cache" not in fn.module.source:
            continue
        for n in fn.body_nodes():
            hit = None
            if isinstance(n, ast.Attribute) and n.attr in (JOBS, "_jobs_cache"):
                par = getattr(n, "_parent", None)
                if isinstance(n.ctx, (ast.Store, ast.Del)):
                    hit = n
                elif isinstance(par, ast.Subscript) and par.value is n and isinstance(par.ctx, (ast.Store, ast.Del)):
                    hit = par
                elif isinstance(par, ast.Attribute) and par.value is n and par.attr in mutators and isinstance(getattr(par, "_parent", None), ast.Call):
                    hit = par._parent
            if hit is None:
                continue
            found += 1
            ctx.ob("R3", f"`{n.attr}` is written only by QueueManagerConnector.__init__/{batch.name}/undeploy", fn.qualname in allowed, func=fn, node=hit,
                   instance=f"writer:{n.attr}:{fn.qualname}", message=f"{fn.qualname} writes `{_norm(hit)}`: the set of queued ids / the listing cache is changed outside {batch.name}/undeploy"
                   + (f" ({batch.name} holds the batch branch of run, where R1 decides the bookkeeping)" if batch.name != "run" else ""))
    ctx.require(found >= 5, f"C27.R3: only {found} writes of _scheduled_jobs/_jobs_cache found (floor 5)")


def _alias_of(f, name: str, jobs: str) -> bool:
    """local `name` is only ever bound to self._scheduled_jobs (e.g. `old, self._scheduled_jobs = self._scheduled_jobs, {}`)"""
    ds = defs_of(f, name)
    if not ds:
        return False
    for d in ds:
        if d.kind != "assign" or d.value is None:
            return False
        v = d.value
        if d.index is not None:
            if not (isinstance(v, (ast.Tuple, ast.List)) and d.index < len(v.elts)):
                return False
            v = v.elts[d.index]
        if dotted(v) != jobs:
            return False
    return True


def _container_of(f, e, depth: int = 4) -> tuple | None:
    """(local container, positions) denoted by the receiver of an accumulating call: `ids` -> (ids, ()); `m.setdefault(k, ..)` /
    `m[k]` -> (m, ()) (a value of map m); `<value of m>[1]` and a local bound once by `_, ids = <value of m>` -> (m, (1,))."""
    if depth <= 0:
        return None
    if isinstance(e, ast.Call) and isinstance(e.func, ast.Attribute) and e.func.attr == "setdefault" and isinstance(e.func.value, ast.Name):
        return (e.func.value.id, ())
    if isinstance(e, ast.Subscript):
        c = _container_of(f, e.value, depth - 1)
        if isinstance(e.value, ast.Name) and c == (e.value.id, ()):
            return c  # lookup in a local map
        if c is not None and isinstance(e.slice, ast.Constant) and type(e.slice.value) is int and e.slice.value >= 0:
            return (c[0], c[1] + (e.slice.value,))  # element of a tuple value (of a temporary bound to one)
        return None
    if isinstance(e, ast.Name):
        # comprehension variables of another comprehension are not this name
        ds = [d for d in defs_of(f, e.id) if d.kind != "comp" or any(a is getattr(d.stmt, "_parent", None) for a in ancestors(e))]
        if len(ds) == 1 and ds[0].kind == "assign" and isinstance(ds[0].value, (ast.Call, ast.Subscript)):
            tp = _def_path(ds[0], e.id)
            c = _container_of(f, ds[0].value, depth - 1) if tp is not None else None
            if c is not None:
                return (c[0], c[1] + tp)
        return (e.id, ())
    return None


def _ids_from_scheduled(f, expr, jobs: str, path: tuple = ()):
    """Follow `expr` (with a non-empty `path`: its element at these positions) back to a complete iteration over self._scheduled_jobs.
    Accepted: a comprehension/loop variable bound by `<map>.items()/.values()` of a local map that is filled
    by `<map>.setdefault(k, []).append(<id>)` / `<map>[k].append(<id>)` / `<list>.append(<id>)` executed
    unconditionally in a loop over self._scheduled_jobs(.items()/.keys()), or directly such ids."""
    chain = []

    def scheduled_iter(it):
        it = strip_await(it)
        if isinstance(it, ast.Call) and isinstance(it.func, ast.Attribute) and it.func.attr in ("items", "keys") and not it.args:
            recv = it.func.value
            return dotted(recv) == jobs or (isinstance(recv, ast.Name) and _alias_of(f, recv.id, jobs)), it.func.attr
        if isinstance(it, ast.Call) and isinstance(it.func, ast.Name) and it.func.id in ("list", "tuple", "dict") and len(it.args) == 1:
            return scheduled_iter(it.args[0])
        return dotted(it) == jobs or (isinstance(it, ast.Name) and _alias_of(f, it.id, jobs)), "keys"

    def id_var_of_loop(lp):
        ok, kind = scheduled_iter(lp.iter)
        if not ok:
            return None
        t = lp.target
        if kind == "items":
            return t.elts[0].id if isinstance(t, ast.Tuple) and t.elts and isinstance(t.elts[0], ast.Name) else None
        return t.id if isinstance(t, ast.Name) else None

    def container_filled(name, path: tuple = ()) -> tuple[bool, str]:
        """local container `name` (the element at `path` of each of its values) receives the id of every scheduled job"""
        g = f.cfg
        for n in f.body_nodes():
            if not (isinstance(n, ast.Call) and isinstance(n.func, ast.Attribute) and n.func.attr in ("append", "add") and len(n.args) == 1):
                continue
            if _container_of(f, n.func.value) != (name, path):
                continue
            loops = enclosing_loops(n, f.node)
            if len(loops) != 1:
                return False, "ids are accumulated outside a single loop"
            iv = id_var_of_loop(loops[0])
            if iv is None:
                return False, f"accumulation loop iterates `{_norm(loops[0].iter)}`"
            if not (isinstance(n.args[0], ast.Name) and n.args[0].id == iv):
                return False, f"`{_norm(n.args[0])}` is accumulated instead of the job id `{iv}`"
            head = g.ids_of(loops[0])
            nn = g.node_containing(n)
            for s in edge_succ(g, head[0], "t"):
                if s not in nn and g.path(s, head + [g.exit], avoid=nn):
                    return False, "an iteration can skip the accumulation"
            chain.append(f"{name} <- {_norm(n)} in `for {_norm(loops[0].target)} in {_norm(loops[0].iter)}`")
            return True, ""
        return False, f"`{name}` is never filled from _scheduled_jobs"

    e = strip_await(expr)
    if isinstance(e, ast.Subscript) and isinstance(e.slice, ast.Constant) and type(e.slice.value) is int and e.slice.value >= 0 and not (
            isinstance(e.value, ast.Name) and _stores(f, e.value.id)):
        return _ids_from_scheduled(f, e.value, jobs, (e.slice.value,) + path)  # element of a tuple value: `pair[1]`
    if path and not isinstance(e, ast.Name):
        return chain, False, f"`{_norm(e)}`"
    if isinstance(e, ast.Name):
        # bound by a comprehension / loop over a local map?
        comp = None
        for a in ancestors(expr):
            if isinstance(a, (ast.GeneratorExp, ast.ListComp)):
                for gen in a.generators:
                    if e.id in {x.id for x in ast.walk(gen.target) if isinstance(x, ast.Name)}:
                        comp = gen
            if a is f.node:
                break
        if comp is None:
            for lp in enclosing_loops(expr, f.node):
                if e.id in {x.id for x in ast.walk(lp.target) if isinstance(x, ast.Name)}:
                    comp = lp
        if comp is not None:
            if getattr(comp, "ifs", None):
                return chain, False, "a condition skips entries"
            it = strip_await(comp.iter)
            chain.append(f"{e.id} <- `{_norm(comp.target)} in {_norm(it)}`")
            if isinstance(it, ast.Call) and isinstance(it.func, ast.Attribute) and it.func.attr in ("items", "values") and isinstance(it.func.value, ast.Name):
                # position of the variable in the values of the map: `for k, ids in m.items()` / `for ids in m.values()`: the value
                # itself; `for loc, ids in m.values()` / `for k, (loc, ids) in m.items()`: an element of a tuple value (B34-3)
                tp = _target_path(comp.target, e.id)
                if tp is not None and it.func.attr == "items":
                    tp = tp[1:] if tp[:1] == (1,) and isinstance(comp.target, ast.Tuple) and len(comp.target.elts) == 2 else None
                if tp is None or it.args:
                    return chain, False, "the keys of the local map are cancelled, not the collected ids"
                ok, why = container_filled(it.func.value.id, tp + path)
                return chain, ok, why
            ok, kind = scheduled_iter(it)
            return chain, False, f"iterates `{_norm(it)}`"
        ds = [d for d in defs_of(f, e.id) if d.kind == "assign" and d.index is None and d.value is not None]
        direct = [d for d in ds if not isinstance(d.value, (ast.List, ast.Dict, ast.Set)) and not (isinstance(d.value, ast.Call) and not d.value.args and not d.value.keywords)]
        if direct and len(direct) == len(defs_of(f, e.id)):
            for d in direct:
                sub_chain, ok, why = _ids_from_scheduled(f, d.value, jobs, path)
                chain.extend([f"{e.id} = {_norm(d.value)}"] + sub_chain)
                if not ok:
                    return chain, False, why
            return chain, True, ""
        ok, why = container_filled(e.id, path)
        return chain, ok, why
    if isinstance(e, ast.Call) and isinstance(e.func, ast.Name) and e.func.id in ("list", "tuple", "sorted") and len(e.args) == 1:
        ok, kind = scheduled_iter(e.args[0])
        if ok and kind == "keys":
            chain.append(f"{_norm(e)}")
            return chain, True, ""
        return _ids_from_scheduled(f, e.args[0], jobs)
    ok, kind = scheduled_iter(e)
    return chain, ok and kind == "keys", f"`{_norm(e)}`"


# =========================================================================== R4


def r4(ctx):
    p = ctx.prog
    F = _run_facts(ctx)
    f, g, A, jid, B = F["f"], F["g"], F["A"], F["jid"], F["B"]
    ob = _obv(ctx, F)
    for n in B:
        for t in n.ast.targets:
            if isinstance(t, ast.Subscript) and dotted(t.value) == F["jobs"]:
                ob("R4", "the registered key is the id returned by the submission", _is_jid(f, t.slice, jid), func=f, node=n.ast, instance="id:register",
                       message=f"run registers `{_norm(t.slice)}` instead of the id returned by _run_batch_command")
    for c in f.calls():
        if _is_attr_call(c, F["jobs"], "pop"):
            ob("R4", "the removed key is the id returned by the submission", bool(c.args) and _is_jid(f, c.args[0], jid), func=f, node=c, instance="id:pop",
                   message=f"run removes `{_norm(c.args[0]) if c.args else ''}` instead of the job's own id")
    n_res = 0
    for name in ("_get_output", "_get_returncode"):
        sig = p.func(f"{QMC}.{name}").node
        for c in f.calls():
            if isinstance(c.func, ast.Attribute) and c.func.attr == name and call_is(p, f, c, f"{QMC}.{name}"):
                n_res += 1
                a = bind_args(c, sig, skip_self=True).get("job_id")
                ob("R4", f"{name} is asked for the job's own id", a is not None and _is_jid(f, a, jid), func=f, node=c, instance=f"id:{name}",
                       message=f"run reads the result of `{_norm(a)}` instead of the id returned by _run_batch_command: another job's output/exit code is reported")
    ctx.require(n_res >= 2, "C27.R4: run no longer collects output and return code of the job")
    rets = [n for n in g.nodes.values() if n.kind == "return" and n.id in g.reach([A.id])]
    for r in rets:
        vals = list(origins(f, r.ast.value)) + [r.ast.value] if r.ast.value is not None else []
        # ... and the temporaries the returned expression is built from (`return output, returncode`)
        for _ in range(3):
            more = [o for v in vals for x in ast.walk(v) if isinstance(x, ast.Name) for o in origins(f, x) if o is not x and all(o is not y for y in vals)]
            if not more:
                break
            vals.extend(more)
        names = {c.func.attr for o in vals for c in ast.walk(o) if isinstance(c, ast.Call) and isinstance(c.func, ast.Attribute)}
        ob("R4", "the batch branch returns the job's return code", "_get_returncode" in names, func=f, node=r.ast, instance="id:returns-code",
               message="run's batch branch no longer returns the exit code obtained from _get_returncode")
    # the batch branch lives in a helper: every link of the call chain awaits the helper and returns its result unchanged
    for caller, call, callee in F["chain"]:
        ok, w = _forwarded(caller, call)
        ctx.ob("R4", f"{caller.name} awaits {callee.name} (batch branch) and returns its result unchanged", ok, func=caller, node=call, instance=f"id:forwarded:{callee.name}",
               message=f"{caller.qualname} calls `{_norm(call)}`, which holds the batch branch (submission, wait, result), but does not await it and return its "
                       "result unchanged on every path: the job's own output / return code is not what the caller of run receives", witness=w)


# =========================================================================== R5

GIL = "streamflow.deployment.wrapper.get_inner_location"


def _loc_param(p, m) -> str | None:
    for name in m.params:
        ann = m.param_annotation(name)
        if ann is not None and (p.ann_to_class(m.module, ann) or "").endswith(".ExecutionLocation"):
            return name
    return "location" if "location" in m.params else None


def _target_path(t, name: str, path: tuple = ()) -> tuple | None:
    """positions leading from an unpacking target to the local `name` (`k, (loc, jobs)` -> (1, 0) for loc; () for a plain
    name); None if the name is not bound by the target or sits behind a starred element (its position is not fixed)."""
    if isinstance(t, ast.Name):
        return path if t.id == name else None
    if isinstance(t, (ast.Tuple, ast.List)):
        for i, e in enumerate(t.elts):
            if isinstance(e, ast.Starred):
                return None
            r = _target_path(e, name, path + (i,))
            if r is not None:
                return r
    return None


def _def_path(d, name: str) -> tuple | None:
    """position of `name` in the value bound by definition d (assignment, for loop or comprehension)."""
    st = d.stmt
    if isinstance(st, ast.Assign):
        return next((r for t in st.targets if (r := _target_path(t, name)) is not None), None)
    if isinstance(st, (ast.AnnAssign, ast.For, ast.AsyncFor, ast.comprehension)):
        return _target_path(st.target, name)
    return None


_NOT_LOC = -1  # traced to a value that is no location at all (a list / dict / constant display)


def _level(levels) -> int | None:
    if not levels or any(x is None for x in levels):
        return None
    return _NOT_LOC if _NOT_LOC in levels else max(levels)


def _unwrapped(lv) -> str:
    return "it is no location at all (a list / dict / constant)" if lv == _NOT_LOC else f"it was already unwrapped {lv}x with get_inner_location"


def _unwraps(p, f, expr, base: set[str], depth: int = 8, path: tuple = ()) -> int | None:
    """How many times `get_inner_location` was applied on the way from a wrapping (outer) location to expr -- or, with a
    non-empty `path`, to the element of the tuple value expr at these positions (B34-3: one map of (location, jobs) pairs
    instead of two parallel maps).  Outer locations: the function's own location parameter and the values stored in
    self._scheduled_jobs.  None: not traceable; _NOT_LOC: traced to a display that is no location."""
    if depth <= 0 or expr is None:
        return None
    expr = strip_await(expr)
    if not path and isinstance(expr, (ast.List, ast.Dict, ast.Set, ast.Constant, ast.ListComp, ast.DictComp, ast.SetComp, ast.JoinedStr)):
        return None if isinstance(expr, ast.Constant) and expr.value is None else _NOT_LOC  # (a `None` placeholder is not decided)
    if isinstance(expr, (ast.Tuple, ast.List)):
        if not path or path[0] >= len(expr.elts) or any(isinstance(e, ast.Starred) for e in expr.elts[:path[0] + 1]):
            return None
        return _unwraps(p, f, expr.elts[path[0]], base, depth - 1, path[1:])
    if isinstance(expr, ast.Call):
        if (isinstance(expr.func, ast.Name) and expr.func.id == "get_inner_location") or (isinstance(expr.func, ast.Attribute) and expr.func.attr == "get_inner_location"):
            if path or not call_is(p, f, expr, GIL):
                return None
            a = expr.args[0] if expr.args else next((k.value for k in expr.keywords if k.arg == "location"), None)
            n = _unwraps(p, f, a, base, depth - 1)
            return n if n is None or n == _NOT_LOC else n + 1
        if isinstance(expr.func, ast.Attribute) and expr.func.attr == "setdefault" and isinstance(expr.func.value, ast.Name) and len(expr.args) == 2 and not expr.keywords:
            return _stored(p, f, expr.func.value.id, base, depth - 1, path)  # the stored value: the given default or an earlier store
        return None
    if isinstance(expr, ast.Name):
        if expr.id in base:
            return None if path else 0
        levels = []
        ds = defs_of(f, expr.id)
        # comprehension variables are scoped: they are visible inside their comprehension only, and shadow there
        inside = [d for d in ds if d.kind == "comp" and any(a is getattr(d.stmt, "_parent", None) for a in ancestors(expr))]
        ds = inside if inside else [d for d in ds if d.kind != "comp"]
        for d in ds:
            tp = _def_path(d, expr.id) if d.kind in ("assign", "for", "comp") else () if d.kind == "walrus" else None
            if tp is None:
                levels.append(None)
            elif d.kind in ("assign", "walrus"):
                levels.append(_unwraps(p, f, d.value, base, depth - 1, tp + path))
            else:
                it = strip_await(d.value)
                recv = it.func.value if isinstance(it, ast.Call) and isinstance(it.func, ast.Attribute) and it.func.attr in ("items", "values") and not it.args else None
                if recv is not None and it.func.attr == "items":
                    vp = tp[1:] + path if tp[:1] == (1,) else None  # (key, value) pairs: the value side only
                else:
                    vp = tp + path
                if recv is None or vp is None:
                    levels.append(None)
                elif isinstance(recv, ast.Attribute) or (isinstance(recv, ast.Name) and _alias_of(f, recv.id, f"{f.params[0]}.{JOBS}")):
                    levels.append(None if vp else 0)  # locations registered on the connector (stored as received by run(): wrapping)
                elif isinstance(recv, ast.Name):
                    levels.append(_stored(p, f, recv.id, base, depth - 1, vp))
                else:
                    levels.append(None)
        return _level(levels)
    if isinstance(expr, ast.Subscript):
        if isinstance(expr.value, ast.Name) and _stores(f, expr.value.id):
            return _stored(p, f, expr.value.id, base, depth - 1, path)  # lookup in a local map
        if isinstance(expr.slice, ast.Constant) and type(expr.slice.value) is int and expr.slice.value >= 0:
            return _unwraps(p, f, expr.value, base, depth - 1, (expr.slice.value,) + path)  # element of a tuple value
    return None


def _stores(f, name: str) -> list:
    """the values stored in local map `name`: `name.setdefault(k, v)`, `name[k] = v`, the values of a dict display bound to it."""
    out = []
    for n in f.body_nodes():
        if isinstance(n, ast.Call) and isinstance(n.func, ast.Attribute) and n.func.attr == "setdefault" and isinstance(n.func.value, ast.Name) and n.func.value.id == name and len(n.args) == 2:
            out.append(n.args[1])
        elif isinstance(n, ast.Assign):
            for t in n.targets:
                if isinstance(t, ast.Subscript) and isinstance(t.value, ast.Name) and t.value.id == name:
                    out.append(n.value)
    for d in defs_of(f, name):
        if d.kind == "assign" and d.index is None and isinstance(d.value, ast.Dict) and d.value.keys:
            out.extend(v if k is not None else None for k, v in zip(d.value.keys, d.value.values))
    return out


def _stored(p, f, name: str, base, depth, path: tuple = ()) -> int | None:
    """max unwrap level of the values stored in local map `name` (of their element at `path`)."""
    return _level([_unwraps(p, f, v, base, depth, path) for v in _stores(f, name)])


def r5(ctx):
    """Locations are unwrapped exactly once on the way to the wrapped connector: the queue-manager commands of the
    siblings go through `super().run(location=<their location parameter>)`, whose non-batch branch applies
    get_inner_location once; so the siblings must pass their parameter unchanged and their callers must hand them a
    wrapping (outer) location."""
    p = ctx.prog
    run = p.func(f"{QMC}.run")
    lp = _loc_param(p, run)
    ctx.require(lp is not None, "C27.R5: location parameter of run not found")
    # (a) the non-batch branch unwraps once
    sup = [c for c in run.calls() if isinstance(c.func, ast.Attribute) and c.func.attr == "run" and isinstance(c.func.value, ast.Call)
           and isinstance(c.func.value.func, ast.Name) and c.func.value.func.id == "super"]
    ctx.require(len(sup) == 1, "C27.R5: `super().run(...)` delegation not found in QueueManagerConnector.run")
    a = next((k.value for k in sup[0].keywords if k.arg == "location"), sup[0].args[0] if sup[0].args else None)
    n = _unwraps(p, run, a, {lp})
    ctx.ob("R5", "run's non-batch branch unwraps the location exactly once", n == 1, func=run, node=sup[0], instance="unwrap:run",
           message=f"QueueManagerConnector.run delegates with location=`{_norm(a)}` ({n} applications of get_inner_location, expected 1)")
    # (b) siblings pass their location parameter through unchanged
    family: dict[str, str] = {}
    for cq in [QMC] + p.subclasses(QMC):
        for m in p.classes[cq].methods.values():
            if m.name == "run" and cq == QMC:
                continue
            for c in m.calls():
                if (isinstance(c.func, ast.Attribute) and c.func.attr == "run" and isinstance(c.func.value, ast.Call)
                        and isinstance(c.func.value.func, ast.Name) and c.func.value.func.id == "super"):
                    mp = _loc_param(p, m)
                    ctx.require(mp is not None, f"C27.R5: {m.qualname} calls super().run but has no location parameter")
                    a = next((k.value for k in c.keywords if k.arg == "location"), c.args[0] if c.args else None)
                    lv = _unwraps(p, m, a, {mp})
                    family[m.name] = mp
                    ctx.ob("R5", f"{m.cls.name}.{m.name} hands its location parameter to super().run unchanged", lv == 0, func=m, node=c, instance=f"unwrap:{m.name}",
                           message=f"{m.qualname} calls super().run(location={_norm(a)}): the location must be the method's own (still wrapped) parameter, run() unwraps it once")
    ctx.require(len(family) >= 5, f"C27.R5: only {sorted(family)} sibling methods delegate through super().run (floor 5)")
    # (c) callers inside QueueManagerConnector hand over wrapping locations
    n_sites = 0
    F = _run_facts(ctx)
    spliced = {callee.qualname for callee, _, _, _ in F["inlined"]}
    for m in p.classes[QMC].methods.values():
        if m.qualname in spliced:
            continue  # a part of the batch branch: its calls are traced in the function it was spliced into (from that function's own location parameter)
        if m.qualname == F["f"].qualname:
            m = F["f"]
        mp = _loc_param(p, m)
        for c in m.calls():
            if not (isinstance(c.func, ast.Attribute) and c.func.attr in family and dotted(c.func.value) == m.params[0]):
                continue
            callee = p.resolve_method(QMC, c.func.attr)
            ctx.require(callee is not None, f"C27.R5: {c.func.attr} not declared on QueueManagerConnector")
            a = bind_args(c, callee.node, skip_self=True).get(family[c.func.attr])
            lv = _unwraps(p, m, a, {mp} if mp else set())
            ctx.require(lv is not None, f"C27.R5: cannot trace the location `{_norm(a)}` passed to {c.func.attr} in {m.qualname}")
            n_sites += 1
            ctx.ob("R5", f"{m.name} passes a wrapping location to {c.func.attr}", lv == 0, func=m, node=c, instance=f"unwrap:{m.name}->{c.func.attr}",
                   message=f"{m.cls.name}.{m.name} passes `{_norm(a)}` to {c.func.attr}: {_unwrapped(lv)} and {c.func.attr} -> super().run unwraps it "
                           "again, so get_inner_location raises `does not wrap any inner location` (or the command runs one level too deep)")
    # (d) a helper holding the batch branch of run receives run's wrapping location ((c) takes its parameter as wrapping)
    for caller, call, callee in _run_facts(ctx)["chain"]:
        cp, mp = _loc_param(p, callee), _loc_param(p, caller)
        ctx.require(cp is not None, f"C27.R5: {callee.qualname} holds the batch branch of run but has no location parameter")
        a = bind_args(call, callee.node, skip_self=True).get(cp)
        lv = _unwraps(p, caller, a, {mp} if mp else set()) if a is not None else None
        ctx.ob("R5", f"{caller.name} passes a wrapping location to {callee.name}", lv == 0, func=caller, node=call, instance=f"unwrap:{caller.name}->{callee.name}",
               message=f"{caller.cls.name}.{caller.name} passes `{_norm(a)}` as `{cp}` to {callee.name} (batch branch of run): "
                       + (f"{_unwrapped(lv)} and the queue-manager commands -> super().run unwrap it again" if lv else
                          "it cannot be traced to the caller's own (wrapping) location parameter"))
    ctx.require(n_sites >= 4, f"C27.R5: only {n_sites} call sites of the sibling commands found in QueueManagerConnector (floor 4)")


RULES = [("R1", r1), ("R2", r2), ("R3", r3), ("R4", r4), ("R5", r5)]
FLOORS = {"R1": 12, "R2": 4, "R3": 7, "R4": 3, "R5": 23}

RUN = f"{QMC}.run"
UND = f"{QMC}.undeploy"
_CLEAR = "        async with self._jobs_cache_lock:\n            self._jobs_cache.clear()\n"
_REG = "        self._scheduled_jobs[job_id] = location\n"

_LOOP = ("        while True:\n            async with self._jobs_cache_lock:\n                running_jobs = await self._get_running_jobs(location)\n"
         "            if job_id not in running_jobs:\n                break\n            await asyncio.sleep(self.pollingInterval)\n")
_POP = "        self._scheduled_jobs.pop(job_id)\n"
_LAM = "cache=lambda self: self._jobs_cache"
_OUT = "await self._get_output(job_id, location) if stdout == asyncio.subprocess.STDOUT else None"
_RC = "await self._get_returncode(job_id, location)"
_RES = "(" + _OUT + ", " + _RC + ")"


def _ind(text: str) -> str:
    return "".join("    " + ln + "\n" for ln in text.splitlines())


# the whole body of run (normalised text), for the variants that split the method (B16-5)
_HEAD = ("        command_str = utils.create_command(class_name=self.__class__.__name__, command=command, environment=environment, workdir=workdir)\n"
         "        if logger.isEnabledFor(logging.DEBUG):\n"
         "            logger.debug('EXECUTING command {command} on {location} {job}'.format(command=command_str, location=location, job=f'for job {job_name}' if job_name else ''))\n"
         "        if logger.isEnabledFor(logging.WARNING):\n"
         "            if not self.template_map.is_empty() and location.service is None:\n"
         "                logger.warning(f'Deployment {self.deployment_name} contains some service definitions, but none of them has been specified to execute job {job_name}. Execution will fall back to the default template.')\n"
         "        command_str = self.template_map.get_command(command=command_str, template=location.service, environment=environment, workdir=workdir)\n"
         "        job_id = await self._run_batch_command(command=command_str, environment=location.environment, job_name=job_name, location=location, workdir=workdir, stdin=stdin, stdout=stdout, stderr=stderr, timeout=timeout)\n"
         "        if logger.isEnabledFor(logging.INFO):\n"
         "            logger.info(f'Scheduled job {job_name} with job id {job_id}')\n")
_SUPER = ("await super().run(location=get_inner_location(location), command=command, environment=environment, workdir=workdir, stdin=stdin, stdout=stdout, "
          "stderr=stderr, job_name=job_name, timeout=timeout, capture_output=capture_output)")
_BATCH = _HEAD + _REG + _CLEAR + _LOOP + _POP + "        return " + _RES + "\n"
_RUN_BODY = "    if job_name:\n" + _BATCH + "    else:\n        return " + _SUPER
_HELPER_ARGS = "location=location, command=command, job_name=job_name, environment=environment, workdir=workdir, stdin=stdin, stdout=stdout, stderr=stderr, timeout=timeout"
_HELPER_SIG = "(self, location: ExecutionLocation, command, job_name, environment, workdir, stdin, stdout, stderr, timeout)"
_DELEGATE = "        return await self._run_batch_job(" + _HELPER_ARGS + ")\n"


def _dedent4(text: str) -> str:
    return "".join(ln[4:] + "\n" for ln in text.splitlines())


def _split(delegate: str = _DELEGATE, batch: str = _BATCH, extra: str = "") -> str:
    """run split in two cooperating methods (B16-5): the batch branch moves verbatim into a private coroutine that run
    awaits and returns; `delegate` / `batch` / `extra` let a variant change the call site, the moved body, or add a method"""
    return ("    if job_name:\n" + delegate + "    return " + _SUPER + "\n\n" + extra
            + "async def _run_batch_job" + _HELPER_SIG + ":\n" + _dedent4(batch)).rstrip("\n")


# a *part* of the batch branch split off (B22-3): registration .. wait loop .. pop move into `_wait_for_job`, which run
# awaits between the submission and the result collection
_WAIT_BODY = _REG + _CLEAR + _LOOP + _POP
_WAIT_CALL = "        await self._wait_for_job(job_id, location)\n"
_COLLECT = ("        if stdout == asyncio.subprocess.STDOUT:\n            output = await self._get_output(job_id, location)\n        else:\n            output = None\n"
            "        returncode = await self._get_returncode(job_id, location)\n        return (output, returncode)\n")
_WAIT_SIG = "(self, job_id: str, location: ExecutionLocation) -> None"


def _partial(call: str = _WAIT_CALL, collect: str = _COLLECT, wait: str = _WAIT_BODY, sig: str = _WAIT_SIG, extra: str = "", head: str = _HEAD, name: str = "_wait_for_job") -> str:
    return ("    if job_name:\n" + head + call + collect + "    else:\n        return " + _SUPER + "\n\n" + extra
            + "async def " + name + sig + ":\n" + _dedent4(wait)).rstrip("\n")


_SUBMIT = _HEAD.split("        job_id = await self._run_batch_command(")[0]
_SUBMIT_REST = "        job_id = await self._run_batch_command(" + _HEAD.split("        job_id = await self._run_batch_command(")[1]

_GATHER = "    await asyncio.gather(*(asyncio.create_task(self._remove_jobs(loc_map[location], jobs)) for location, jobs in jobs_map.items()))\n"

# the two parallel maps of undeploy (ids per inner location name, first wrapping location per name) folded into one map of
# (location, ids) pairs (B34-3)
_MAPS = ("    jobs_map: dict[str, list[str]] = {}\n    loc_map: dict[str, ExecutionLocation] = {}\n    for job_id, location in self._scheduled_jobs.items():\n"
         "        inner_location = get_inner_location(location)\n        jobs_map.setdefault(inner_location.name, []).append(job_id)\n"
         "        loc_map.setdefault(inner_location.name, location)\n    self._scheduled_jobs = {}\n" + _GATHER)
_PAIR_FILL = "        _, jobs = jobs_by_location.setdefault(inner_location.name, (location, []))\n        jobs.append(job_id)\n"
_PAIR_GEN = "for location, jobs in jobs_by_location.values()"


def _pairs(fill: str = _PAIR_FILL, gen: str = _PAIR_GEN) -> str:
    return ("    jobs_by_location: dict[str, tuple[ExecutionLocation, list[str]]] = {}\n    for job_id, location in self._scheduled_jobs.items():\n"
            "        inner_location = get_inner_location(location)\n" + fill + "    self._scheduled_jobs = {}\n"
            "    await asyncio.gather(*(asyncio.create_task(self._remove_jobs(location, jobs)) " + gen + "))\n")


def _pairs_loop(loc: str = "pair[0]", ids: str = "pair[1]") -> str:
    return (_pairs("        entry = jobs_by_location.setdefault(inner_location.name, (location, []))\n        bucket = entry[1]\n        bucket.append(job_id)\n")
            .split("    await asyncio.gather(")[0]
            + "    tasks = []\n    for pair in jobs_by_location.values():\n        first_loc = " + loc + "\n        ids = " + ids + "\n"
              "        tasks.append(asyncio.create_task(self._remove_jobs(first_loc, ids)))\n    await asyncio.gather(*tasks)\n")


VARIANTS = [
    # ---- undeploy with one map of (location, ids) pairs (B34-3): element positions are followed through the stored tuples
    V("B34-3: two parallel maps folded into one map of (first location, ids) pairs", FILE, UND, _MAPS, _pairs(), None),
    V("pairs map, entry through a temporary and subscripts, unpacked from items()", FILE, UND, _MAPS,
      _pairs("        entry = jobs_by_location.setdefault(inner_location.name, (location, []))\n        entry[1].append(job_id)\n",
             "for name, (location, jobs) in jobs_by_location.items()"), None),
    V("pairs map read in a loop through subscripted temporaries", FILE, UND, _MAPS, _pairs_loop(), None),
    V("pairs map read in a loop, the elements swapped", FILE, UND, _MAPS, _pairs_loop("pair[1]", "pair[0]"), "R3"),
    V("pairs map stores the already unwrapped location", FILE, UND, _MAPS, _pairs(_PAIR_FILL.replace("(location, [])", "(inner_location, [])")), "R5"),
    V("pairs map, the generator hands the locations over as ids", FILE, UND, _MAPS, _pairs(gen="for jobs, location in jobs_by_location.values()"), "R3"),
    V("pairs map, the ids are appended to a copy of the stored list", FILE, UND, _MAPS, _pairs(_PAIR_FILL.replace("jobs.append(job_id)", "list(jobs).append(job_id)")), "R3"),
    V("pairs map, the ids go to the first element, the second is cancelled", FILE, UND, _MAPS,
      _pairs("        entry = jobs_by_location.setdefault(inner_location.name, ([], location))\n        entry[0].append(job_id)\n"), "R3"),
    # ---- R1
    V("cache clear removed", FILE, RUN, _CLEAR, "", "R1", control=True),
    V("cache clear moved before the registration", FILE, RUN, _REG + _CLEAR, _CLEAR + _REG, "R1"),
    V("cache cleared without the lock", FILE, RUN, _CLEAR, "        self._jobs_cache.clear()\n", "R1"),
    V("poll without the lock", FILE, RUN, "            async with self._jobs_cache_lock:\n                running_jobs = await self._get_running_jobs(location)",
      "            running_jobs = await self._get_running_jobs(location)", "R1"),
    V("result returned inside the loop", FILE, RUN, "            if job_id not in running_jobs:\n                break\n",
      "            return (await self._get_output(job_id, location), await self._get_returncode(job_id, location))\n", "R1"),
    V("exit test inverted", FILE, RUN, "if job_id not in running_jobs:", "if job_id in running_jobs:", "R1"),
    V("registration removed", FILE, RUN, _REG, "", "R1"),
    V("registration after the first poll", FILE, RUN, _REG + _CLEAR + "        while True:", _CLEAR + "        async with self._jobs_cache_lock:\n            await self._get_running_jobs(location)\n" + _REG + "        while True:", "R1"),
    V("pop before the wait loop", FILE, RUN, _CLEAR + "        while True:", _CLEAR + "        self._scheduled_jobs.pop(job_id)\n        while True:", "R1"),
    V("pop removed", FILE, RUN, "        self._scheduled_jobs.pop(job_id)\n", "", "R1"),
    V("listing polled once, loop re-tests the stale listing", FILE, RUN,
      "        while True:\n            async with self._jobs_cache_lock:\n                running_jobs = await self._get_running_jobs(location)\n",
      "        async with self._jobs_cache_lock:\n            running_jobs = await self._get_running_jobs(location)\n        while True:\n", "R1"),
    V("pop moved into a finally around the wait loop (seeded C27-2)", FILE, RUN, _LOOP + _POP,
      "        try:\n" + _ind(_LOOP) + "        finally:\n            self._scheduled_jobs.pop(job_id, None)\n", "R1", control=True),
    V("pop in an `except Exception` handler that re-raises", FILE, RUN, _LOOP,
      "        try:\n" + _ind(_LOOP) + "        except Exception:\n            self._scheduled_jobs.pop(job_id, None)\n            raise\n", "R1"),
    V("pop when the wait is cancelled", FILE, RUN, _LOOP,
      "        try:\n" + _ind(_LOOP) + "        except asyncio.CancelledError:\n            del self._scheduled_jobs[job_id]\n            raise\n", "R1"),
    V("poll failure reported as the job's result", FILE, RUN, "            async with self._jobs_cache_lock:\n                running_jobs = await self._get_running_jobs(location)\n",
      "            try:\n                async with self._jobs_cache_lock:\n                    running_jobs = await self._get_running_jobs(location)\n            except Exception:\n                return (None, 1)\n", "R1"),
    V("poll failure treated as `job finished`", FILE, RUN, "            async with self._jobs_cache_lock:\n                running_jobs = await self._get_running_jobs(location)\n",
      "            try:\n                async with self._jobs_cache_lock:\n                    running_jobs = await self._get_running_jobs(location)\n            except Exception:\n                break\n", "R1"),
    # ---- R1 (6): no suspension point between the observation of the queue and the bookkeeping in _scheduled_jobs
    V("pop moved behind the awaited result collection (seeded C27b-2)", FILE, RUN, _POP + "        return " + _RES + "\n",
      "        result = " + _RES + "\n        self._scheduled_jobs.pop(job_id, None)\n        return result\n", "R1"),
    V("a suspension point between the loop exit and the pop", FILE, RUN, _POP, "        await asyncio.sleep(0)\n" + _POP, "R1"),
    V("pop under the jobs-cache lock (acquiring it may suspend)", FILE, RUN, _POP, "        async with self._jobs_cache_lock:\n            self._scheduled_jobs.pop(job_id)\n", "R1"),
    V("pop inside the result tuple, behind the awaited output", FILE, RUN, _POP + "        return " + _RES + "\n",
      "        return (" + _OUT + ", (self._scheduled_jobs.pop(job_id), " + _RC + ")[1])\n", "R1"),
    V("pop only after the output was fetched in the exit branch", FILE, RUN, "            if job_id not in running_jobs:\n                break\n",
      "            if job_id not in running_jobs:\n                out = await self._get_output(job_id, location)\n                break\n", "R1"),
    V("a suspension point between the submission and the registration", FILE, RUN, _REG, "        await asyncio.sleep(0)\n" + _REG, "R1"),
    V("registration under the jobs-cache lock (acquiring it may suspend)", FILE, RUN, _REG + _CLEAR,
      "        async with self._jobs_cache_lock:\n            self._scheduled_jobs[job_id] = location\n            self._jobs_cache.clear()\n", "R1"),
    # ---- R2
    V("one sibling caches on another cache object", FILE, f"{MOD}.PBSConnector._get_running_jobs", "cache=lambda self: self._jobs_cache", "cache=lambda self: self._other_cache", "R2", control=True),
    V("one sibling caches on a private TTLCache", FILE, f"{MOD}.FluxConnector._get_running_jobs", "cache=lambda self: self._jobs_cache", "cache=TTLCache(maxsize=1, global_ttl=5)", "R2"),
    V("new caller polls without the lock", FILE, QMC, "async def undeploy(self, external: bool) -> None:",
      "async def is_idle(self, location) -> bool:\n        return not await self._get_running_jobs(location)\n\n    async def undeploy(self, external: bool) -> None:", "R2"),
    V("named cache getter returns another attribute", FILE, None, _LAM, "cache=_get_jobs_cache", "R2", count=3,
      append="def _get_jobs_cache(connector):\n    return connector._listing_cache\n"),
    V("named cache getter ignores the connector (one module-wide cache)", FILE, f"{MOD}.SlurmConnector._get_running_jobs", _LAM, "cache=_shared_cache", "R2",
      append="_SHARED = TTLCache(maxsize=1, global_ttl=5)\n\n\ndef _shared_cache(connector):\n    return _SHARED\n"),
    V("named cache getter yields the connector's cache on one branch only", FILE, f"{MOD}.PBSConnector._get_running_jobs", _LAM, "cache=_pick_cache", "R2",
      append="_FALLBACK = TTLCache(maxsize=1, global_ttl=5)\n\n\ndef _pick_cache(connector):\n    if connector.pollingInterval > 0:\n        return connector._jobs_cache\n    return _FALLBACK\n"),
    V("named cache getter rebinds its argument to the wrapped connector", FILE, f"{MOD}.FluxConnector._get_running_jobs", _LAM, "cache=_inner_cache", "R2",
      append="def _inner_cache(connector):\n    connector = connector.connector\n    return connector._jobs_cache\n"),
    V("named cache getter can fall through (returns None: cachebox then fails / caches nothing that run clears)", FILE, f"{MOD}.FluxConnector._get_running_jobs", _LAM, "cache=_maybe_cache", "R2",
      append="def _maybe_cache(connector):\n    if connector.pollingInterval > 0:\n        return connector._jobs_cache\n"),
    V("module-level alias of a lambda on another attribute", FILE, f"{MOD}.SlurmConnector._get_running_jobs", _LAM, "cache=_cache_of", "R2",
      append="_cache_of = lambda connector: connector._running_cache\n"),
    V("attrgetter of another attribute", FILE, f"{MOD}.SlurmConnector._get_running_jobs", _LAM, "cache=_cache_of", "R2",
      append="import operator\n\n_cache_of = operator.attrgetter('_running_cache')\n"),
    V("cache getter defined in the class body returns a class-wide cache", FILE, f"{MOD}.PBSConnector._get_running_jobs", "@cached(" + _LAM,
      "_ALL = TTLCache(maxsize=1, global_ttl=5)\n\ndef _cache_of(connector):\n    return PBSConnector._ALL\n\n@cached(cache=_cache_of", "R2"),
    # ---- R3
    V("undeploy cancels another collection", FILE, UND, "for job_id, location in self._scheduled_jobs.items():", "for job_id, location in self._running_jobs.items():", "R3"),
    V("undeploy skips some ids", FILE, UND, "        jobs_map.setdefault(inner_location.name, []).append(job_id)",
      "        if job_id.isdigit():\n            jobs_map.setdefault(inner_location.name, []).append(job_id)", "R3", control=True),
    V("undeploy cancels the location names", FILE, UND, "for location, jobs in jobs_map.items()", "for jobs, location in jobs_map.items()", "R3"),
    V("undeploy empties the map on one branch only", FILE, UND, "    self._scheduled_jobs = {}\n", "    if external:\n        self._scheduled_jobs = {}\n", "R3"),
    V("a sibling drops ids from _scheduled_jobs", FILE, f"{MOD}.SlurmConnector._get_running_jobs", "    stdout, _ = await super().run(",
      "    self._scheduled_jobs.pop(next(iter(self._scheduled_jobs), None), None)\n    stdout, _ = await super().run(", "R3"),
    V("external writer of _scheduled_jobs", FILE, None, None, None, "R3", append="def forget(connector, job_id):\n    connector._scheduled_jobs.pop(job_id, None)\n"),
    # ---- R4
    V("output of another id", FILE, RUN, "await self._get_output(job_id, location)", "await self._get_output(job_name, location)", "R4"),
    V("return code of another id", FILE, RUN, "await self._get_returncode(job_id, location)", "await self._get_returncode(next(iter(self._scheduled_jobs)), location)", "R4"),
    V("registers the job name", FILE, RUN, "self._scheduled_jobs[job_id] = location", "self._scheduled_jobs[job_name] = location", "R4"),
    # ---- R5
    V("run delegates without unwrapping", FILE, RUN, "location=get_inner_location(location)", "location=location", "R5", control=True),
    V("a sibling unwraps before delegating", FILE, f"{MOD}.SlurmConnector._remove_jobs", "location=location", "location=get_inner_location(location)", "R5"),
    V("run passes an unwrapped location to _get_output", FILE, RUN, "await self._get_output(job_id, location)", "await self._get_output(job_id, get_inner_location(location))", "R5"),
    V("run polls with an unwrapped location", FILE, RUN, "running_jobs = await self._get_running_jobs(location)", "inner = get_inner_location(location)\n                running_jobs = await self._get_running_jobs(inner)", "R5"),
    # ---- benign
    V("S13 reverted: undeploy hands the already unwrapped location to _remove_jobs", FILE, UND, "loc_map.setdefault(inner_location.name, location)", "loc_map.setdefault(inner_location.name, inner_location)", "R5"),
    V("S14 reverted: map reset after awaiting the cancellations", FILE, UND, "    self._scheduled_jobs = {}\n" + _GATHER, _GATHER + "    self._scheduled_jobs = {}\n", "R3"),
    V("undeploy unwraps for the key only, local renamed", FILE, UND, "inner_location", "inner", None, count=4),
    V("reset via clear() right after the snapshot", FILE, UND, "    self._scheduled_jobs = {}\n" + _GATHER, "    self._scheduled_jobs.clear()\n" + _GATHER, None),
    V("S14 repair: swap the map, iterate the old one", FILE, UND, "    for job_id, location in self._scheduled_jobs.items():\n",
      "    scheduled, self._scheduled_jobs = (self._scheduled_jobs, {})\n    for job_id, location in scheduled.items():\n", None),
    V("rename job id variable", FILE, RUN, "job_id", "jid", None, count=7),
    V("sleep before the poll", FILE, RUN, "        while True:\n            async with self._jobs_cache_lock:\n                running_jobs = await self._get_running_jobs(location)\n            if job_id not in running_jobs:\n                break\n            await asyncio.sleep(self.pollingInterval)\n",
      "        first = True\n        while True:\n            if not first:\n                await asyncio.sleep(self.pollingInterval)\n            first = False\n            async with self._jobs_cache_lock:\n                running_jobs = await self._get_running_jobs(location)\n            if job_id not in running_jobs:\n                break\n", None),
    V("logging after registration", FILE, RUN, _REG, _REG + "        logger.debug('registered')\n", None),
    V("exit test as `in` with else-break", FILE, RUN, "            if job_id not in running_jobs:\n                break\n            await asyncio.sleep(self.pollingInterval)\n",
      "            if job_id in running_jobs:\n                await asyncio.sleep(self.pollingInterval)\n            else:\n                break\n", None),
    V("clear and first poll under one lock hold", FILE, RUN, _CLEAR, "        async with self._jobs_cache_lock:\n            self._jobs_cache.clear()\n            await self._get_running_jobs(location)\n", None),
    V("undeploy empties with clear()", FILE, UND, "self._scheduled_jobs = {}", "self._scheduled_jobs.clear()", None),
    V("finally around the wait loop only logs, pop stays behind it", FILE, RUN, _LOOP,
      "        try:\n" + _ind(_LOOP) + "        finally:\n            logger.debug('wait over')\n", None),
    V("pop in the else clause of a try around the wait loop", FILE, RUN, _LOOP + _POP,
      "        try:\n" + _ind(_LOOP) + "        except Exception:\n            logger.error('poll failed')\n            raise\n        else:\n            self._scheduled_jobs.pop(job_id)\n", None),
    V("tolerant pop after the loop", FILE, RUN, _POP, "        self._scheduled_jobs.pop(job_id, None)\n", None),
    V("failed poll retried in the next round", FILE, RUN, "            async with self._jobs_cache_lock:\n                running_jobs = await self._get_running_jobs(location)\n",
      "            try:\n                async with self._jobs_cache_lock:\n                    running_jobs = await self._get_running_jobs(location)\n            except WorkflowExecutionException:\n                await asyncio.sleep(self.pollingInterval)\n                continue\n", None),
    # (module-level getters are appended: the analysis does not depend on the textual order of module-level definitions)
    V("B4-6: the three lambda cache getters replaced by one named module-level function", FILE, None, _LAM, "cache=_get_jobs_cache", None, count=3,
      append="def _get_jobs_cache(connector: QueueManagerConnector) -> BaseCacheImpl:\n    return connector._jobs_cache\n"),
    V("named cache getter with a docstring, a local alias and a temporary", FILE, None, _LAM, "cache=_get_jobs_cache", None, count=3,
      append="def _get_jobs_cache(connector, /):\n    'cache of the running jobs'\n    owner = connector\n    cache = owner._jobs_cache\n    pass\n    return cache\n"),
    V("named cache getter delegating to another getter / getattr (bounded inlining)", FILE, None, _LAM, "cache=_get_jobs_cache", None, count=3,
      append="def _attr(obj):\n    return getattr(obj, '_jobs_cache')\n\n\ndef _get_jobs_cache(connector):\n    if connector is None:\n        raise ValueError('no connector')\n    return _attr(connector)\n"),
    V("module-level alias of the lambda", FILE, None, _LAM, "cache=_jobs_cache_of", None, count=3, append="_jobs_cache_of = lambda c: c._jobs_cache\n"),
    V("operator.attrgetter as cache getter", FILE, None, _LAM, "cache=_jobs_cache_of", None, count=3, append="import operator\n\n_jobs_cache_of = operator.attrgetter('_jobs_cache')\n"),
    V("cache getter defined in the class body", FILE, f"{MOD}.PBSConnector._get_running_jobs", "@cached(" + _LAM,
      "def _cache_of(connector):\n    return connector._jobs_cache\n\n@cached(cache=_cache_of", None),
    V("lambda with another parameter name and a conditional expression", FILE, f"{MOD}.SlurmConnector._get_running_jobs", _LAM,
      "cache=lambda c, *_: c._jobs_cache if c.pollingInterval else getattr(c, '_jobs_cache')", None),
    V("result collected into a temporary behind the pop", FILE, RUN, "        return " + _RES + "\n", "        result = " + _RES + "\n        return result\n", None),
    V("exit test inside the lock hold (releasing an asyncio.Lock does not suspend)", FILE, RUN,
      "            if job_id not in running_jobs:\n                break\n", "                if job_id not in running_jobs:\n                    break\n", None),
    V("pop in the exit branch, before the break", FILE, RUN, "            if job_id not in running_jobs:\n                break\n            await asyncio.sleep(self.pollingInterval)\n" + _POP,
      "            if job_id not in running_jobs:\n                self._scheduled_jobs.pop(job_id)\n                break\n            await asyncio.sleep(self.pollingInterval)\n", None),
    V("pop evaluated first inside the returned expression", FILE, RUN, _POP + "        return " + _RES + "\n",
      "        return (self._scheduled_jobs.pop(job_id), " + _OUT + ", " + _RC + ")[1:]\n", None),
    V("exit test as a guard clause that continues", FILE, RUN, "            if job_id not in running_jobs:\n                break\n            await asyncio.sleep(self.pollingInterval)\n",
      "            if job_id in running_jobs:\n                await asyncio.sleep(self.pollingInterval)\n                continue\n            break\n", None),
    V("result into locals", FILE, RUN, "        self._scheduled_jobs.pop(job_id)\n", "        self._scheduled_jobs.pop(job_id)\n        logger.debug('left the queue')\n", None),
    # ---- the batch branch of run split off into a private helper (B16-5): the rules follow the resolved call
    V("B16-5: run split in two cooperating methods, the batch branch moved verbatim into _run_batch_job", FILE, RUN, _RUN_BODY, _split(), None),
    V("split run, helper result through a temporary", FILE, RUN, _RUN_BODY,
      _split("        res = await self._run_batch_job(" + _HELPER_ARGS + ")\n        logger.debug('batch job done')\n        return res\n"), None),
    V("split run, two helper levels (run -> _batch -> _run_batch_job)", FILE, RUN, _RUN_BODY,
      _split("        return await self._batch(" + _HELPER_ARGS + ")\n",
             extra="async def _batch" + _HELPER_SIG + ":\n    return await self._run_batch_job(" + _HELPER_ARGS + ")\n\n"), None),
    V("split run, pop moved into a finally inside the helper", FILE, RUN, _RUN_BODY,
      _split(batch=_BATCH.replace(_LOOP + _POP, "        try:\n" + _ind(_LOOP) + "        finally:\n            self._scheduled_jobs.pop(job_id, None)\n")), "R1"),
    V("split run, helper clears the cache before the registration", FILE, RUN, _RUN_BODY, _split(batch=_BATCH.replace(_REG + _CLEAR, _CLEAR + _REG)), "R1"),
    V("split run, helper pops behind the awaited result collection", FILE, RUN, _RUN_BODY,
      _split(batch=_BATCH.replace(_POP + "        return " + _RES + "\n", "        result = " + _RES + "\n        self._scheduled_jobs.pop(job_id, None)\n        return result\n")), "R1"),
    V("split run, the remaining run wipes the bookkeeping when the helper fails", FILE, RUN, _RUN_BODY,
      _split("        try:\n    " + _DELEGATE + "        except Exception:\n            self._scheduled_jobs.clear()\n            raise\n"), "R3"),
    V("split run, the helper is started as a task and run returns at once", FILE, RUN, _RUN_BODY,
      _split("        asyncio.create_task(self._run_batch_job(" + _HELPER_ARGS + "))\n        return (None, 0)\n"), "R4"),
    V("split run, the helper's result is dropped on one path", FILE, RUN, _RUN_BODY,
      _split("        res = await self._run_batch_job(" + _HELPER_ARGS + ")\n        if capture_output:\n            return res\n"), "R4"),
    V("split run, helper reads the return code of another id", FILE, RUN, _RUN_BODY,
      _split(batch=_BATCH.replace("await self._get_returncode(job_id, location)", "await self._get_returncode(job_name, location)")), "R4"),
    V("split run, the helper receives an already unwrapped location", FILE, RUN, _RUN_BODY,
      _split(_DELEGATE.replace("location=location", "location=get_inner_location(location)")), "R5"),
    # ---- a part of the batch branch split off into a private coroutine (B22-3): its body is spliced in at the call
    V("B22-3: registration, cache clear, wait loop and pop moved into _wait_for_job; result through if/else temporaries", FILE, RUN, _RUN_BODY, _partial(), None),
    V("partial split, helper with other parameter names (keywords, a default), a docstring, a raising guard clause and a final return", FILE, RUN, _RUN_BODY,
      _partial(call="        await self._wait_for_job(loc=location, jid=job_id)\n", sig="(self, jid, loc, label='batch')",
               wait="        'wait until the job left the queue'\n        if jid is None:\n            raise WorkflowExecutionException(f'no {label} job id')\n"
                    + _WAIT_BODY.replace("job_id", "jid").replace("location", "loc") + "        return\n"), None),
    V("partial split, wait and result collection in the helper whose result run returns", FILE, RUN, _RUN_BODY,
      _partial(call="        return await self._wait_for_job(job_id, location, stdout)\n", collect="", sig="(self, job_id, location, stdout)",
               wait=_WAIT_BODY + "        return " + _RES + "\n"), None),
    V("partial split, wait and result collection in the helper, result through a temporary of run", FILE, RUN, _RUN_BODY,
      _partial(call="        result = await self._wait_for_job(job_id, location, stdout)\n", collect="        return result\n", sig="(self, job_id, location, stdout)",
               wait=_WAIT_BODY + "        return " + _RES + "\n"), None),
    V("partial split the other way round: the helper submits, registers and clears, run waits and collects", FILE, RUN, _RUN_BODY,
      _partial(head=_SUBMIT, call="        job_id = await self._submit(command_str, location, job_name, workdir, stdin, stdout, stderr, timeout)\n",
               collect=_LOOP + _POP + "        return " + _RES + "\n", name="_submit", sig="(self, command_str, location, job_name, workdir, stdin, stdout, stderr, timeout)",
               wait=_SUBMIT_REST + _REG + _CLEAR + "        return job_id\n"), None),
    V("partial split, two levels: _wait_for_job registers and delegates the polling to _poll_until_gone", FILE, RUN, _RUN_BODY,
      _partial(wait=_REG + _CLEAR + "        await self._poll_until_gone(job_id, location)\n" + _POP,
               extra="async def _poll_until_gone(self, job_id, location):\n" + _dedent4(_LOOP) + "\n"), None),
    V("partial split, the helper pops in a finally around the wait loop", FILE, RUN, _RUN_BODY,
      _partial(wait=_REG + _CLEAR + "        try:\n" + _ind(_LOOP) + "        finally:\n            self._scheduled_jobs.pop(job_id, None)\n"), "R1"),
    V("partial split, the helper clears the cache before the registration", FILE, RUN, _RUN_BODY, _partial(wait=_CLEAR + _REG + _LOOP + _POP), "R1"),
    V("partial split, a suspension point between the submission and the helper that registers the id", FILE, RUN, _RUN_BODY,
      _partial(call="        await asyncio.sleep(0)\n" + _WAIT_CALL), "R1"),
    V("partial split, the helper leaves the pop to run, which pops behind the awaited result collection", FILE, RUN, _RUN_BODY,
      _partial(wait=_REG + _CLEAR + _LOOP, collect=_COLLECT.replace("        return (output, returncode)\n", "        self._scheduled_jobs.pop(job_id)\n        return (output, returncode)\n")), "R1"),
    V("partial split, the helper returns from inside the wait loop without testing the listing", FILE, RUN, _RUN_BODY,
      _partial(call="        return await self._wait_for_job(job_id, location, stdout)\n", collect="", sig="(self, job_id, location, stdout)",
               wait=(_WAIT_BODY + "        return " + _RES + "\n").replace("            if job_id not in running_jobs:\n                break\n", "            if not running_jobs:\n                return (None, 0)\n            if job_id not in running_jobs:\n                break\n")), "R1"),
    V("partial split, the helper is also used by another method", FILE, RUN, _RUN_BODY,
      _partial(extra="async def resume(self, job_id, location):\n    await self._wait_for_job(job_id, location)\n\n"), "R3"),
    V("partial split, run collects the return code of another id", FILE, RUN, _RUN_BODY,
      _partial(collect=_COLLECT.replace("await self._get_returncode(job_id, location)", "await self._get_returncode(job_name, location)")), "R4"),
    V("partial split, the helper waits for another id than the submitted one", FILE, RUN, _RUN_BODY,
      _partial(call="        await self._wait_for_job(job_name, location)\n"), "R4"),
    V("partial split, run drops the return code", FILE, RUN, _RUN_BODY,
      _partial(collect=_COLLECT.replace("return (output, returncode)", "return (output, 0)")), "R4"),
    V("partial split, the helper receives an already unwrapped location", FILE, RUN, _RUN_BODY,
      _partial(call="        await self._wait_for_job(job_id, get_inner_location(location))\n"), "R5"),
]
