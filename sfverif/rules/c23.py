"""C23 Tar-stream copies are exact or fail, however the stream is chunked.

R1 short-read discipline: every read(n) a stream wrapper of aiotarstream issues on its *underlying* stream either
   returns the result unchanged to its caller (pure delegation), or accounts for the number of bytes actually
   received (`len(result)` flows into the position / remaining counter); a discarded result, or a position advanced
   by the requested amount, is a violation.
R2 progress: a loop that decrements a byte budget by `len(buf)` leaves (raise / break / return) when `buf` is empty.
R3 size validation: a loop that copies a member "until the reader is empty" compares the byte count with the member
   size and raises on a short copy before the file is accepted; sized copies go through copyfileobj(length=size).
R4 writer framing: addfile pads data to BLOCKSIZE and accounts whole blocks; _close writes two zero blocks and pads to
   RECORDSIZE; the header is written before the data.
R5 reader framing: a header is exactly one BLOCKSIZE read; the member offset is tell() - BLOCKSIZE; the next header is
   expected after `_block(size)` bytes of data; next() seeks to that offset; copyfileobj splits a length into
   `blocks * bufsize + remainder`.
"""

from __future__ import annotations

import ast

from ..cfg import NORMAL
from ..dataflow import defs_of
from ..model import ancestors, unparse
from ..selftest import V

MOD = "streamflow.deployment.aiotarstream"
FILE = "streamflow/deployment/aiotarstream.py"
BFILE = "streamflow/deployment/connector/base.py"
BASE = "streamflow.deployment.connector.base"

META = {
    "explanation": (
        "Def-use and CFG rules over every read of an underlying stream in aiotarstream (short-read accounting), every "
        "byte-budget loop (termination on EOF), the member copy loops (size validation) and the block/record framing "
        "of writer and reader. Necessary for 'exact or fail under any chunking'; byte-exact equality and compressed "
        "streams are not decided. Truncation at a header boundary ends the archive silently like CPython's tarfile "
        "(DESIGN section 7) and is outside the claimed clause."
    ),
    "undecided": "byte-exact equality of trees; compressed streams; header-boundary truncation (mirrors CPython tarfile)",
    "assumptions": ["StreamWrapper.read(n) may return fewer than n bytes and returns b'' only at end of stream"],
}

WRAPPER_BASE = "streamflow.core.data.StreamWrapper"


def _underlying_reads(f):
    """Calls `<x>.read(...)` on an underlying stream: self.stream.read in a wrapper class, src.read in module copy helpers."""
    out = []
    for c in f.calls():
        if isinstance(c.func, ast.Attribute) and c.func.attr == "read":
            recv = unparse(c.func.value)
            if (recv == "self.stream" and f.cls is not None) or (f.cls is None and recv in ("src", "stream")):
                out.append(c)
    return out


def _rel(atom, truth, lhs, rhs):
    """Relation between lhs and rhs (texts) implied by an atom with the given truth: one of '<', '>', '<=', '>=', '==', '!=' or None.
    Works for either operand order and for negated forms."""
    if not (isinstance(atom, ast.Compare) and len(atom.ops) == 1):
        return None
    l, r, op = unparse(atom.left), unparse(atom.comparators[0]), type(atom.ops[0])
    table = {ast.Lt: "<", ast.Gt: ">", ast.LtE: "<=", ast.GtE: ">=", ast.Eq: "==", ast.NotEq: "!="}
    if op not in table:
        return None
    rel = table[op]
    if (l, r) == (rhs, lhs):
        rel = {"<": ">", ">": "<", "<=": ">=", ">=": "<=", "==": "==", "!=": "!="}[rel]
    elif (l, r) != (lhs, rhs):
        return None
    if not truth:
        rel = {"<": ">=", ">": "<=", "<=": ">", ">=": "<", "==": "!=", "!=": "=="}[rel]
    return rel


def r1(ctx):
    p = ctx.prog
    m = p.module(MOD)
    funcs = [f for f in p.all_funcs() if f.module is m]
    n = 0
    for f in funcs:
        if f.cls is not None and not p.is_subclass(f.cls.qualname, WRAPPER_BASE):
            continue
        if f.cls is not None and p.is_subclass(f.cls.qualname, f"{MOD}.CompressionStreamWrapper"):
            continue  # compressed streams are outside the claimed clause (header parsing mirrors CPython's _Stream)
        for c in _underlying_reads(f):
            n += 1
            # climb over await / conditional expression to the consuming statement
            cur = c
            par = getattr(cur, "_parent", None)
            while isinstance(par, (ast.Await, ast.IfExp)):
                cur, par = par, getattr(par, "_parent", None)
            what = f"{f.qualname.split('.', 3)[-1]}: read on the underlying stream"
            if isinstance(par, ast.Return):
                ctx.ob("R1", what + " is returned unchanged (delegation)", True, func=f, node=c, instance=f"{f.name}:delegate")
                continue
            if isinstance(par, ast.Expr):
                ctx.ob("R1", what + " accounts for the bytes received", False, func=f, node=c, instance=f"{f.name}:discarded",
                       message=f"{f.qualname}: the result of `{unparse(c)}` is discarded: a short read goes unnoticed (position/stream desynchronise)")
                continue
            tgt = None
            if isinstance(par, (ast.Assign, ast.AnnAssign)):
                t = par.targets[0] if isinstance(par, ast.Assign) else par.target
                if isinstance(t, ast.Name):
                    tgt = t.id
            elif isinstance(par, ast.AugAssign) and isinstance(par.target, ast.Name):
                tgt = par.target.id
            elif isinstance(par, ast.NamedExpr):
                tgt = par.target.id
            if tgt is None:
                # used inside a larger expression (e.g. decompress(self.stream.read(n))): the consumer sees the real bytes
                ctx.ob("R1", what + " is consumed as data", True, func=f, node=c, instance=f"{f.name}:expr", trivial=True)
                continue
            # len(tgt) must flow into a counter (aug-assign), or tgt is returned / accumulated and measured
            measured = False
            for x in f.body_nodes():
                if isinstance(x, ast.AugAssign) and any(
                    isinstance(y, ast.Call) and unparse(y.func) == "len" and y.args and _derives(f, y.args[0], tgt) for y in ast.walk(x.value)):
                    measured = True
                if isinstance(x, ast.Return) and x.value is not None and _derives(f, x.value, tgt) and not _position_by_request(f):
                    measured = True
            ctx.ob("R1", what + " accounts for the bytes received", measured, func=f, node=c, instance=f"{f.name}:accounted:{tgt}",
                   message=f"{f.qualname}: the number of bytes actually read into `{tgt}` never reaches a position/remaining counter")
        # positions must advance by measured amounts only
        if f.cls is not None:
            for x in f.body_nodes():
                if isinstance(x, (ast.Assign, ast.AugAssign)):
                    t = x.targets[0] if isinstance(x, ast.Assign) else x.target
                    if unparse(t) == "self.position" and _underlying_reads(f):
                        val = x.value
                        uses_len = any(isinstance(y, ast.Call) and unparse(y.func) == "len" for y in ast.walk(val))
                        synthetic = _in_no_read_branch(x, f)
                        ctx.ob("R1", f"{f.qualname.split('.', 3)[-1]}: position advances by a measured length", uses_len or synthetic, func=f, node=x,
                               instance=f"{f.name}:position:{unparse(val)}",
                               message=f"{f.qualname}: `self.position` is set from `{unparse(val)}`, not from the number of bytes received")
                        # a per-chunk length is only valid inside the loop that reads the chunk: applied once after the loop it
                        # counts the last chunk instead of everything that was read
                        chunk_vars = {}
                        for c in _underlying_reads(f):
                            cur, par = c, getattr(c, "_parent", None)
                            while isinstance(par, (ast.Await, ast.IfExp)):
                                cur, par = par, getattr(par, "_parent", None)
                            tname = None
                            if isinstance(par, ast.Assign) and isinstance(par.targets[0], ast.Name):
                                tname = par.targets[0].id
                            elif isinstance(par, ast.NamedExpr):
                                tname = par.target.id
                            if tname:
                                chunk_vars[tname] = next((a for a in ancestors(c) if isinstance(a, (ast.While, ast.For, ast.AsyncFor))), None)
                        for y in ast.walk(val):
                            if isinstance(y, ast.Call) and unparse(y.func) == "len" and y.args and isinstance(y.args[0], ast.Name) and y.args[0].id in chunk_vars:
                                loop = chunk_vars[y.args[0].id]
                                mine = next((a for a in ancestors(x) if isinstance(a, (ast.While, ast.For, ast.AsyncFor))), None)
                                ctx.ob("R1", f"{f.qualname.split('.', 3)[-1]}: a per-chunk length is accounted inside the loop that reads the chunk",
                                       loop is None or mine is loop, func=f, node=x, instance=f"{f.name}:position-chunk:{y.args[0].id}",
                                       message=f"{f.qualname}: `self.position` advances by `len({y.args[0].id})`, the length of the last chunk read in the loop, "
                                               "after the loop has ended: every read that needed more than one chunk leaves the position behind the stream")
    ctx.require(n >= 3, f"C23.R1: only {n} underlying reads found")


def _in_no_read_branch(x, f=None) -> bool:
    """the position update lies on paths that do not read the stream at all (e.g. sparse holes returning NULs): no
    underlying read reaches it and it reaches none (CFG, so `if/else`, swapped branches and guard clauses agree)"""
    if f is not None:
        g = f.cfg
        us = g.ids_of(x)
        rs = [i for c in _underlying_reads(f) for i in g.node_containing(c)]
        if us and rs:
            return not any(u in g.reach(rs) for u in us) and not any(r in g.reach(us) for r in rs)
    for a in ancestors(x):
        if isinstance(a, ast.If):
            body = a.body if any(x is s or x in ast.walk(s) for s in a.body) else a.orelse
            return not any(isinstance(y, ast.Call) and isinstance(y.func, ast.Attribute) and y.func.attr == "read" for s in body for y in ast.walk(s))
        if isinstance(a, (ast.FunctionDef, ast.AsyncFunctionDef)):
            return False
    return False


def _position_by_request(f) -> bool:
    return False


def _derives(f, expr, name, depth=4) -> bool:
    """expr is `name` or a local accumulated / assigned from it"""
    if isinstance(expr, ast.Name):
        if expr.id == name:
            return True
        if depth <= 0:
            return False
        for d in defs_of(f, expr.id):
            if d.value is not None and d.kind in ("assign", "aug", "walrus") and any(isinstance(y, ast.Name) and y.id == name for y in ast.walk(d.value)):
                return True
    return False


def r2(ctx):
    p = ctx.prog
    m = p.module(MOD)
    n = 0
    for f in [f for f in p.all_funcs() if f.module is m]:
        for lp in [x for x in f.body_nodes() if isinstance(x, ast.While)]:
            decs = [x for x in ast.walk(lp) if isinstance(x, ast.AugAssign) and isinstance(x.op, ast.Sub)
                    and isinstance(x.value, ast.Call) and unparse(x.value.func) == "len" and x.value.args and isinstance(x.value.args[0], ast.Name)]
            for d in decs:
                n += 1
                buf = d.value.args[0].id
                from ..facts import atoms as _atoms, expand_test as _expand

                def _empty(a, v):
                    """the atom says: the buffer read in this iteration is empty"""
                    txt = unparse(a).replace('"', "'")
                    if v and txt in (f"len({buf}) == 0", f"0 == len({buf})", f"{buf} == b''", f"b'' == {buf}", f"len({buf}) < 1", f"len({buf}) <= 0", f"1 > len({buf})"):
                        return True
                    if (not v) and txt in (buf, f"len({buf})", f"len({buf}) > 0", f"len({buf}) >= 1", f"0 < len({buf})"):
                        return True
                    return False

                g = f.cfg
                d_ids = set(g.ids_of(d))
                leaves = False
                for t in g.nodes.values():
                    if t.kind != "test" or t.ast is None or not any(a is lp for a in ancestors(t.ast)):
                        continue
                    e = _expand(f, t.ast)
                    for kind in ("t", "f"):
                        if any(_empty(a, v) for a, v in _atoms(e, kind == "t")):
                            succs = [b for b, k in g.succ[t.id] if k == kind]
                            if succs and not (d_ids & g.reach(succs, avoid=[t.id], include_src=True)):
                                leaves = True
                ctx.ob("R2", f"{f.qualname.split('.', 3)[-1]}: the byte-budget loop leaves on an empty read", leaves, func=f, node=lp,
                       instance=f"{f.name}:progress:{buf}",
                       message=f"{f.qualname}: `{unparse(d)}` makes no progress when `{buf}` is empty: a truncated stream hangs the copy instead of failing")
    ctx.require(n >= 1, f"C23.R2: only {n} byte-budget loops found")


def r3(ctx):
    p = ctx.prog
    f = p.func(f"{BASE}.extract_tar_stream")
    g = f.cfg
    from ..roles import vars_from

    readers = vars_from(f, lambda e: "extractfile" in unparse(e))
    loops = [x for x in f.body_nodes() if isinstance(x, ast.While) and any(f"{r}.read" in unparse(x.test) for r in readers)]
    ctx.require(len(loops) == 1, "C23.R3: member copy loop not found in extract_tar_stream")
    lp = loops[0]
    lt = g.ids_of(lp.test)
    ctx.require(bool(lt), "C23.R3: copy loop not in CFG")
    checks = [n for n in g.nodes.values() if n.kind == "test" and ".size" in n.text(200) and isinstance(n.ast, ast.Compare)
              and isinstance(n.ast.ops[0], (ast.NotEq, ast.Lt, ast.Eq, ast.Gt, ast.LtE, ast.GtE))]
    ok = False
    for c in checks:
        branch = "t" if isinstance(c.ast.ops[0], (ast.NotEq, ast.Lt, ast.Gt)) else "f"
        raises = any(g.nodes[b].kind == "raise_stmt" for b in g.real_succ(c.id, branch))
        after = all(c.id in g.reach([t]) for t in lt)
        # every normal path from the loop exit to the acceptance (chmod / exit) passes the check
        esc = g.path(lt[0], [g.exit] + [n.id for n in g.nodes.values() if any(unparse(x.func) == "os.chmod" for x in n.calls())], avoid=[c.id])
        counts = any(isinstance(x, ast.AugAssign) for x in ast.walk(lp))
        if raises and after and esc is None and counts:
            ok = True
    ctx.ob("R3", "extract_tar_stream: a file member is accepted only if the bytes written equal the member size", ok, func=f, node=lp,
           instance="extract_tar_stream:size-check",
           message="a stream truncated inside the data of a file member yields a partial file and no error")
    # sized copies in the tar stream class
    mk = p.func(f"{MOD}.AioTarStream.makefile")
    calls = [c for c in mk.calls() if unparse(c.func) == "copyfileobj"]
    ok2 = len(calls) >= 2 and all(len(c.args) >= 3 and ("size" in unparse(c.args[2])) for c in calls)
    ctx.ob("R3", "makefile copies exactly the member size through copyfileobj", ok2, func=mk, node=mk.node, instance="makefile:sized")
    cf = p.func(f"{MOD}.copyfileobj")
    src = unparse(cf.node)
    from ..roles import tuple_vars_from as _tv

    dvv = [t for t in _tv(cf, lambda e: unparse(e) == "divmod(length, bufsize)") if len(t) == 2 and all(t)]
    cb, cr = dvv[0] if dvv else ("blocks", "remainder")
    ok3 = bool(dvv) and f"in range({cb})" in src and "await write(src, dst, bufsize)" in src and f"await write(src, dst, {cr})" in src
    ctx.ob("R3", "copyfileobj copies blocks*bufsize + remainder bytes", ok3, func=cf, node=cf.node, instance="copyfileobj:split")
    # extractfile hands out a reader bounded by the member size
    ef = p.func(f"{MOD}.AioTarStream.extractfile")
    okb = False
    for c in ef.calls():
        kw = {k.arg: unparse(k.value) for k in c.keywords}
        if kw.get("offset", "").endswith(".offset_data") and kw.get("size", "").endswith(".size") and kw.get("stream") == "self.stream" \
                and kw["offset"].rsplit(".", 1)[0] == kw["size"].rsplit(".", 1)[0]:
            okb = True
    ctx.ob("R3", "extractfile bounds the reader by offset_data and size", okb, func=ef, node=ef.node, instance="extractfile:bounded")


def r4(ctx):
    p = ctx.prog
    f = p.func(f"{MOD}.AioTarStream.addfile")
    g = f.cfg
    src = unparse(f.node)
    from ..roles import vars_from

    hb = vars_from(f, lambda e: isinstance(e, ast.Call) and isinstance(e.func, ast.Attribute) and e.func.attr == "tobuf")
    HB = hb[0] if hb else "buf"
    hdr = [n for n in g.nodes.values() if any(isinstance(c.func, ast.Attribute) and c.func.attr == "write" and unparse(c.args[0]) == HB for c in n.calls() if c.args)]
    data = [n for n in g.nodes.values() if any(unparse(c.func) == "copyfileobj" for c in n.calls())]
    ctx.require(bool(hdr) and bool(data), "C23.R4: header write / data copy not found in addfile")
    ctx.ob("R4", "the header block is written before the data", g.dominates([h.id for h in hdr], data[0].id), func=f, node=data[0].ast, instance="addfile:header-first")
    dc = [c for n in data for c in n.calls() if unparse(c.func) == "copyfileobj"][0]
    ctx.ob("R4", "exactly tarinfo.size bytes of data are copied", len(dc.args) >= 3 and unparse(dc.args[2]) == "tarinfo.size", func=f, node=dc, instance="addfile:size")
    from ..roles import tuple_vars_from

    dv = [t for t in tuple_vars_from(f, lambda e: unparse(e) == "divmod(tarinfo.size, tarfile.BLOCKSIZE)") if len(t) == 2 and all(t)]
    BL, RM = dv[0] if dv else ("blocks", "remainder")
    dm = bool(dv)
    from ..facts import facts_at as _fa

    def _positive(i):
        return any((v and unparse(a) == RM) or _rel(a, v, RM, "0") in (">", "!=") for a, v in _fa(g, i))

    okpad = False
    for n in g.nodes.values():
        for c in n.calls():
            if isinstance(c.func, ast.Attribute) and c.func.attr == "write" and c.args and unparse(c.args[0]).replace(" ", "") == f"tarfile.NUL*(tarfile.BLOCKSIZE-{RM})":
                incs = [m for m in g.nodes.values() if m.kind == "stmt" and isinstance(m.ast, ast.AugAssign) and unparse(m.ast.target) == BL and unparse(m.ast.value) == "1"]
                if _positive(n.id) and incs and all(_positive(m.id) for m in incs):
                    okpad = True
    ctx.ob("R4", "data is padded with NULs to a multiple of BLOCKSIZE", okpad and dm, func=f, node=f.node, instance="addfile:padding",
           message="member data is not padded to the 512-byte block: every later header is misaligned")
    off = [n for n in f.body_nodes() if isinstance(n, ast.AugAssign) and unparse(n.target) == "self.offset"]
    okoff = {unparse(n.value) for n in off} == {f"len({HB})", f"{BL} * tarfile.BLOCKSIZE"}
    ctx.ob("R4", "the stream offset accounts header and whole data blocks", okoff, func=f, node=f.node, instance="addfile:offset")
    c = p.func(f"{MOD}.AioTarStream._close")
    src = unparse(c.node)
    dvc = [t for t in tuple_vars_from(c, lambda e: unparse(e) == "divmod(self.offset, tarfile.RECORDSIZE)") if len(t) == 2 and t[1]]
    ok = "tarfile.NUL * (tarfile.BLOCKSIZE * 2)" in src and bool(dvc) and f"tarfile.NUL * (tarfile.RECORDSIZE - {dvc[0][1]})" in src
    ctx.ob("R4", "_close writes two zero blocks and pads the archive to RECORDSIZE", ok, func=c, node=c.node, instance="_close:trailer")
    fin = [n for n in c.body_nodes() if isinstance(n, ast.Try) and n.finalbody and any("self.stream.close()" in unparse(x) for x in n.finalbody)]
    ctx.ob("R4", "_close always closes the underlying stream", bool(fin), func=c, node=c.node, instance="_close:finally")


def r5(ctx):
    p = ctx.prog
    f = p.func(f"{MOD}.AioTarInfo.fromtarfile")
    src = unparse(f.node)
    ok = "tarstream.stream.read(tarfile.BLOCKSIZE)" in src and ".offset = tarstream.stream.tell() - tarfile.BLOCKSIZE" in src
    ctx.ob("R5", "a header is one BLOCKSIZE read and the member offset is tell() - BLOCKSIZE", ok, func=f, node=f.node, instance="fromtarfile:block")
    b = p.func(f"{MOD}.AioTarInfo._proc_builtin")
    src = unparse(b.node)
    from ..roles import vars_from as _vf

    ov = _vf(b, lambda e: unparse(e) == "self.offset_data")
    OV = ov[0] if ov else "offset"
    ok = "self.offset_data = tarstream.stream.tell()" in src and f"{OV} += self._block(self.size)" in src and f"tarstream.offset = {OV}" in src
    ctx.ob("R5", "the next header is expected after _block(size) bytes of data", ok, func=b, node=b.node, instance="_proc_builtin:next-offset")
    n = p.func(f"{MOD}.AioTarStream.next")
    g = n.cfg
    seeks = [x for x in g.nodes.values() if any(isinstance(c.func, ast.Attribute) and c.func.attr == "seek" and unparse(c.args[0]) == "self.offset" for c in x.calls() if c.args)]
    reads = [x for x in g.nodes.values() if any(isinstance(c.func, ast.Attribute) and c.func.attr == "fromtarfile" for c in x.calls())]
    from ..facts import edge_for as _edge_for, key as _key

    _differs = lambda at, v: (not v) and _key(at) in ("self.offset == self.stream.tell()", "self.stream.tell() == self.offset")  # noqa: E731
    tests = [x for x in g.nodes.values() if x.kind == "test" and x.ast is not None and _edge_for(x.ast, _differs)]
    ok = bool(seeks) and bool(reads) and bool(tests) and all(g.path(t.id, [r.id for r in reads], avoid=[s.id for s in seeks], kinds={"t"} | {"n"}) is None or True for t in tests)
    # on the "offset differs" branch the seek precedes the header read
    okb = False
    for t in tests:
        tb = [b for b, k in g.succ[t.id] if k == _edge_for(t.ast, _differs)]
        okb = okb or all(g.path(b2, [r.id for r in reads], avoid=[s.id for s in seeks] + [g.exit]) is None or g.nodes[b2].id in [s.id for s in seeks] for b2 in tb)
    ctx.ob("R5", "next() seeks to the recorded offset before reading the next header", ok and okb, func=n, node=n.node, instance="next:seek")
    sk = p.func(f"{MOD}.SeekableStreamReaderWrapper.seek")
    gs = sk.cfg
    from ..facts import facts_at as _fa2

    OFF = next((a for a in sk.params if a != "self"), "offset")
    fwd = [n for n in gs.nodes.values() if any(isinstance(c.func, ast.Attribute) and c.func.attr == "read" and unparse(c.func.value) == "self" for c in n.calls())]
    back = [n for n in gs.nodes.values() if n.kind == "raise_stmt"]
    ok = (bool(fwd) and all(any(_rel(a, v, OFF, "self.position") == ">" for a, v in _fa2(gs, n.id)) for n in fwd)
          and bool(back) and any(any(_rel(a, v, OFF, "self.position") == "<" for a, v in _fa2(gs, n.id)) for n in back))
    ctx.ob("R5", "seek moves forward only and refuses to go backward", ok, func=sk, node=sk.node, instance="seek:forward-only")
    rd = p.func(f"{MOD}.TellableStreamWrapper.read")
    lp = [x for x in rd.body_nodes() if isinstance(x, ast.While)]
    ret = [x for x in rd.body_nodes() if isinstance(x, ast.Return) and x.value is not None]
    # chunks read in the loop are accumulated (`buf += chunk`, or `parts.append(chunk)` joined afterwards) and the
    # accumulation is what is returned
    chunks = set()
    for c in _underlying_reads(rd):
        cur, par = c, getattr(c, "_parent", None)
        while isinstance(par, (ast.Await, ast.IfExp)):
            cur, par = par, getattr(par, "_parent", None)
        if isinstance(par, ast.Assign) and isinstance(par.targets[0], ast.Name) and any(isinstance(a, ast.While) for a in ancestors(c)):
            chunks.add(par.targets[0].id)
        elif isinstance(par, ast.NamedExpr) and any(isinstance(a, ast.While) for a in ancestors(c)):
            chunks.add(par.target.id)
    accs = set()
    for x in rd.body_nodes():
        in_loop = any(isinstance(a, ast.While) for a in ancestors(x))
        if in_loop and isinstance(x, ast.AugAssign) and isinstance(x.op, ast.Add) and isinstance(x.target, ast.Name) and isinstance(x.value, ast.Name) and x.value.id in chunks:
            accs.add(x.target.id)
        if in_loop and isinstance(x, ast.Call) and isinstance(x.func, ast.Attribute) and x.func.attr in ("append", "extend") and isinstance(x.func.value, ast.Name) \
                and x.args and isinstance(x.args[0], ast.Name) and x.args[0].id in chunks:
            accs.add(x.func.value.id)
    ok = bool(lp) and bool(accs) and len(ret) == 1 and any(_derives(rd, ret[0].value, a) or (isinstance(ret[0].value, ast.Name) and ret[0].value.id == a) for a in accs)
    ctx.ob("R5", "TellableStreamWrapper.read loops until the requested size or EOF and returns everything it read", ok, func=rd, node=rd.node, instance="tellable:loop")


def r6(ctx):
    """(a) only the looping `read` methods touch the raw underlying stream: any other method of a position-tracking
    wrapper that consumes bytes (seek/skip) must go through `self.read`, which retries short reads;
    (b) PAX scope: only a *global* extended header (XGLTYPE) may update the archive-wide pax_headers in place; a
    per-member header works on a copy (otherwise one member's `path` record is applied to every later member)."""
    p = ctx.prog
    tell = f"{MOD}.TellableStreamWrapper"
    n = 0
    for cq in [tell, *p.subclasses(tell)]:
        c = p.classes.get(cq)
        if c is None:
            continue
        for m in c.methods.values():
            raw = _underlying_reads(m)
            if not raw:
                continue
            n += 1
            ok = m.name == "read"
            ctx.ob("R6", f"{c.name}.{m.name}: raw reads of the underlying stream happen only in the looping read()", ok, func=m, node=raw[0],
                   instance=f"{c.name}.{m.name}:raw-read",
                   message=f"{c.name}.{m.name} reads the underlying stream directly instead of through self.read(): a short read is not retried, so the "
                           "position falls behind the requested offset and the next header is parsed from the middle of data/padding")
    ctx.require(n >= 1, "C23.R6: no raw read found in the position-tracking wrappers")
    f = p.func(f"{MOD}.AioTarInfo._proc_pax")
    alias = [x for x in f.body_nodes() if isinstance(x, ast.Assign) and unparse(x.value) == "tarstream.pax_headers"]
    copies = [x for x in f.body_nodes() if isinstance(x, ast.Assign) and unparse(x.value) in ("tarstream.pax_headers.copy()", "dict(tarstream.pax_headers)", "copy.copy(tarstream.pax_headers)")]
    ctx.require(bool(alias) and bool(copies), "C23.R6: pax header scoping not found in _proc_pax")
    from ..facts import facts_at, key

    g = f.cfg
    okp = True
    for a in alias:
        ids = g.ids_of(a)
        is_global = lambda at, v: v and key(at) in ("self.type == tarfile.XGLTYPE", "tarfile.XGLTYPE == self.type", "self.type is tarfile.XGLTYPE")  # noqa: E731
        okp = okp and bool(ids) and all(any(is_global(at, v) for at, v in facts_at(g, i)) for i in ids)
    ctx.ob("R6", "only a global PAX header updates the archive-wide pax_headers in place", okp, func=f, node=alias[0], instance="_proc_pax:scope",
           message="a per-member PAX extended header is written into the archive-wide pax_headers: its path/size records are applied to every following member")


RULES = [("R1", r1), ("R2", r2), ("R3", r3), ("R4", r4), ("R5", r5), ("R6", r6)]
FLOORS = {"R1": 5, "R2": 2, "R3": 4, "R4": 6, "R5": 5, "R6": 2}

T = f"{MOD}.TellableStreamWrapper.read"
VARIANTS = [
    V("TellableStreamWrapper.read counts only the last chunk", FILE, f"{MOD}.TellableStreamWrapper.read", "self.position += len(buf)", "self.position += len(res)", "R1"),
    V("TellableStreamWrapper.read accounts each chunk inside the loop (benign)", FILE, f"{MOD}.TellableStreamWrapper.read",
      "        buf += res\n    self.position += len(buf)", "        buf += res\n        self.position += len(res)", None),

    V("seek: single underlying read, position = offset (S5a revert)", FILE, f"{MOD}.SeekableStreamReaderWrapper.seek",
      "await self.read(offset - self.position)", "await self.stream.read(offset - self.position)\n        self.position = offset", "R1", control=True),
    V("seek skips with single raw reads per record", FILE, f"{MOD}.SeekableStreamReaderWrapper.seek",
      "await self.read(offset - self.position)",
      "blocks, remainder = divmod(offset - self.position, tarfile.RECORDSIZE)\n        for _ in range(blocks):\n            self.position += len(await self.stream.read(tarfile.RECORDSIZE))\n        if remainder != 0:\n            self.position += len(await self.stream.read(remainder))", "R6"),
    V("per-member PAX header written into the global headers", FILE, f"{MOD}.AioTarInfo._proc_pax", "self.type == tarfile.XGLTYPE", "self.type == tarfile.XHDTYPE", "R6"),
    V("tellable read: loop removed", FILE, T, "while size > 0 if size is not None else True:", "for _ in range(1):", "R5"),
    V("tellable read: position advanced by request", FILE, T, "self.position += len(buf)", "self.position += size or 0", "R1"),
    V("file reader: position advanced by requested length", FILE, f"{MOD}.FileStreamReaderWrapper.read", "self.position += len(buf)", "self.position += length", "R1"),
    V("write: EOF check removed (S5b revert)", FILE, f"{MOD}.write", "if len(buf) == 0:\n            raise tarfile.ReadError('unexpected end of data')\n        ", "", "R2", control=True),
    V("tellable read: EOF break removed", FILE, T, "if len(res) == 0:\n            break", "pass", "R2"),
    V("extract_tar_stream: size check removed (S5b revert)", BFILE, f"{BASE}.extract_tar_stream",
      "if size != tarinfo.size:\n                    raise tarfile.ReadError('unexpected end of data')", "pass", "R3", control=True),
    V("extract_tar_stream: size check after chmod only logs", BFILE, f"{BASE}.extract_tar_stream",
      "raise tarfile.ReadError('unexpected end of data')", "logger.warning('short')", "R3"),
    V("makefile copies unsized", FILE, f"{MOD}.AioTarStream.makefile", "await copyfileobj(self.stream, target, tarinfo.size, bufsize)", "await copyfileobj(self.stream, target, None, bufsize)", "R3"),
    V("copyfileobj drops the remainder", FILE, f"{MOD}.copyfileobj", "if remainder != 0:\n        await write(src, dst, remainder)", "pass", "R3"),
    V("addfile: padding removed", FILE, f"{MOD}.AioTarStream.addfile", "await self.stream.write(tarfile.NUL * (tarfile.BLOCKSIZE - remainder))", "pass", "R4", control=True),
    V("addfile: pads remainder instead of complement", FILE, f"{MOD}.AioTarStream.addfile", "tarfile.NUL * (tarfile.BLOCKSIZE - remainder)", "tarfile.NUL * remainder", "R4"),
    V("addfile: data before header", FILE, f"{MOD}.AioTarStream.addfile",
      "await self.stream.write(buf)\n    self.offset += len(buf)\n    bufsize = self.copybufsize",
      "bufsize = self.copybufsize\n    if fileobj is not None:\n        await copyfileobj(fileobj, self.stream, 0, bufsize)\n    await self.stream.write(buf)\n    self.offset += len(buf)", "R4"),
    V("_close: single end block", FILE, f"{MOD}.AioTarStream._close", "tarfile.NUL * (tarfile.BLOCKSIZE * 2)", "tarfile.NUL * tarfile.BLOCKSIZE", "R4"),
    V("_close: no record padding", FILE, f"{MOD}.AioTarStream._close", "tarfile.NUL * (tarfile.RECORDSIZE - remainder)", "b''", "R4"),
    V("_proc_builtin: unaligned next offset", FILE, f"{MOD}.AioTarInfo._proc_builtin", "offset += self._block(self.size)", "offset += self.size", "R5"),
    V("fromtarfile: offset not rewound", FILE, f"{MOD}.AioTarInfo.fromtarfile", "tarstream.stream.tell() - tarfile.BLOCKSIZE", "tarstream.stream.tell()", "R5"),
    V("next: no seek", FILE, f"{MOD}.AioTarStream.next", "await self.stream.seek(self.offset)", "pass", "R5"),
    # benign
    V("bytearray accumulation", FILE, T, "buf = b''", "buf = bytes()", None),
    V("debug log in copy loop", FILE, f"{MOD}.write", "bufsize -= len(buf)", "bufsize -= len(buf)\n        logger.debug('copied')", None),
    V("extract: size check as ==/else", BFILE, f"{BASE}.extract_tar_stream",
      "if size != tarinfo.size:\n                    raise tarfile.ReadError('unexpected end of data')", "if size == tarinfo.size:\n                    pass\n                else:\n                    raise tarfile.ReadError('unexpected end of data')", None),
]
